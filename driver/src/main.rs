// redo-facts: rustc_private driver that dumps MIR facts of the workspace crate as JSON.
//
// Used as RUSTC_WORKSPACE_WRAPPER under `cargo +nightly check`. One JSON file per rustc
// process: $REDO_FACTS_DIR/facts.<crate>.<crate_type>.<pid>.json, written once at the end.
//
// The bodies dumped are the *source-shaped* MIR (`mir_built`): one CFG per fn / closure /
// coroutine, `Yield` at each `.await`, conservative `Drop`s. They are cloned out of the
// `mir_built` query as they are produced (override_queries), because by `after_analysis`
// most of them have been stolen by later passes.
#![feature(rustc_private)]
#![allow(rustc::internal)]

extern crate rustc_abi;
extern crate rustc_data_structures;
extern crate rustc_driver;
extern crate rustc_hir;
extern crate rustc_interface;
extern crate rustc_middle;
extern crate rustc_session;
extern crate rustc_span;

use rustc_data_structures::steal::Steal;
use rustc_driver::Compilation;
use rustc_hir::def::DefKind;
use rustc_middle::mir::{
    self, AggregateKind, BinOp, Body, BorrowKind, CastKind, Const, ConstValue, Operand, Place,
    PlaceElem, Rvalue, StatementKind, TerminatorKind, UnOp,
};
use rustc_middle::ty::print::{with_no_trimmed_paths, with_no_visible_paths};
use rustc_middle::ty::{self, Ty, TyCtxt, TypeVisitableExt, TypingEnv};
use rustc_middle::util::Providers;
use rustc_span::def_id::{DefId, LocalDefId, LOCAL_CRATE};
use rustc_span::Span;
use std::cell::RefCell;
use std::fmt::Write as _;
use std::sync::OnceLock;

static ORIG: OnceLock<for<'tcx> fn(TyCtxt<'tcx>, LocalDefId) -> &'tcx Steal<Body<'tcx>>> =
    OnceLock::new();
thread_local! {
    static STASH: RefCell<Vec<(LocalDefId, Body<'static>)>> = RefCell::new(Vec::new());
}

fn my_mir_built<'tcx>(tcx: TyCtxt<'tcx>, def: LocalDefId) -> &'tcx Steal<Body<'tcx>> {
    let r = (ORIG.get().unwrap())(tcx, def);
    let b: Body<'tcx> = r.borrow().clone();
    // SAFETY: the body is only ever read back inside `after_analysis` of the same `tcx`.
    let b: Body<'static> = unsafe { std::mem::transmute(b) };
    STASH.with(|s| s.borrow_mut().push((def, b)));
    r
}

// ---------------------------------------------------------------- JSON helpers

fn jstr(s: &str) -> String {
    let mut o = String::with_capacity(s.len() + 2);
    o.push('"');
    for c in s.chars() {
        match c {
            '"' => o.push_str("\\\""),
            '\\' => o.push_str("\\\\"),
            '\n' => o.push_str("\\n"),
            '\r' => o.push_str("\\r"),
            '\t' => o.push_str("\\t"),
            c if (c as u32) < 0x20 => {
                let _ = write!(o, "\\u{:04x}", c as u32);
            }
            c => o.push(c),
        }
    }
    o.push('"');
    o
}

fn jlist(items: &[String]) -> String {
    let mut o = String::from("[");
    for (i, it) in items.iter().enumerate() {
        if i > 0 {
            o.push(',');
        }
        o.push_str(it);
    }
    o.push(']');
    o
}

// ---------------------------------------------------------------- extraction

struct Ex<'tcx> {
    tcx: TyCtxt<'tcx>,
}

impl<'tcx> Ex<'tcx> {
    fn path(&self, did: DefId) -> String {
        with_no_visible_paths!(with_no_trimmed_paths!(self.tcx.def_path_str(did)))
    }

    fn ty_s(&self, t: Ty<'tcx>) -> String {
        let t = self.tcx.erase_and_anonymize_regions(t);
        with_no_visible_paths!(with_no_trimmed_paths!(format!("{}", t)))
    }

    fn span_s(&self, sp: Span) -> String {
        let sm = self.tcx.sess.source_map();
        let lo = sm.lookup_char_pos(sp.lo());
        format!("{}:{}", lo.file.name.prefer_local_unconditionally(), lo.line)
    }

    /// Span of the outermost macro call site if the span comes from an expansion.
    fn expn_s(&self, sp: Span) -> Option<String> {
        if sp.from_expansion() {
            let d = sp.ctxt().outer_expn_data();
            let name = match d.kind {
                rustc_span::ExpnKind::Macro(_, n) => n.to_string(),
                rustc_span::ExpnKind::Desugaring(k) => format!("desugar:{:?}", k),
                rustc_span::ExpnKind::AstPass(k) => format!("astpass:{:?}", k),
                rustc_span::ExpnKind::Root => "root".to_string(),
            };
            Some(name)
        } else {
            None
        }
    }

    fn field_name(&self, base_ty: mir::PlaceTy<'tcx>, f: rustc_abi::FieldIdx, owner: DefId) -> String {
        let _ = owner;
        match base_ty.ty.kind() {
            ty::Adt(adt, _) => {
                let vidx = base_ty.variant_index.unwrap_or(rustc_abi::FIRST_VARIANT);
                if adt.is_enum() || adt.is_struct() || adt.is_union() {
                    let v = adt.variant(vidx);
                    let fname = v.fields.get(f).map(|fd| fd.name.to_string()).unwrap_or_else(|| format!("{}", f.index()));
                    if adt.is_enum() {
                        format!("{}::{}.{}", self.path(adt.did()), v.name, fname)
                    } else {
                        format!("{}.{}", self.path(adt.did()), fname)
                    }
                } else {
                    format!("?.{}", f.index())
                }
            }
            ty::Closure(did, _) | ty::Coroutine(did, _) | ty::CoroutineClosure(did, _) => {
                let mut nm = format!("{}", f.index());
                if let Some(ld) = did.as_local() {
                    let caps = self.tcx.closure_captures(ld);
                    if let Some(c) = caps.get(f.index()) {
                        nm = c.to_symbol().to_string();
                    }
                }
                format!("upvar.{}.{}", f.index(), nm)
            }
            ty::Tuple(_) => format!("tuple.{}", f.index()),
            _ => format!("?.{}", f.index()),
        }
    }

    fn place(&self, body: &Body<'tcx>, p: &Place<'tcx>, owner: DefId) -> String {
        let mut projs: Vec<String> = Vec::new();
        let mut pty = mir::PlaceTy::from_ty(body.local_decls[p.local].ty);
        for elem in p.projection.iter() {
            let s = match elem {
                PlaceElem::Deref => "deref".to_string(),
                PlaceElem::Field(f, _) => format!("f:{}", self.field_name(pty, f, owner)),
                PlaceElem::Index(l) => format!("index:{}", l.index()),
                PlaceElem::ConstantIndex { offset, from_end, .. } => format!("cindex:{}{}", if from_end { "-" } else { "" }, offset),
                PlaceElem::Subslice { .. } => "subslice".to_string(),
                PlaceElem::Downcast(name, vidx) => format!("as:{}", name.map(|n| n.to_string()).unwrap_or_else(|| format!("{}", vidx.index()))),
                PlaceElem::OpaqueCast(_) => "opaque".to_string(),
                PlaceElem::UnwrapUnsafeBinder(_) => "unwrap_binder".to_string(),
            };
            projs.push(jstr(&s));
            pty = pty.projection_ty(self.tcx, elem);
        }
        format!("{{\"l\":{},\"p\":{}}}", p.local.index(), jlist(&projs))
    }

    fn const_val(&self, c: &mir::ConstOperand<'tcx>, owner: DefId) -> String {
        let tcx = self.tcx;
        let cst = c.const_;
        let ty = cst.ty();
        let mut out = format!("{{\"ty\":{}", jstr(&self.ty_s(ty)));
        // fn items / closures as ZST constants
        match ty.kind() {
            ty::FnDef(did, args) => {
                let _ = write!(out, ",\"fn\":{}", jstr(&self.path(*did)));
                let _ = write!(out, ",\"fn_args\":{}", self.generic_args(args));
                out.push('}');
                return out;
            }
            _ => {}
        }
        if let Const::Unevaluated(uv, _) = cst {
            let _ = write!(out, ",\"named\":{}", jstr(&self.path(uv.def)));
            if let Some(p) = uv.promoted {
                let _ = write!(out, ",\"promoted\":{}", p.index());
            }
        }
        let env = TypingEnv::post_analysis(tcx, owner);
        let val: Option<ConstValue> = match cst {
            Const::Val(v, _) => Some(v),
            Const::Unevaluated(uv, _) => {
                if uv.promoted.is_some() || uv.args.iter().any(|a| a.has_param()) {
                    None
                } else {
                    cst.eval(tcx, env, c.span).ok()
                }
            }
            Const::Ty(_, tc) => {
                let _ = write!(out, ",\"tyconst\":{}", jstr(&format!("{:?}", tc)));
                None
            }
        };
        if let Some(v) = val {
            match v {
                ConstValue::Scalar(mir::interpret::Scalar::Int(i)) => {
                    if ty.is_bool() {
                        let _ = write!(out, ",\"bool\":{}", if i.to_bits_unchecked() != 0 { "true" } else { "false" });
                    } else if ty.is_integral() || ty.is_char() {
                        let bits = i.to_bits_unchecked();
                        let size = i.size();
                        let n: i128 = if ty.is_signed() { size.sign_extend(bits) as i128 } else { bits as i128 };
                        let _ = write!(out, ",\"int\":{}", n);
                    } else if let ty::Adt(adt, _) = ty.kind() {
                        // field-less enum stored as scalar
                        if adt.is_enum() {
                            let bits = i.to_bits_unchecked();
                            for (vi, d) in adt.discriminants(tcx) {
                                if d.val == bits {
                                    let _ = write!(out, ",\"variant\":{}", jstr(&adt.variant(vi).name.to_string()));
                                }
                            }
                        } else {
                            let _ = write!(out, ",\"scalar\":{}", jstr(&format!("{:?}", i)));
                        }
                    } else {
                        let _ = write!(out, ",\"scalar\":{}", jstr(&format!("{:?}", i)));
                    }
                }
                ConstValue::ZeroSized => {
                    out.push_str(",\"zst\":true");
                }
                ConstValue::Slice { .. } => {
                    if let Some(bytes) = v.try_get_slice_bytes_for_diagnostics(tcx) {
                        let s = String::from_utf8_lossy(bytes);
                        let _ = write!(out, ",\"str\":{}", jstr(&s));
                    }
                }
                ConstValue::Indirect { .. } => {
                    // &[u8; N] byte strings, &&str etc: best effort via pretty printer
                    let s = with_no_trimmed_paths!(format!("{}", cst));
                    let _ = write!(out, ",\"pretty\":{}", jstr(&s));
                }
                _ => {
                    let s = with_no_trimmed_paths!(format!("{}", cst));
                    let _ = write!(out, ",\"pretty\":{}", jstr(&s));
                }
            }
        } else {
            let s = with_no_trimmed_paths!(format!("{}", cst));
            let _ = write!(out, ",\"pretty\":{}", jstr(&s));
        }
        out.push('}');
        out
    }

    fn generic_args(&self, args: ty::GenericArgsRef<'tcx>) -> String {
        let mut v = Vec::new();
        for a in args.iter() {
            if let Some(t) = a.as_type() {
                let mut o = format!("{{\"ty\":{}", jstr(&self.ty_s(t)));
                match t.kind() {
                    ty::FnDef(d, _) => {
                        let _ = write!(o, ",\"fn\":{}", jstr(&self.path(*d)));
                    }
                    ty::Closure(d, _) | ty::Coroutine(d, _) | ty::CoroutineClosure(d, _) => {
                        let _ = write!(o, ",\"closure\":{}", jstr(&self.path(*d)));
                    }
                    _ => {}
                }
                o.push('}');
                v.push(o);
            }
        }
        jlist(&v)
    }

    fn operand(&self, body: &Body<'tcx>, op: &Operand<'tcx>, owner: DefId) -> String {
        match op {
            Operand::Copy(p) => format!("{{\"copy\":{}}}", self.place(body, p, owner)),
            Operand::Move(p) => format!("{{\"move\":{}}}", self.place(body, p, owner)),
            Operand::Constant(c) => format!("{{\"const\":{}}}", self.const_val(c, owner)),
            #[allow(unreachable_patterns)]
            _ => format!("{{\"other\":{}}}", jstr(&format!("{:?}", op))),
        }
    }

    fn rvalue(&self, body: &Body<'tcx>, rv: &Rvalue<'tcx>, owner: DefId) -> String {
        match rv {
            Rvalue::Use(op, ..) => format!("{{\"k\":\"use\",\"op\":{}}}", self.operand(body, op, owner)),
            Rvalue::Repeat(op, _) => format!("{{\"k\":\"repeat\",\"op\":{}}}", self.operand(body, op, owner)),
            Rvalue::Ref(_, bk, p) => {
                let m = matches!(bk, BorrowKind::Mut { .. });
                format!("{{\"k\":\"ref\",\"mut\":{},\"place\":{}}}", m, self.place(body, p, owner))
            }
            Rvalue::RawPtr(_, p) => format!("{{\"k\":\"rawptr\",\"place\":{}}}", self.place(body, p, owner)),
            Rvalue::Cast(kind, op, t) => {
                let k = match kind {
                    CastKind::Transmute => "transmute".to_string(),
                    other => format!("{:?}", other),
                };
                // closures / fn items / coroutines inside the source type (who is behind a `dyn Fn` / fn pointer)
                let mut src_fns: Vec<String> = Vec::new();
                for ga in op.ty(body, self.tcx).walk() {
                    if let Some(t2) = ga.as_type() {
                        match t2.kind() {
                            ty::FnDef(d, _) | ty::Closure(d, _) | ty::Coroutine(d, _) | ty::CoroutineClosure(d, _) => src_fns.push(jstr(&self.path(*d))),
                            _ => {}
                        }
                    }
                }
                format!(
                    "{{\"k\":\"cast\",\"cast\":{},\"op\":{},\"ty\":{},\"src_ty\":{},\"src_fns\":{}}}",
                    jstr(&k),
                    self.operand(body, op, owner),
                    jstr(&self.ty_s(*t)),
                    jstr(&self.ty_s(op.ty(body, self.tcx))),
                    jlist(&src_fns)
                )
            }
            Rvalue::BinaryOp(op, ab) => {
                let (a, b) = &**ab;
                format!(
                    "{{\"k\":\"binop\",\"op\":{},\"a\":{},\"b\":{}}}",
                    jstr(&binop_s(*op)),
                    self.operand(body, a, owner),
                    self.operand(body, b, owner)
                )
            }
            Rvalue::UnaryOp(op, a) => {
                let o = match op {
                    UnOp::Not => "Not".to_string(),
                    UnOp::Neg => "Neg".to_string(),
                    other => format!("{:?}", other),
                };
                format!("{{\"k\":\"unop\",\"op\":{},\"a\":{}}}", jstr(&o), self.operand(body, a, owner))
            }
            Rvalue::Discriminant(p) => format!("{{\"k\":\"discr\",\"place\":{}}}", self.place(body, p, owner)),
            Rvalue::Aggregate(kind, ops) => {
                let mut o = String::from("{\"k\":\"agg\"");
                match &**kind {
                    AggregateKind::Array(_) => o.push_str(",\"agg\":\"array\""),
                    AggregateKind::Tuple => o.push_str(",\"agg\":\"tuple\""),
                    AggregateKind::Adt(did, vidx, _, _, _) => {
                        let adt = self.tcx.adt_def(*did);
                        let v = adt.variant(*vidx);
                        let _ = write!(o, ",\"agg\":\"adt\",\"adt\":{},\"variant\":{}", jstr(&self.path(*did)), jstr(&v.name.to_string()));
                        let names: Vec<String> = v.fields.iter().map(|f| jstr(&f.name.to_string())).collect();
                        let _ = write!(o, ",\"fields\":{}", jlist(&names));
                    }
                    AggregateKind::Closure(did, _) => {
                        let _ = write!(o, ",\"agg\":\"closure\",\"def\":{}", jstr(&self.path(*did)));
                    }
                    AggregateKind::Coroutine(did, _) => {
                        let _ = write!(o, ",\"agg\":\"coroutine\",\"def\":{}", jstr(&self.path(*did)));
                    }
                    AggregateKind::CoroutineClosure(did, _) => {
                        let _ = write!(o, ",\"agg\":\"coroutine_closure\",\"def\":{}", jstr(&self.path(*did)));
                    }
                    AggregateKind::RawPtr(..) => o.push_str(",\"agg\":\"rawptr\""),
                }
                let v: Vec<String> = ops.iter().map(|x| self.operand(body, x, owner)).collect();
                let _ = write!(o, ",\"ops\":{}}}", jlist(&v));
                o
            }
            Rvalue::CopyForDeref(p) => format!("{{\"k\":\"use\",\"op\":{{\"copy\":{}}}}}", self.place(body, p, owner)),
            Rvalue::ThreadLocalRef(d) => format!("{{\"k\":\"tls\",\"def\":{}}}", jstr(&self.path(*d))),
            Rvalue::WrapUnsafeBinder(op, _) => format!("{{\"k\":\"use\",\"op\":{}}}", self.operand(body, op, owner)),
            #[allow(unreachable_patterns)]
            other => format!("{{\"k\":\"other\",\"dbg\":{}}}", jstr(&format!("{:?}", other))),
        }
    }

    fn body(&self, ldid: LocalDefId, body: &Body<'tcx>, stage: &str) -> String {
        let tcx = self.tcx;
        let did = ldid.to_def_id();
        let kind = tcx.def_kind(did);
        let mut o = String::from("{");
        let _ = write!(o, "\"name\":{}", jstr(&self.path(did)));
        let _ = write!(o, ",\"defpath\":{}", jstr(&tcx.def_path(did).to_string_no_crate_verbose()));
        let _ = write!(o, ",\"kind\":{}", jstr(&format!("{:?}", kind)));
        let _ = write!(o, ",\"stage\":{}", jstr(stage));
        let _ = write!(o, ",\"span\":{}", jstr(&self.span_s(body.span)));
        let _ = write!(o, ",\"from_expansion\":{}", body.span.from_expansion());
        if let Some(p) = tcx.opt_parent(did) {
            let _ = write!(o, ",\"parent\":{}", jstr(&self.path(p)));
        }
        if matches!(kind, DefKind::Fn | DefKind::AssocFn) {
            let vis = tcx.visibility(did);
            let _ = write!(o, ",\"vis\":{}", jstr(&vis_s(tcx, vis)));
        }
        if kind == DefKind::AssocFn {
            // self type of inherent / trait impl
            if let Some(impl_did) = tcx.opt_parent(did) {
                if matches!(tcx.def_kind(impl_did), DefKind::Impl { .. }) {
                    let st = tcx.type_of(impl_did).instantiate_identity().skip_norm_wip();
                    let _ = write!(o, ",\"impl_self\":{}", jstr(&self.ty_s(st)));
                    if let Some(tr) = tcx.impl_opt_trait_ref(impl_did) {
                        let tr = tr.instantiate_identity().skip_norm_wip();
                        let _ = write!(o, ",\"impl_trait\":{}", jstr(&self.path(tr.def_id)));
                    }
                }
            }
        }
        if body.coroutine.is_some() {
            o.push_str(",\"coroutine\":true");
        }
        if matches!(kind, DefKind::Fn | DefKind::AssocFn) {
            // names of the type parameters, in the order in which a call site lists its type arguments (`gargs`)
            let g = tcx.generics_of(did);
            let mut tp = Vec::new();
            for i in 0..g.count() {
                let p = g.param_at(i, tcx);
                if matches!(p.kind, ty::GenericParamDefKind::Type { .. }) {
                    tp.push(jstr(&p.name.to_string()));
                }
            }
            let _ = write!(o, ",\"tparams\":{}", jlist(&tp));
        }
        let _ = write!(o, ",\"arg_count\":{}", body.arg_count);
        // locals
        let mut locals = Vec::new();
        for (_l, d) in body.local_decls.iter_enumerated() {
            locals.push(jstr(&self.ty_s(d.ty)));
        }
        let _ = write!(o, ",\"locals\":{}", jlist(&locals));
        // debug names
        let mut dbg = Vec::new();
        for v in body.var_debug_info.iter() {
            if let mir::VarDebugInfoContents::Place(p) = &v.value {
                dbg.push(format!("[{},{}]", jstr(&v.name.to_string()), self.place(body, p, did)));
            }
        }
        let _ = write!(o, ",\"vars\":{}", jlist(&dbg));
        // blocks
        let mut blocks = Vec::new();
        for (_bb, data) in body.basic_blocks.iter_enumerated() {
            let mut b = String::from("{");
            if data.is_cleanup {
                b.push_str("\"cleanup\":true,");
            }
            let mut stmts = Vec::new();
            for st in data.statements.iter() {
                match &st.kind {
                    StatementKind::Assign(bx) => {
                        let (pl, rv) = &**bx;
                        let mut s = format!(
                            "{{\"s\":\"assign\",\"place\":{},\"rv\":{},\"line\":{}",
                            self.place(body, pl, did),
                            self.rvalue(body, rv, did),
                            jstr(&self.span_s(st.source_info.span))
                        );
                        if let Some(m) = self.expn_s(st.source_info.span) {
                            let _ = write!(s, ",\"macro\":{}", jstr(&m));
                        }
                        s.push('}');
                        stmts.push(s);
                    }
                    StatementKind::SetDiscriminant { place, variant_index } => {
                        stmts.push(format!(
                            "{{\"s\":\"setdiscr\",\"place\":{},\"variant\":{}}}",
                            self.place(body, place, did),
                            variant_index.index()
                        ));
                    }
                    _ => {}
                }
            }
            let _ = write!(b, "\"stmts\":{}", jlist(&stmts));
            let term = data.terminator();
            let mut t = String::from("{");
            let _ = write!(t, "\"line\":{}", jstr(&self.span_s(term.source_info.span)));
            if let Some(m) = self.expn_s(term.source_info.span) {
                let _ = write!(t, ",\"macro\":{}", jstr(&m));
            }
            match &term.kind {
                TerminatorKind::Goto { target } => {
                    let _ = write!(t, ",\"t\":\"goto\",\"target\":{}", target.index());
                }
                TerminatorKind::SwitchInt { discr, targets } => {
                    let _ = write!(t, ",\"t\":\"switch\",\"discr\":{}", self.operand(body, discr, did));
                    let mut arms = Vec::new();
                    for (v, tgt) in targets.iter() {
                        arms.push(format!("[{},{}]", v, tgt.index()));
                    }
                    let _ = write!(t, ",\"arms\":{},\"otherwise\":{}", jlist(&arms), targets.otherwise().index());
                    // type of discriminant (bool / integer / enum discr)
                    let dty = discr.ty(body, tcx);
                    let _ = write!(t, ",\"discr_ty\":{}", jstr(&self.ty_s(dty)));
                    // switch on `discriminant(place)` computed in this block: list the enum's variants
                    if let Some(dp) = discr.place() {
                        for st in data.statements.iter().rev() {
                            if let StatementKind::Assign(bx) = &st.kind {
                                let (pl, rv) = &**bx;
                                if *pl == dp {
                                    if let Rvalue::Discriminant(ep) = rv {
                                        let ety = ep.ty(body, tcx).ty;
                                        if let ty::Adt(adt, _) = ety.kind() {
                                            if adt.is_enum() {
                                                let vals: Vec<String> = adt.discriminants(tcx).map(|(vi, d)| format!("[{},{}]", d.val, jstr(&adt.variant(vi).name.to_string()))).collect();
                                                let _ = write!(t, ",\"enum\":{},\"enum_variants\":{}", jstr(&self.path(adt.did())), jlist(&vals));
                                            }
                                        }
                                    }
                                    break;
                                }
                            }
                        }
                    }
                }
                TerminatorKind::Return => t.push_str(",\"t\":\"return\""),
                TerminatorKind::Unreachable => t.push_str(",\"t\":\"unreachable\""),
                TerminatorKind::UnwindResume => t.push_str(",\"t\":\"resume\""),
                TerminatorKind::UnwindTerminate(_) => t.push_str(",\"t\":\"terminate\""),
                TerminatorKind::Drop { place, target, unwind, .. } => {
                    let pty = place.ty(body, tcx).ty;
                    let _ = write!(
                        t,
                        ",\"t\":\"drop\",\"place\":{},\"ty\":{},\"target\":{}",
                        self.place(body, place, did),
                        jstr(&self.ty_s(pty)),
                        target.index()
                    );
                    if let mir::UnwindAction::Cleanup(u) = unwind {
                        let _ = write!(t, ",\"unwind\":{}", u.index());
                    }
                }
                TerminatorKind::Call { func, args, destination, target, unwind, .. } => {
                    t.push_str(",\"t\":\"call\"");
                    let fty = func.ty(body, tcx);
                    match fty.kind() {
                        ty::FnDef(d, gargs) => {
                            let _ = write!(t, ",\"callee\":{}", jstr(&self.path(*d)));
                            let _ = write!(t, ",\"gargs\":{}", self.generic_args(gargs));
                            let env = TypingEnv::post_analysis(tcx, did);
                            let gargs_e = tcx.erase_and_anonymize_regions(*gargs);
                            let resolved = std::panic::catch_unwind(std::panic::AssertUnwindSafe(|| {
                                ty::Instance::try_resolve(tcx, env, *d, gargs_e)
                            }));
                            if let Ok(Ok(Some(inst))) = resolved {
                                let _ = write!(t, ",\"resolved\":{}", jstr(&self.path(inst.def_id())));
                                let k = match inst.def {
                                    ty::InstanceKind::Item(_) => "item",
                                    ty::InstanceKind::Virtual(..) => "virtual",
                                    ty::InstanceKind::ClosureOnceShim { .. } => "closure_once_shim",
                                    ty::InstanceKind::FnPtrShim(..) => "fnptr_shim",
                                    ty::InstanceKind::Intrinsic(_) => "intrinsic",
                                    _ => "shim",
                                };
                                let _ = write!(t, ",\"rkind\":{}", jstr(k));
                            }
                            // for trait methods, record the Self type (first generic arg)
                            if let Some(tr) = tcx.trait_of_assoc(*d) {
                                let _ = write!(t, ",\"trait\":{}", jstr(&self.path(tr)));
                            }
                        }
                        _ => {
                            let _ = write!(t, ",\"indirect\":{},\"func\":{}", jstr(&self.ty_s(fty)), self.operand(body, func, did));
                        }
                    }
                    let av: Vec<String> = args.iter().map(|a| self.operand(body, &a.node, did)).collect();
                    let _ = write!(t, ",\"args\":{}", jlist(&av));
                    let aty: Vec<String> = args.iter().map(|a| jstr(&self.ty_s(a.node.ty(body, tcx)))).collect();
                    let _ = write!(t, ",\"arg_tys\":{}", jlist(&aty));
                    let _ = write!(t, ",\"dest\":{}", self.place(body, destination, did));
                    if let Some(tg) = target {
                        let _ = write!(t, ",\"target\":{}", tg.index());
                    }
                    if let mir::UnwindAction::Cleanup(u) = unwind {
                        let _ = write!(t, ",\"unwind\":{}", u.index());
                    }
                }
                TerminatorKind::TailCall { .. } => t.push_str(",\"t\":\"tailcall\""),
                TerminatorKind::Assert { cond, expected, target, msg, unwind } => {
                    let _ = write!(
                        t,
                        ",\"t\":\"assert\",\"cond\":{},\"expected\":{},\"target\":{},\"msg\":{}",
                        self.operand(body, cond, did),
                        expected,
                        target.index(),
                        jstr(&format!("{:?}", msg))
                    );
                    if let mir::UnwindAction::Cleanup(u) = unwind {
                        let _ = write!(t, ",\"unwind\":{}", u.index());
                    }
                }
                TerminatorKind::Yield { value, resume, resume_arg, drop } => {
                    let _ = write!(
                        t,
                        ",\"t\":\"yield\",\"value\":{},\"resume\":{},\"resume_arg\":{}",
                        self.operand(body, value, did),
                        resume.index(),
                        self.place(body, resume_arg, did)
                    );
                    if let Some(d) = drop {
                        let _ = write!(t, ",\"drop\":{}", d.index());
                    }
                }
                TerminatorKind::CoroutineDrop => t.push_str(",\"t\":\"coroutine_drop\""),
                TerminatorKind::FalseEdge { real_target, imaginary_target } => {
                    let _ = write!(t, ",\"t\":\"goto\",\"target\":{},\"false_edge\":{}", real_target.index(), imaginary_target.index());
                }
                TerminatorKind::FalseUnwind { real_target, .. } => {
                    let _ = write!(t, ",\"t\":\"goto\",\"target\":{},\"false_unwind\":true", real_target.index());
                }
                TerminatorKind::InlineAsm { .. } => t.push_str(",\"t\":\"asm\""),
            }
            t.push('}');
            let _ = write!(b, ",\"term\":{}}}", t);
            blocks.push(b);
        }
        let _ = write!(o, ",\"blocks\":{}}}", jlist(&blocks));
        o
    }

    fn adts(&self) -> String {
        let tcx = self.tcx;
        let mut out = Vec::new();
        for id in tcx.hir_crate_items(()).definitions() {
            let did = id.to_def_id();
            let kind = tcx.def_kind(did);
            if !matches!(kind, DefKind::Struct | DefKind::Enum | DefKind::Union) {
                continue;
            }
            let adt = tcx.adt_def(did);
            let mut o = format!("{{\"name\":{},\"kind\":{}", jstr(&self.path(did)), jstr(&format!("{:?}", kind)));
            let _ = write!(o, ",\"vis\":{}", jstr(&vis_s(tcx, tcx.visibility(did))));
            let _ = write!(o, ",\"line\":{}", jstr(&self.span_s(tcx.def_span(did))));
            let mut vs = Vec::new();
            let discrs: Vec<u128> = if adt.is_enum() { adt.discriminants(tcx).map(|(_, d)| d.val).collect() } else { Vec::new() };
            for (vn, v) in adt.variants().iter().enumerate() {
                let mut fs = Vec::new();
                for f in v.fields.iter() {
                    let fty = tcx.type_of(f.did).instantiate_identity().skip_norm_wip();
                    fs.push(format!(
                        "{{\"name\":{},\"vis\":{},\"ty\":{}}}",
                        jstr(&f.name.to_string()),
                        jstr(&vis_s(tcx, f.vis)),
                        jstr(&self.ty_s(fty))
                    ));
                }
                let dv = discrs.get(vn).map(|d| format!("{}", d)).unwrap_or_else(|| "null".to_string());
                vs.push(format!("{{\"name\":{},\"discr\":{},\"fields\":{}}}", jstr(&v.name.to_string()), dv, jlist(&fs)));
            }
            let _ = write!(o, ",\"variants\":{}", jlist(&vs));
            // traits implemented (local impls only), by trait path
            let mut tr = Vec::new();
            let self_ty = tcx.type_of(did).instantiate_identity().skip_norm_wip();
            for (trait_did, impls) in tcx.all_local_trait_impls(()).iter() {
                for imp in impls.iter() {
                    let ity = tcx.type_of(imp.to_def_id()).instantiate_identity().skip_norm_wip();
                    let same = match (ity.kind(), self_ty.kind()) {
                        (ty::Adt(a, _), ty::Adt(b, _)) => a.did() == b.did(),
                        _ => false,
                    };
                    if same {
                        let from_exp = tcx.def_span(imp.to_def_id()).from_expansion();
                        tr.push(format!("{{\"trait\":{},\"derived\":{}}}", jstr(&self.path(*trait_did)), from_exp));
                    }
                }
            }
            tr.sort();
            let _ = write!(o, ",\"impls\":{}}}", jlist(&tr));
            out.push(o);
        }
        jlist(&out)
    }

    fn fns(&self) -> String {
        // every fn-like item with visibility (including those without MIR such as trait decls)
        let tcx = self.tcx;
        let mut out = Vec::new();
        for id in tcx.hir_crate_items(()).definitions() {
            let did = id.to_def_id();
            let kind = tcx.def_kind(did);
            if !matches!(kind, DefKind::Fn | DefKind::AssocFn) {
                continue;
            }
            let sig = tcx.fn_sig(did).instantiate_identity().skip_norm_wip().skip_binder();
            let safety = format!("{:?}", sig.safety());
            out.push(format!(
                "{{\"name\":{},\"vis\":{},\"safety\":{},\"line\":{}}}",
                jstr(&self.path(did)),
                jstr(&vis_s(tcx, tcx.visibility(did))),
                jstr(&safety),
                jstr(&self.span_s(tcx.def_span(did)))
            ));
        }
        jlist(&out)
    }
}

fn vis_s(tcx: TyCtxt<'_>, v: ty::Visibility<DefId>) -> String {
    match v {
        ty::Visibility::Public => "pub".to_string(),
        ty::Visibility::Restricted(d) => {
            if d == LOCAL_CRATE.as_def_id() {
                "crate".to_string()
            } else {
                format!("in:{}", with_no_trimmed_paths!(tcx.def_path_str(d)))
            }
        }
    }
}

fn binop_s(op: BinOp) -> String {
    format!("{:?}", op)
}

struct Cb {
    out: Option<(String, String)>,
}

impl rustc_driver::Callbacks for Cb {
    fn config(&mut self, config: &mut rustc_interface::interface::Config) {
        config.override_queries = Some(|_sess, providers: &mut Providers| {
            let _ = ORIG.set(providers.queries.mir_built);
            providers.queries.mir_built = my_mir_built;
        });
    }

    fn after_analysis<'tcx>(&mut self, _c: &rustc_interface::interface::Compiler, tcx: TyCtxt<'tcx>) -> Compilation {
        let krate = tcx.crate_name(LOCAL_CRATE).to_string();
        let ctype = format!("{:?}", tcx.crate_types().first());
        let ex = Ex { tcx };
        let mut bodies = Vec::new();
        let mut seen = std::collections::HashSet::new();
        STASH.with(|s| {
            let s = s.borrow();
            for (def, body) in s.iter() {
                let body: &Body<'tcx> = unsafe { std::mem::transmute(body) };
                let kind = tcx.def_kind(def.to_def_id());
                if !matches!(kind, DefKind::Fn | DefKind::AssocFn | DefKind::Closure | DefKind::SyntheticCoroutineBody) {
                    continue;
                }
                seen.insert(*def);
                bodies.push(ex.body(*def, body, "built"));
            }
        });
        // anything not stashed: fall back to optimized MIR (lowered) and say so
        let mut missing = Vec::new();
        for ldid in tcx.mir_keys(()) {
            let kind = tcx.def_kind(ldid.to_def_id());
            if !matches!(kind, DefKind::Fn | DefKind::AssocFn | DefKind::Closure) {
                continue;
            }
            if !seen.contains(ldid) {
                missing.push(jstr(&ex.path(ldid.to_def_id())));
            }
        }
        let nonce = std::env::var("REDO_FACTS_NONCE").unwrap_or_default();
        let feats: Vec<String> = tcx.sess.opts.cg.target_feature.split(',').filter(|s| !s.is_empty()).map(|s| jstr(s)).collect();
        let _ = feats;
        let cfgs: Vec<String> = {
            let mut v: Vec<String> = tcx
                .sess
                .config
                .iter()
                .filter_map(|(k, val)| {
                    if k.as_str() == "feature" {
                        val.map(|v| jstr(&format!("feature={}", v)))
                    } else {
                        None
                    }
                })
                .collect();
            v.sort();
            v
        };
        let is_test = tcx.sess.is_test_crate();
        let json = format!(
            "{{\"crate\":{},\"crate_type\":{},\"nonce\":{},\"test\":{},\"features\":{},\"missing_built\":{},\"adts\":{},\"fns\":{},\"bodies\":{}}}\n",
            jstr(&krate),
            jstr(&ctype),
            jstr(&nonce),
            is_test,
            jlist(&cfgs),
            jlist(&missing),
            ex.adts(),
            ex.fns(),
            jlist(&bodies)
        );
        let ct = if ctype.contains("Executable") { "bin" } else { "lib" };
        self.out = Some((format!("facts.{}.{}{}.{}.json", krate, ct, if is_test { ".test" } else { "" }, std::process::id()), json));
        Compilation::Continue
    }
}

fn main() {
    let mut args: Vec<String> = std::env::args().collect();
    // RUSTC_WORKSPACE_WRAPPER: argv[1] is the real rustc path
    args.remove(1);
    let mut cb = Cb { out: None };
    rustc_driver::run_compiler(&args, &mut cb);
    if let (Some((name, json)), Ok(dir)) = (cb.out, std::env::var("REDO_FACTS_DIR")) {
        let p = std::path::Path::new(&dir).join(name);
        std::fs::write(p, json).expect("write facts");
    }
}
