#!/bin/bash
cd /tmp/tri/fk; rm -rf .redo t *.tmp
export PATH=$1:$PATH RUST_BACKTRACE=0
LINE=$2
echo one > src
redo-ifchange t >/dev/null 2>&1; echo "initial build: exit=$? t=$(cat t)"
sleep 1.1; echo two > src
# kill the building redo right after rename(tmp -> t), before the stamp is committed
gdb -q -batch -ex "set confirm off" -ex "set follow-fork-mode parent" -ex "set detach-on-fork on" -ex "break builder.rs:$LINE" -ex "run" -ex "kill" --args $1/redo-ifchange t >gdb.out 2>&1
echo "killed run: t=$(cat t)"
sleep 1.1
redo-ifchange t 2>&1 | sed 's/@@REDO:[a-z]*:[0-9]*:[0-9.]*@@ //' | tail -3; echo "recovery run: exit=${PIPESTATUS[0]} t=$(cat t)"
sleep 1.1; echo three > src
redo-ifchange t 2>&1 | sed 's/@@REDO:[a-z]*:[0-9]*:[0-9.]*@@ //' | tail -3; echo "after editing src again: exit=${PIPESTATUS[0]} t=$(cat t)   (expected: three)"
