redo-ifchange src
cat src
