echo a
