#!/bin/bash
cd /tmp/tri/fj
export PATH=$1:$PATH RUST_BACKTRACE=0
fails=0; total=0
for r in $(seq 1 $2); do
  rm -rf .redo a
  for k in 1 2 3 4 5 6 7 8; do ( redo-ifchange a >out.$k 2>&1; echo $? > rc.$k ) & done
  wait
  for k in 1 2 3 4 5 6 7 8; do total=$((total+1)); if [ "$(cat rc.$k)" != "0" ]; then fails=$((fails+1)); grep -h -m1 "rror\|no such\|locked\|panick\|schema\|expected" out.$k | sed 's/@@REDO:error:[0-9]*:[0-9.]*@@/redo:/'; fi; done
done
echo "$1: failures=$fails/$total"
