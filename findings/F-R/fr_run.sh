#!/bin/bash
# F-R: nested checksummed targets over-build. top (plain) -> mid (redo-stamp, constant output) -> leaf (redo-stamp) -> src.
# After editing src, leaf's checksum changes, mid is rebuilt with an UNCHANGED checksum, and yet top.do runs again.
# usage: fr_run.sh <dir with redo binaries>
BIN=$(cd "$1" && pwd); export PATH=$BIN:$PATH
for v in $(env | sed -n 's/^\(REDO[A-Z_]*\)=.*/\1/p') MAKEFLAGS; do unset $v; done
W=$(mktemp -d); trap 'rm -rf $W' EXIT; mkdir $W/p; cd $W/p
printf 'redo-ifchange mid\necho "top run" >> ../trace\ncat mid\n' > top.do
printf 'redo-ifchange leaf\necho "mid run" >> ../trace\necho constant > $3\nredo-stamp < $3\n' > mid.do
printf 'redo-ifchange src\necho "leaf run" >> ../trace\ncat src > $3\nredo-stamp < $3\n' > leaf.do
echo one > src; : > ../trace
redo-ifchange top >/dev/null 2>&1; : > ../trace
sleep 1; echo two > src
redo-ifchange top >/dev/null 2>&1; echo "exit=$?  ran: $(tr '\n' ',' < ../trace)"
grep -q "top run" ../trace && echo "top.do ran although mid's checksum did not change (C03 clause 1 violated at depth 2)"
