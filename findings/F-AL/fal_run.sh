#!/bin/bash
# F-AL: a .do script whose first line is not valid UTF-8 (a Latin-1 comment: `# g\351n\350re ...`). To honour a `#!` line the builder
# read the first line of the script with BufRead::read_line, which fails on such bytes: the target could not be built at all
# ("stream did not contain valid UTF-8"), although /bin/sh runs the script without complaint.
# usage: fal_run.sh <dir with redo binaries>
# exit 0: the target is built; exit 1: redo refuses the script.
BIN=$(cd "$1" && pwd); export PATH=$BIN:$PATH
for v in $(env | sed -n 's/^\(REDO[A-Z_]*\)=.*/\1/p') MAKEFLAGS; do unset $v; done
W=$(mktemp -d); trap 'rm -rf $W' EXIT; cd $W
printf '# g\351n\350re la cible\necho built\n' > t.do
sh -e t.do >/dev/null || exit 2
redo t 2>err.log; rc=$?
echo "redo t: exit=$rc $(grep -a 'UTF-8' err.log | head -1)"
[ $rc -eq 0 ] && [ "$(cat t)" = built ] && exit 0 || exit 1
