sleep 3
echo done
