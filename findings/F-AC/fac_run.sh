#!/bin/bash
# F-AC: a stderr line of a script that resembles a record kills the log viewer: everything the build prints afterwards
# is lost from the live view and from redo-log, while redo itself exits 0.
# usage: fac_run.sh <bindir>; exit 0: the line after the look-alike is shown
BIN=$(cd "$1" && pwd); export PATH=$BIN:$PATH
for v in $(env | sed -n 's/^\(REDO[A-Z_]*\)=.*/\1/p') MAKEFLAGS; do unset $v; done
W=$(mktemp -d); trap 'rm -rf $W' EXIT; cd $W
printf 'echo before >&2\necho "@@REDO:done:1:1.0@@ garbage" >&2\necho after >&2\n' > a.do
out=$(redo a 2>&1); rc=$?
echo "$out" | tail -5; echo "redo exit=$rc"
echo "$out" | grep -q '^after' && exit 0
echo "the script's line 'after' is missing from the live output"; exit 1
