#!/bin/bash
# F-Y: a user's dangling symlink with a matching .do rule is replaced by the build output: the
# 'exists and not generated => leave alone' guard uses Path::exists(), which follows the link.
# usage: fy_run.sh <bindir>; exit 0: the link is still the user's link
BIN=$(cd "$1" && pwd); export PATH=$BIN:$PATH
for v in $(env | sed -n 's/^\(REDO[A-Z_]*\)=.*/\1/p') MAKEFLAGS; do unset $v; done
W=$(mktemp -d); trap 'rm -rf $W' EXIT; cd $W
ln -s /nonexistent/elsewhere bork; echo 'echo built' > bork.do
redo bork; echo "redo exit=$?"
if [ -L bork ] && [ "$(readlink bork)" = /nonexistent/elsewhere ]; then echo kept; exit 0; fi
echo "user's symlink replaced: $(ls -l bork)"; exit 1
