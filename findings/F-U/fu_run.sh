#!/bin/bash
# F-U: the .do script succeeds and writes to stdout, but the copy of stdout into <target>.redo.tmp cannot be
# created (ENOSPC / EMFILE / EDQUOT at that open). redo reports the job as failed (209) - and deletes the
# previous, good target on the way. usage: fu_run.sh <dir with redo binaries>   (needs strace)
# exit 0: previous target still there after the failed build; exit 1: it was deleted.
BIN=$(cd "$1" && pwd); export PATH=$BIN:$PATH
for v in $(env | sed -n 's/^\(REDO[A-Z_]*\)=.*/\1/p') MAKEFLAGS; do unset $v; done
W=$(mktemp -d); trap 'rm -rf $W' EXIT; cd $W
echo 'echo version-$(cat src)' > out.do
echo 1 > src
redo out || exit 2
[ "$(cat out)" = version-1 ] || exit 2
echo 2 > src
# the .do's shell never opens out.redo.tmp itself (it writes to stdout), so the only openat of that path is redo's copy
strace -f -o /dev/null -P $PWD/out.redo.tmp -e trace=openat -e inject=openat:error=ENOSPC redo out
echo "redo exit=$?"
if [ -e out ]; then echo "previous target kept: $(cat out)"; exit 0; else echo "previous target DELETED by a failed build"; exit 1; fi
