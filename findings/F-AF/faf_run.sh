#!/bin/bash
# F-AF: a target that was verified clean earlier in a run and is then rebuilt by an explicit `redo T` in the same run
# (here from x.do: `redo-ifchange P; redo T`). record_new_state takes "T was checked or changed in this run" as proof
# that redo-stamp ran during this build, only refreshes the stamp and does not mark T changed; and P carries the
# check mark of the same run, which is not older than anything that happens later in that run. P is never rebuilt
# again although T has new content: `redo-ifchange P` exits 0 with P stale, in this and in every later run.
# usage: faf_run.sh <dir with redo binaries>
# exit 0: P follows T; exit 1: P stale after a successful redo-ifchange P.
BIN=$(cd "$1" && pwd); export PATH=$BIN:$PATH
for v in $(env | sed -n 's/^\(REDO[A-Z_]*\)=.*/\1/p') MAKEFLAGS; do unset $v; done
W=$(mktemp -d); trap 'rm -rf $W' EXIT; cd $W
cat >T.do <<'X'
redo-ifchange src
echo T >>trace
cat src
cat gen
X
cat >P.do <<'X'
redo-ifchange T
echo P >>trace
cat T
X
cat >x.do <<'X'
redo-ifchange P
echo two >gen
redo T
X
echo s1 >src; echo one >gen; : >trace
redo-ifchange P || exit 2
redo x || exit 2
redo-ifchange P; rc=$?
sleep 1.1
redo-ifchange P; rc2=$?
echo "trace: $(tr '\n' ' ' <trace)"
echo "redo-ifchange P exit=$rc, next run exit=$rc2; T=$(tr '\n' ' ' <T) P=$(tr '\n' ' ' <P)"
if cmp -s T P; then echo "P follows T"; exit 0; else echo "P is stale although redo-ifchange P exited 0"; exit 1; fi
