#!/bin/bash
# F-AI: in a project that has no .redo yet, a listing command typed in a sub-directory (`cd sub && redo-ood`) created
# sub/.redo with an empty database. Commands started at the top keep their state in ./.redo, commands started inside sub
# find sub/.redo first: after `redo sub/x` from the top and an edit of its dependency, `cd sub && redo-ifchange x` takes x
# for a source and does not run x.do. A command that only lists state changed what later builds do.
# (reproduction by a mutation agent, round 7) usage: fai_run.sh <dir with redo binaries>
# exit 0: the listing command left no state directory behind and x.do ran twice; exit 1 otherwise.
BIN=$(cd "$1" && pwd); export PATH=$BIN:$PATH
for v in $(env | sed -n 's/^\(REDO[A-Z_]*\)=.*/\1/p') MAKEFLAGS; do unset $v; done
W=$(mktemp -d); trap 'rm -rf $W' EXIT; cd $W
mkdir sub
cat >sub/x.do <<'X'
redo-ifchange dep
echo run >>x.runs
cat dep
X
echo 1 >sub/dep
(cd sub && redo-ood && redo-targets && redo-sources) || exit 2
bad=0
[ -e sub/.redo ] && { echo "the listing commands created sub/.redo"; bad=1; }
redo sub/x || exit 2
echo 2 >sub/dep
(cd sub && redo-ifchange x)
n=$(wc -l <sub/x.runs)
echo "x.do ran $n time(s); x=$(cat sub/x)"
[ "$n" = 2 ] || { echo "the rebuild from inside sub/ used another database and skipped x.do"; bad=1; }
# and after a build the listings still work
[ "$(redo-targets)" = "sub/x" ] || { echo "redo-targets: $(redo-targets)"; bad=1; }
exit $bad
