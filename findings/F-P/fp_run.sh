#!/bin/bash
cd /tmp/tri/fp; rm -rf .redo a b c shared *.tmp
export PATH=$1:$PATH RUST_BACKTRACE=0
start=$(date +%s)
redo -j2 a b c >out 2>&1; rc=$?
echo "redo -j2 a b c: exit=$rc after $(( $(date +%s) - start )) s"
grep -m3 "panicked\|overflow" out
