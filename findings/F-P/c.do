sleep 90
echo c
