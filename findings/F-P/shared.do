sleep 3
echo shared
