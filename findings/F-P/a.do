redo-ifchange shared
sleep 90
echo a
