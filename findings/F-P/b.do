sleep 0.5
redo-ifchange shared
echo b
