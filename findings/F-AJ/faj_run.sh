#!/bin/bash
# F-AJ: a target named through a *dangling* directory symlink (`link -> store`, store/ not there yet) whose .do creates the
# destination. realdirpath() resolves symbolic links in the part of the directory that exists; a dangling link fails canonicalize()
# with NotFound like a missing directory and is kept literally (record `link/a.out`). Once store/ exists the same spelling resolves
# to `store/a.out`: a second record, which finds the file existing and not generated. The target can never be rebuilt again by any
# spelling ("exists and not marked as generated; not redoing"), redo-ifchange takes it for a source: exit 0, stale for ever.
# (reproduction by a mutation agent, round 7) usage: faj_run.sh <dir with redo binaries>
# exit 0: the second `redo link/a.out` runs the script again; exit 1: it is refused / two records.
BIN=$(cd "$1" && pwd); export PATH=$BIN:$PATH
for v in $(env | sed -n 's/^\(REDO[A-Z_]*\)=.*/\1/p') MAKEFLAGS; do unset $v; done
W=$(mktemp -d); trap 'rm -rf $W' EXIT; cd $W
cat >default.out.do <<'X'
mkdir -p store
echo run $1 >>trace
echo hi >$3
X
ln -s store link
redo link/a.out || exit 2
redo link/a.out 2>err.log; rc=$?
n=$(wc -l <trace)
echo "second redo exit=$rc, script ran $n time(s)"; grep -i "not marked as generated" err.log
python3 -c "import sqlite3;[print(r) for r in sqlite3.connect('.redo/db.sqlite3').execute(\"select name,is_generated from Files where name like '%a.out'\")]"
[ "$n" = 2 ] && exit 0 || exit 1
