#!/bin/bash
# F-V: a target below a directory that does not exist yet, named through a symlinked directory: realdirpath()
# falls back to purely lexical cleaning when canonicalize() says NotFound, so link/new/x is recorded under that
# spelling; once the .do has created the directory the same spelling resolves to real/new/x - a second record,
# which finds the file existing and "not generated": the target silently turns into a source and is never rebuilt.
# usage: fv_run.sh <dir with redo binaries>; exit 0: one record, rebuilt after the source changed; exit 1: stale
BIN=$(cd "$1" && pwd); export PATH=$BIN:$PATH
for v in $(env | sed -n 's/^\(REDO[A-Z_]*\)=.*/\1/p') MAKEFLAGS; do unset $v; done
W=$(mktemp -d); trap 'rm -rf $W' EXIT; cd $W
mkdir real; ln -s real link
cat > real/default.out.do <<'D'
mkdir -p "$(dirname "$1")"
redo-ifchange "$PWD/src"
cat "$PWD/src"
D
echo 1 > real/src
redo link/new/x.out || exit 2
[ "$(cat real/new/x.out)" = 1 ] || exit 2
echo 2 > real/src
redo-ifchange link/new/x.out; echo "redo-ifchange exit=$?"
echo "records:"; redo-targets; echo "sources:"; redo-sources | grep x.out
[ "$(cat real/new/x.out)" = 2 ] && { echo "rebuilt"; exit 0; }
echo "STALE: link/new/x.out still holds $(cat real/new/x.out)"; exit 1
