#!/bin/bash
# F-AH: a symbolic link to a directory that the user made, with a default.do that matches its name. The leave-alone guard
# of the builder excepts directories (`!t.join(".").is_dir()`: targets may be directories, t/250-makedir) but asked the question
# through the link: the user's link counted as a directory, the guard did not apply, default.do ran and its output was
# renamed over the link. usage: fah_run.sh <dir with redo binaries>
# exit 0: the user's link is still there; exit 1: redo replaced it.
BIN=$(cd "$1" && pwd); export PATH=$BIN:$PATH
for v in $(env | sed -n 's/^\(REDO[A-Z_]*\)=.*/\1/p') MAKEFLAGS; do unset $v; done
W=$(mktemp -d); trap 'rm -rf $W' EXIT; cd $W
mkdir realdir; echo precious > realdir/file
ln -s realdir lnk
echo 'echo generated' > default.do
redo lnk; echo "redo lnk: exit=$?"
if [ -L lnk ] && [ "$(readlink lnk)" = realdir ]; then echo "the user's link is untouched"; exit 0
else echo "the user's link was replaced: $(ls -ld lnk)"; exit 1; fi
