echo a
