#!/bin/bash
cd /tmp/tri/fh; rm -rf .redo t* w*
export PATH=$1:$PATH RUST_BACKTRACE=0
for i in $(seq 1 300); do echo t$i; done | xargs redo >/dev/null 2>&1
rm -f t*        # every target vanished: redo-ood takes the "forget" branch for each
for w in 1 2 3 4; do ( for i in $(seq 1 120); do redo w$w.$((i%5)) >/dev/null 2>&1; done ) & done
fails=0; total=0
for i in $(seq 1 $2); do
  out=$(redo-ood 2>&1); rc=$?; total=$((total+1))
  if [ $rc -ne 0 ]; then fails=$((fails+1)); echo "$out" | grep -m1 "locked\|rror"; fi
done
wait
echo "$1: redo-ood failures=$fails/$total"
