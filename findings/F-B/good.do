echo good
