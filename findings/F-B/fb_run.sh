#!/bin/bash
cd /tmp/tri/fb; rm -rf .redo all bad good *.tmp
export PATH=$1:$PATH RUST_BACKTRACE=0
redo -k all >/tmp/tri/fb/out 2>&1; echo "redo -k all: exit=$?"
[ -e good ] && echo "good was built (keep-going honoured)" || echo "good was NOT built although it does not depend on the failed target"
