redo-ifchange bad 2>/dev/null || true
redo-ifchange bad good
