exit 3
