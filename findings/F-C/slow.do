echo start >> slow.runs
sleep 2
echo end >> slow.runs
echo content
