#!/bin/bash
cd /tmp/tri/fc; rm -rf .redo top slow slow.runs *.tmp
export PATH=$1:$PATH RUST_BACKTRACE=0
( redo -j2 top >/tmp/tri/fc/out 2>&1; echo "redo -j2 top: exit=$?" ) &
sleep 0.6
redo-ifchange slow >/tmp/tri/fc/out2 2>&1; echo "concurrent redo-ifchange slow: exit=$?"
wait
sleep 2.2
echo "slow.runs: $(tr '\n' ' ' < slow.runs)"
ls *.tmp 2>/dev/null
