redo slow top
