#!/bin/bash
# F-AD: a .do script makes a directory of its $3 (t/250-makedir builds directories that way) and then fails.
# Before the fix, removing the temporary output with unlink(2) gave EISDIR: redo panicked (exit 101), the failure
# was not recorded, and <target>.redo.tmp stayed behind; after a *kill* of such a build the stale directory made
# the clean-up before every later build of the target fail with EISDIR until removed by hand.
# usage: fad_run.sh <dir with redo binaries>
# exit 0: failed build exits 1, no temp output left, the next (repaired) build succeeds; exit 1 otherwise.
BIN=$(cd "$1" && pwd); export PATH=$BIN:$PATH
for v in $(env | sed -n 's/^\(REDO[A-Z_]*\)=.*/\1/p') MAKEFLAGS; do unset $v; done
W=$(mktemp -d); trap 'rm -rf $W' EXIT; cd $W
cat > out.do <<'EOD'
mkdir "$3"
echo part > "$3/file"
[ -e ok ] || exit 7
EOD
redo out 2>err.log; rc=$?
echo "first run exit=$rc"; grep -i "panicked" err.log
bad=0
[ $rc -eq 1 ] || { echo "expected exit 1 (target failed), got $rc"; bad=1; }
[ -e out.redo.tmp ] && { echo "temporary output left behind: out.redo.tmp"; bad=1; }
# second half: a stale temp directory from a killed build must not block later builds
mkdir -p out.redo.tmp; echo junk > out.redo.tmp/junk
touch ok
redo out 2>err2.log; rc=$?
echo "second run exit=$rc"
[ $rc -eq 0 ] && [ -f out/file ] || { echo "later build blocked by the stale temp directory"; cat err2.log | tail -3; bad=1; }
exit $bad
