#!/bin/bash
cd /tmp/tri/fl; rm -rf .redo self *.tmp
export PATH=$1:$PATH RUST_BACKTRACE=0
redo self >out 2>&1; echo "redo self: exit=$?"
grep -m3 "panicked\|cyclic\|cannot depend" out | sed 's/@@REDO:[a-z]*:[0-9]*:[0-9.]*@@ //'
