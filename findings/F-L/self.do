redo-ifchange self
echo x
