#!/bin/bash
# F-AK: a build script writes a byte sequence that is not valid UTF-8 to stderr (a Latin-1 compiler message, binary noise). The log
# follower read the log with BufRead::read_line, which fails on such a line ("stream did not contain valid UTF-8"): redo-log ends,
# every later line of the build is missing from the live view and from `redo-log`, while redo itself exits 0.
# usage: fak_run.sh <dir with redo binaries>
# exit 0: the lines after the odd byte are shown live and in the replay; exit 1: they are lost.
BIN=$(cd "$1" && pwd); export PATH=$BIN:$PATH
for v in $(env | sed -n 's/^\(REDO[A-Z_]*\)=.*/\1/p') MAKEFLAGS; do unset $v; done
W=$(mktemp -d); trap 'rm -rf $W' EXIT; cd $W
cat >t.do <<'X'
echo before >&2
printf 'caf\351 cr\350me\n' >&2
echo after >&2
redo-ifchange u
echo end >&2
X
printf 'echo inner >&2\necho u\n' >u.do
redo t >live.out 2>live.err; rc=$?
redo-log -r t >replay.out 2>replay.err; rc2=$?
echo "redo exit=$rc; redo-log exit=$rc2"
bad=0
for w in before after inner end; do
  grep -aq "$w" live.err || { echo "live view lost: $w"; bad=1; }
  grep -aq "$w" replay.out replay.err || { echo "replay lost: $w"; bad=1; }
done
grep -a "valid UTF-8" live.err replay.err | head -2
exit $bad
