#!/bin/bash
# F-Z: a .do file that is itself a redo target is demoted to a static source the first time it is used
# (start_self: dof.set_static()): its own inputs are forgotten, neither it nor what it builds is ever rebuilt.
# usage: fz_run.sh <bindir>; exit 0: gen follows a change of template; exit 1: stale with exit 0
BIN=$(cd "$1" && pwd); export PATH=$BIN:$PATH
for v in $(env | sed -n 's/^\(REDO[A-Z_]*\)=.*/\1/p') MAKEFLAGS; do unset $v; done
W=$(mktemp -d); trap 'rm -rf $W' EXIT; cd $W
echo 'redo-ifchange template; echo "echo $(cat template)"' > gen.do.do
echo 'redo-ifchange gen.do' > all.do
echo v1 > template
redo gen.do && redo gen || exit 2
[ "$(cat gen)" = v1 ] || exit 2
echo v2 > template
redo-ifchange gen.do gen; echo "redo-ifchange gen.do gen: exit=$?"
echo "targets: $(redo-targets | tr '\n' ' ') sources: $(redo-sources | tr '\n' ' ')"
[ "$(cat gen)" = v2 ] && exit 0
echo "STALE: gen holds $(cat gen), gen.do is: $(cat gen.do)"; exit 1
