#!/bin/bash
# F-T: a failure that is already known does not stop the run.   usage: ft_run.sh <dir with redo binaries>
BIN=$(cd "$1" && pwd); export PATH=$BIN:$PATH
for v in $(env | sed -n 's/^\(REDO[A-Z_]*\)=.*/\1/p') MAKEFLAGS; do unset $v; done
W=$(mktemp -d); trap 'rm -rf $W' EXIT; mkdir $W/p; cd $W/p
printf 'exit 3\n' > a.do; printf 'echo b-ran >> ../trace\n' > b.do; printf 'echo c-ran >> ../trace\n' > c.do
n=0; for i in $(seq 1 20); do rm -rf .redo b c; : > ../trace; redo -j1 a b c >/dev/null 2>&1; [ -s ../trace ] && n=$((n+1)); done
echo "redo -j1 a b c (a fails, no --keep-going): another target was started after the failure in $n/20 runs"
