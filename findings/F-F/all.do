redo-ifchange g1.grp g2.grp g3.grp g4.grp
