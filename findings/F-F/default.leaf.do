echo $1
