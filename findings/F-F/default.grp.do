redo-ifchange $2.a.leaf $2.b.leaf $2.c.leaf $2.d.leaf $2.e.leaf $2.f.leaf
echo $1
