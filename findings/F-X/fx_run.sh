#!/bin/bash
# F-X: chmod on a generated target changes only the mode field of its stamp. The builder does not call that an
# override (detect_override compares mtime and size) and rebuilds the target; File::is_source compares the whole
# stamp, calls it a source, and redo-ood / redo-targets drop it. usage: fx_run.sh <bindir>; exit 0: ood lists it
BIN=$(cd "$1" && pwd); export PATH=$BIN:$PATH
for v in $(env | sed -n 's/^\(REDO[A-Z_]*\)=.*/\1/p') MAKEFLAGS; do unset $v; done
W=$(mktemp -d); trap 'rm -rf $W' EXIT; cd $W
printf 'echo hi\necho ran >> log\n' > t.do; redo t || exit 2; rm -f log
chmod +x t
ood=$(redo-ood); tg=$(redo-targets); src=$(redo-sources)
echo "ood=[$ood] targets=[$tg] sources=[$(echo $src)]"
redo-ifchange t
[ -e log ] && echo "redo-ifchange rebuilt t"
if [ -e log ] && [ -z "$ood" ]; then echo "redo-ood missed a target that the next redo-ifchange rebuilt"; exit 1; fi
exit 0
