#!/bin/bash
# F-W: in a project without .redo yet, the state directory is placed at the common prefix of the *uncleaned*
# target directories and the cwd: 'cd sub && redo ../x/a' puts it in sub/ (and records the key ../x/a), where no
# other spelling of the same target will ever find it. usage: fw_run.sh <bindir>; exit 0: one database at the top
BIN=$(cd "$1" && pwd); export PATH=$BIN:$PATH
for v in $(env | sed -n 's/^\(REDO[A-Z_]*\)=.*/\1/p') MAKEFLAGS; do unset $v; done
W=$(mktemp -d); trap 'rm -rf $W' EXIT; cd $W
mkdir -p p/sub p/x; echo 'redo-ifchange src; cat src' > p/x/a.do; echo 1 > p/x/src
( cd p/sub && redo ../x/a ) || exit 2
echo 2 > p/x/src
( cd p && redo-ifchange x/a ); echo "redo-ifchange from the top: exit=$?"
find p -name .redo
[ "$(cat p/x/a)" = 2 ] && [ "$(find p -name .redo | wc -l)" = 1 ] && exit 0
echo "x/a holds $(cat p/x/a); state directories: $(find p -name .redo | wc -l)"; exit 1
