#!/bin/bash
# F-Q: kill a first invocation while it creates .redo/db.sqlite3, then simply run redo again.
# usage: fq_run.sh <dir with redo binaries>      (needs strace)
# Before the fix (dc.. in /repo): second and third run fail with "no such table: Schema" for ever.
BIN=$(cd "$1" && pwd); export PATH=$BIN:$PATH
for v in $(env | sed -n 's/^\(REDO[A-Z_]*\)=.*/\1/p') MAKEFLAGS; do unset $v; done
W=$(mktemp -d); trap 'rm -rf $W' EXIT; cd $W
echo 'echo hi' > a.do
strace -f -o /dev/null -P $PWD/.redo/db.sqlite3-wal -e trace=openat -e inject=openat:signal=KILL redo a >/dev/null 2>&1
echo "first run (killed while opening the WAL of the fresh database): exit=$?"
redo a; echo "second run: exit=$?"
redo a; echo "third run: exit=$?"
