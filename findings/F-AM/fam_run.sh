#!/bin/bash
# F-AM: the directory of a file redo knows about is replaced by a regular file (`mv sub sub.bak; echo x > sub`). lstat(sub/x) then
# fails with ENOTDIR; read_stamp mapped only NotFound to "missing" and propagated everything else: redo-ood, redo-targets and
# redo-sources, which stat every known file, exited 1 with no output at all - while redo-ifchange still rebuilt the targets that
# were out of date (apenwarr's redo treats any failure of that stat as "missing").
# (reproduction by a mutation agent, round 8) usage: fam_run.sh <dir with redo binaries>
# exit 0: redo-ood lists the out-of-date target y; exit 1: the listing commands abort.
BIN=$(cd "$1" && pwd); export PATH=$BIN:$PATH
for v in $(env | sed -n 's/^\(REDO[A-Z_]*\)=.*/\1/p') MAKEFLAGS; do unset $v; done
W=$(mktemp -d); trap 'rm -rf $W' EXIT; cd $W
mkdir sub; printf 'redo-ifchange x.in\ncat x.in >$3\n' >sub/x.do; echo 1 >sub/x.in
printf 'redo-ifchange y.in\necho ran-y >&2\ncat y.in >$3\n' >y.do; echo 1 >y.in
redo sub/x y 2>/dev/null || exit 2
echo 2 >>y.in; mv sub sub.bak; echo notadir >sub
ood=$(redo-ood 2>ood.err); rc=$?
echo "redo-ood exit=$rc: [$ood] $(head -1 ood.err)"
redo-targets >/dev/null 2>&1; rt=$?; redo-sources >/dev/null 2>&1; rs=$?
echo "redo-targets exit=$rt redo-sources exit=$rs"
redo-ifchange y 2>&1 | grep -c ran-y
[ $rc -eq 0 ] && echo "$ood" | grep -qx y && [ $rt -eq 0 ] && [ $rs -eq 0 ] && exit 0 || exit 1
