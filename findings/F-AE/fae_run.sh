#!/bin/bash
# F-AE: the token read that another process wins. try_read() first asks select() whether the token pipe is readable and
# then does a *blocking* read(), guarded by a 10 ms SIGALRM interval timer "in case our read() gets stuck". The handler was
# installed with signal(), i.e. with SA_RESTART: the kernel restarts the read() after every alarm and it never returns.
# When another process of the same job pool takes the token between the select() and the read() (normal whenever two
# processes wait for a token), the loser sits in read() until some later token is written - and while it sits there it
# cannot reap its own finished jobs, record their results, release their locks or re-create their tokens. Once every
# process that could write a token is in that state the build hangs for ever (observed by a mutation agent: 5 of 28 runs
# of a 40-target `redo -j8` on a loaded machine).
# Deterministic version: gdb stops redo right at that read(); the token is taken away; redo continues.
# usage: fae_run.sh <dir with redo binaries>     (needs gdb)
# exit 0: redo goes on working without the token (the finished job `a` is recorded within 3 s); exit 1: it is stuck.
BIN=$(cd "$1" && pwd); export PATH=$BIN:$PATH
for v in $(env | sed -n 's/^\(REDO[A-Z_]*\)=.*/\1/p') MAKEFLAGS; do unset $v; done
W=$(mktemp -d); trap 'kill $GDB 2>/dev/null; pkill -f "$W" 2>/dev/null; rm -rf $W' EXIT; cd $W
printf 'sleep 0.3\necho a > $3\n' > a.do
printf 'echo b > $3\n' > b.do
mkfifo pool; exec 8<>pool            # we play the parent jobserver (make -j2): one spare token in the pool
printf t >&8
cat > cmds <<EOC
set pagination off
set confirm off
handle SIGALRM nostop noprint pass
set follow-fork-mode parent
set detach-on-fork on
break nix::unistd::read if fd == 8
run
shell dd if=$W/pool bs=1 count=1 of=/dev/null 2>/dev/null; touch $W/stolen
delete
continue
quit
EOC
MAKEFLAGS=" --jobserver-auth=8,8" gdb -q -batch -x cmds --args $BIN/redo-ifchange a b >gdb.out 2>&1 &
GDB=$!
for i in $(seq 1 100); do [ -e stolen ] && break; sleep 0.1; done
[ -e stolen ] || { echo "setup failed: the token read was never reached"; tail -5 gdb.out; exit 2; }
sleep 3
if [ -e a ]; then echo "redo noticed that the token was gone and went on: a recorded"; rc=0
else echo "redo is stuck in read() on the token pipe: the finished job a is still not recorded after 3 s ($(ps -o wchan= -p $(pgrep -f "$BIN/redo-ifchange a b" | head -1) 2>/dev/null))"; rc=1; fi
printf t >&8                         # give the token back so that everything can end
wait $GDB
exit $rc
