sleep 1
echo x
