redo-ifchange p1 p2
