redo-ifchange y
