sleep 0.2
redo-ifchange x y
