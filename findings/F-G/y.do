sleep 0.6
redo-ifchange x
echo y
