#!/bin/bash
cd /tmp/tri/fg
bin=$1; n=$2; hang=0
for i in $(seq 1 $n); do
  rm -rf .redo all p1 p2 x y *.tmp
  PATH=$bin:$PATH timeout 12 redo -j4 all >/dev/null 2>&1; rc=$?
  if [ $rc -eq 124 ]; then hang=$((hang+1)); pkill -9 -f "sh -e [a-z0-9]*\.do"; pkill -9 -f "^redo-ifchange"; pkill -9 -f "^redo-log"; sleep 0.3; fi
done
echo "$bin: hangs=$hang/$n"
