#!/bin/bash
cd /tmp/tri/fi; rm -rf .redo a
export PATH=$1:$PATH RUST_BACKTRACE=0
redo a >/dev/null 2>&1
fails=0; total=0
for r in $(seq 1 $2); do
  for k in 1 2 3 4 5 6 7 8 9 10 11 12; do ( redo-ifchange a >out.$k 2>&1; echo $? > rc.$k ) & done
  wait
  for k in 1 2 3 4 5 6 7 8 9 10 11 12; do total=$((total+1)); if [ "$(cat rc.$k)" != "0" ]; then fails=$((fails+1)); grep -h -m1 "locked\|busy\|rror" out.$k; fi; done
done
echo "$1: failures=$fails/$total"
