echo a
