#!/bin/bash
cd /tmp/tri/fm; rm -rf .redo t src slow reached *.tmp
export PATH=$1:$PATH RUST_BACKTRACE=0
echo one > src
redo-ifchange t >/dev/null 2>&1; echo "initial build: exit=$? t=$(cat t)"
sleep 1.1; echo two > src; touch slow
setsid redo-ifchange t >/dev/null 2>&1 &
for i in $(seq 1 50); do [ -e reached ] && break; sleep 0.1; done
sleep 0.3
pkill -9 -f "sh -e t.do"; pkill -9 -f "^redo-ifchange t"; pkill -9 -f "^redo-log"; pkill -9 -f "^sleep 5"
rm -f slow reached
sleep 1.1
redo-ifchange t 2>&1 | sed 's/@@REDO:[a-z]*:[0-9]*:[0-9.]*@@ //' | tail -2; echo "recovery run: exit=${PIPESTATUS[0]} t=$(cat t)  src=$(cat src)   (expected t=two)"
ls *.tmp 2>/dev/null
