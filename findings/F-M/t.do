redo-ifchange src
cat src
redo-stamp < src
if [ -e slow ]; then touch reached; sleep 5; fi
