redo-ifchange inp
cat inp
echo built-stampy >> stampy.log
redo-stamp < inp
