redo-ifchange stampy
cat stampy
echo built-use >> use.log
