echo hi
