#!/bin/bash
# F-AG: a sub-redo started with MAKEFLAGS unset (t/204-makeflags does that; so does any wrapper that scrubs MAKEFLAGS) finds no
# jobserver to join and starts its own 1-token jobserver - but it still read the enclosing build's REDO_CHEATFDS and shared its
# cheat pipe. When the enclosing build has a compensation byte pending there (a redo-ifchange that exited on a borrowed slot), a job
# exit in the nested build eats it: the nested redo fails a correct build with `expected 1 tokens; found 0-0`, and the outer
# jobserver ends with one token too many (`expected 2 tokens; found 3-0`).
# (reproduction by a mutation agent, round 7) usage: fag_run.sh <bindir>      (exit 1 = violation observed)
bindir=$(cd "$1" && pwd) || exit 2
PATH=$bindir:$PATH; export PATH
for v in $(env | sed -n 's/^\(REDO[A-Za-z0-9_]*\)=.*/\1/p'); do unset "$v"; done
unset MAKEFLAGS
D=$(mktemp -d); trap 'cd /; rm -rf "$D"' EXIT; cd "$D"
echo 'redo-ifchange b c d e' >all.do
echo 'redo-ifchange x' >b.do
printf 'sleep 1\necho x\n' >x.do
printf 'sleep 0.3\nredo-ifchange x\nunset MAKEFLAGS\nredo sub\n' >c.do
echo 'echo sub' >sub.do
echo 'sleep 3' >d.do
echo 'sleep 3' >e.do
redo -j2 all >log 2>&1; rc=$?
cat log; echo "exit=$rc"
if [ $rc -ne 0 ] || grep -q 'expected [0-9]* tokens' log; then exit 1; fi
exit 0
