#!/bin/bash
# F-S: a partial stderr line (no trailing newline) followed by a nested build hides the nested target's output,
# in the live view and in `redo-log -r`.   usage: fs_run.sh <dir with redo binaries>
BIN=$(cd "$1" && pwd); export PATH=$BIN:$PATH
for v in $(env | sed -n 's/^\(REDO[A-Z_]*\)=.*/\1/p') MAKEFLAGS; do unset $v; done
W=$(mktemp -d); trap 'rm -rf $W' EXIT; cd $W
printf 'printf "partial-from-a " >&2\nredo-ifchange b\necho "a-end" >&2\n' > a.do
printf 'echo "b says hi" >&2\n' > b.do
redo a > live.out 2>&1; echo "redo a: exit=$?"; cat live.out
grep -q "b says hi" live.out || echo "LIVE VIEW: b's stderr line is missing"
redo-log -r a > replay.out 2>&1; grep -q "b says hi" replay.out || echo "REPLAY: b's stderr line is missing"
