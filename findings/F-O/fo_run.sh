#!/bin/bash
cd /tmp/tri/fo; rm -rf .redo s t sin *.tmp
export PATH=$1:$PATH RUST_BACKTRACE=0
echo a > sin
redo-ifchange t >/dev/null 2>&1; echo "first build: exit=$?"
sleep 1.1; echo cyc > sin
timeout 10 redo-ifchange t >out 2>&1; rc=$?
if [ $rc -eq 124 ]; then echo "HANG: redo-ifchange t did not terminate within 10 s (cycle through redo-unlocked phase 1)"; pkill -9 -f "sh -e [a-z]*\.do"; pkill -9 -f "^redo-"; else echo "terminated: exit=$rc"; grep -m1 -i cyclic out | sed 's/@@REDO:[a-z]*:[0-9]*:[0-9.]*@@ //'; fi
