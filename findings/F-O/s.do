redo-ifchange sin
if [ "$(cat sin)" = "cyc" ]; then redo-ifchange t; fi
cat sin
redo-stamp < sin
