redo-ifchange s
cat s
