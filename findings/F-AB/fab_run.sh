#!/bin/bash
# F-AB: redo-whichdo cleans its argument lexically, the builder resolves symbolic links in the directory part first:
# for link/../foo.x (link -> deep/er) whichdo lists ./foo.x.do ... while redo builds deep/foo.x with deep/default.do.
# usage: fab_run.sh <bindir>; exit 0: whichdo's winner is the script that ran
BIN=$(cd "$1" && pwd); export PATH=$BIN:$PATH
for v in $(env | sed -n 's/^\(REDO[A-Z_]*\)=.*/\1/p') MAKEFLAGS; do unset $v; done
W=$(mktemp -d); trap 'rm -rf $W' EXIT; cd $W
mkdir -p deep/er; ln -s deep/er link
echo 'echo top $0 > $3' > default.do; echo 'echo deep > $3' > deep/default.do
w=$(redo-whichdo link/../foo.x | tail -1)
redo link/../foo.x 2>/dev/null
echo "whichdo says: $w; files: $(ls foo.x deep/foo.x 2>/dev/null | tr '\n' ' ')"
[ -e deep/foo.x ] && [ "$w" != deep/default.do ] && { echo "redo built deep/foo.x with deep/default.do, redo-whichdo named $w"; exit 1; }
exit 0
