redo-ifchange b
echo a
