#!/bin/bash
cd /tmp/tri/fn; rm -rf .redo a b *.tmp
export PATH=$1:$PATH RUST_BACKTRACE=0
timeout 10 redo -j2 a b >out 2>&1; rc=$?
if [ $rc -eq 124 ]; then echo "HANG: redo -j2 a b (a <-> b) did not terminate within 10 s"; pkill -9 -f "sh -e [a-z]*\.do"; pkill -9 -f "^redo-"; else echo "terminated: exit=$rc"; grep -m1 -i cyclic out | sed 's/@@REDO:[a-z]*:[0-9]*:[0-9.]*@@ //'; fi
timeout 10 redo -j2 a >out 2>&1; echo "single entry: redo -j2 a: exit=$?"
