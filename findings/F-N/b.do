redo-ifchange a
echo b
