#!/bin/bash
# usage: seed_confirm.sh <dir with patch.diff demo.sh> <name>
# Confirms an externally produced breaking change in a scratch worktree of /repo (never in /repo itself):
# the patch applies, the project builds, the pinned test suite passes, the demo fails with the change and
# passes without it. Prints a JSON line; removes the worktree afterwards.
set -u
SD="$1"; NAME="$2"
WT=/tmp/seedconfirm-$NAME
rm -rf "$WT"; git -C /repo worktree prune
git -C /repo worktree add -q --detach "$WT" HEAD || exit 2
cleanup() { git -C /repo worktree remove --force "$WT" 2>/dev/null; rm -rf "$WT" /tmp/seedconfirm-bin-$NAME /tmp/seedconfirm-base-$NAME; }
trap cleanup EXIT
cp -r /repo/target "$WT/target" 2>/dev/null
mkbin() { mkdir -p "$2"; for n in redo redo-ifchange redo-ifcreate redo-always redo-stamp redo-unlocked redo-ood redo-targets redo-sources redo-log redo-whichdo; do ln -sf "$1" "$2/$n"; done; }
# (see /verif/tools/mktemp-shim/mktemp: pins mktemp -d project directories while a stray /.redo exists at the filesystem root)
if [ -d /.redo ]; then
  # demos that pin their project root themselves (`mkdir .redo`) must not find one there already
  grep -q '\.redo' "$SD/demo.sh" || { [ -x /verif/tools/mktemp-shim/mktemp ] && export PATH=/verif/tools/mktemp-shim:$PATH; }
  mkdir -p "$WT/.redo"    # the test suite's projects live below the worktree: give them a state directory of their own
fi
applies=false; builds=false; tests=false; demo_mut=-1; demo_base=-1
if git -C "$WT" apply "$SD/patch.diff" 2>/dev/null; then applies=true; fi
if $applies && (cd "$WT" && CARGO_TARGET_DIR="$WT/target" cargo build --offline >/dev/null 2>&1); then builds=true; fi
if $builds; then
  out=$(cd "$WT" && CARGO_TARGET_DIR="$WT/target" cargo test --workspace --no-fail-fast --offline 2>&1)
  if echo "$out" | grep -q "test result: FAILED\|error: test failed\|error\[" ; then tests=false; else tests=true; fi
  mkbin "$WT/target/debug/redo" /tmp/seedconfirm-bin-$NAME
  timeout 300 bash "$SD/demo.sh" /tmp/seedconfirm-bin-$NAME >/tmp/seedconfirm-$NAME.mut.log 2>&1; demo_mut=$?
fi
mkbin /repo/target/debug/redo /tmp/seedconfirm-base-$NAME
timeout 300 bash "$SD/demo.sh" /tmp/seedconfirm-base-$NAME >/tmp/seedconfirm-$NAME.base.log 2>&1; demo_base=$?
echo "{\"seed\":\"$NAME\",\"applies\":$applies,\"builds\":$builds,\"tests_pass\":$tests,\"demo_with_change\":$demo_mut,\"demo_without_change\":$demo_base}"
