#!/usr/bin/env python3
"""Round 9: confirm (tools/seed_confirm.sh) and import the changes the blind agents left in /tmp/seed9/<Cxx>-out/<k>/ into
seeded/<Cxx>-<n>/ (next free n). `checks_when_it_arrived` is what the *committed* checker of the moment the agents were
started reported (snapshot worktree /tmp/verif-arrival, tools/patch_check.sh there); `checks_now` is filled by
tools/seed_refresh.py afterwards. usage: seed_import7.py [Cxx ...]"""
import glob, json, os, shutil, subprocess, sys
HERE = os.path.dirname(os.path.dirname(os.path.abspath(__file__)))
ARR = "/tmp/verif-arrival"
props = sys.argv[1:] or ["C%02d" % i for i in range(1, 19)]
for prop in props:
    for src in sorted(glob.glob("/tmp/seed9/%s-out/[0-9]*" % prop)):
        k = os.path.basename(src)
        marker = os.path.join(src, ".imported")
        if os.path.exists(marker) or not os.path.exists(os.path.join(src, "patch.diff")) or not os.path.exists(os.path.join(src, "demo.sh")):
            continue
        name = "%s-r9%s" % (prop, k)
        r = subprocess.run([os.path.join(HERE, "tools", "seed_confirm.sh"), src, name], capture_output=True, text=True)
        try:
            c = json.loads(r.stdout.strip().splitlines()[-1])
        except Exception:
            print("confirm failed:", name, r.stdout[-300:], r.stderr[-300:])
            continue
        ok = c["applies"] and c["builds"] and c["tests_pass"] and c["demo_with_change"] not in (0, -1, 124) and c["demo_without_change"] == 0
        if not ok:
            print("not kept (not confirmed):", name, c)
            open(marker, "w").write("not confirmed: %s" % json.dumps(c))
            continue
        n = 1
        while os.path.exists(os.path.join(HERE, "seeded", "%s-%d" % (prop, n))):
            n += 1
        dst = os.path.join(HERE, "seeded", "%s-%d" % (prop, n))
        os.makedirs(dst)
        for f in ("patch.diff", "demo.sh"):
            shutil.copy(os.path.join(src, f), dst)
        try:
            meta = json.load(open(os.path.join(src, "meta.json")))
        except Exception:
            meta = {}
        env = dict(os.environ, REDO_FACTS_TARGET=os.path.join(HERE, ".cache", "target"))
        r = subprocess.run([os.path.join(ARR, "tools", "patch_check.sh"), os.path.join(dst, "patch.diff")], capture_output=True, text=True, env=env)
        fired = sorted({l.strip() for l in r.stdout.splitlines() if " key: " in l})
        und = sorted({l.strip() for l in r.stdout.splitlines() if " UNDECIDED" in l or " CRASH" in l})
        own = [f for f in fired if f.split()[0] == prop]
        m = {"property": prop, "title": meta.get("title"), "what_it_needs_to_manifest": meta.get("what_it_needs_to_manifest"),
             "files_touched": meta.get("files_touched"), "explanation": meta.get("explanation"), "round": 9,
             "origin": "independent sub-agent given only the property record and a scratch worktree of /repo (nothing from /verif)",
             "confirmed_by_me": {"how": "tools/seed_confirm.sh in a scratch worktree of /repo (removed afterwards): git apply, cargo build --offline, "
                                        "cargo test --workspace --no-fail-fast --offline, demo.sh against the changed binary and against /repo's binary",
                                 "result": c},
             "checks_when_it_arrived": {"checker_commit": subprocess.run(["git", "-C", ARR, "rev-parse", "--short", "HEAD"], capture_output=True, text=True).stdout.strip(),
                                        "caught": bool(fired), "caught_by_own_property": bool(own), "by": fired, "undecided": und}}
        json.dump(m, open(os.path.join(dst, "meta.json"), "w"), indent=1)
        open(marker, "w").write(dst)
        print("%s -> %s  arrived: %s" % (name, os.path.basename(dst), "caught by own property" if own else ("caught by other property only" if fired else "MISSED")),
              [f.split(" key: ")[1].split("|")[0] + "(" + f.split()[0] + ")" for f in fired], und, flush=True)
