#!/bin/sh
# nightly rustc that does not announce itself as nightly to build scripts
R=/root/.rustup/toolchains/nightly-x86_64-unknown-linux-gnu/bin/rustc
for a in "$@"; do
  case "$a" in
    -vV|--version|-V) "$R" "$@" | sed -e 's/-nightly//' ; exit $? ;;
  esac
done
exec "$R" "$@"
