#!/usr/bin/env python3
"""Import independently produced breaking changes into /verif/seeded/<id>/ (patch.diff, demo.sh,
meta.json) after they have been confirmed (tools/seed_confirm.sh) and run the quick checks against
each (tools/seed_check.sh applies the patch to /repo, runs, and restores /repo)."""
import json
import os
import shutil
import subprocess
import sys

HERE = os.path.dirname(os.path.dirname(os.path.abspath(__file__)))
SRC = sys.argv[1]                    # e.g. /tmp/seedout
CONFIRM = os.path.join(SRC, "confirm.jsonl")
INITIAL = json.load(open(sys.argv[2]))   # {"C01-1": {"caught": true, "by": [...], "note": "..."}}
conf = {}
for l in open(CONFIRM):
    d = json.loads(l)
    conf[d["seed"]] = d
out_root = os.path.join(HERE, "seeded")
os.makedirs(out_root, exist_ok=True)
summary = []
for name in sorted(INITIAL):
    prop, k = name.split("-")
    sd = os.path.join(SRC, prop, k)
    c = conf.get(name)
    if not c or not (c["applies"] and c["builds"] and c["tests_pass"] and c["demo_with_change"] == 1 and c["demo_without_change"] == 0):
        print("not kept (not confirmed):", name, c)
        continue
    dst = os.path.join(out_root, name)
    os.makedirs(dst, exist_ok=True)
    shutil.copy(os.path.join(sd, "patch.diff"), dst)
    shutil.copy(os.path.join(sd, "demo.sh"), dst)
    meta = {}
    if os.path.exists(os.path.join(sd, "meta.json")):
        try:
            meta = json.load(open(os.path.join(sd, "meta.json")))
        except Exception:
            meta = {}
    r = subprocess.run([os.path.join(HERE, "tools", "seed_check.sh"), os.path.join(dst, "patch.diff")], capture_output=True, text=True)
    fired = sorted({l.strip() for l in r.stdout.splitlines() if " key: " in l})
    m = {
        "property": prop,
        "title": meta.get("title"),
        "what_it_needs_to_manifest": meta.get("what_it_needs_to_manifest"),
        "files_touched": meta.get("files_touched"),
        "explanation": meta.get("explanation"),
        "origin": "independent sub-agent given only the property record and a scratch worktree of /repo (nothing from /verif)",
        "confirmed_by_me": {"how": "tools/seed_confirm.sh in a scratch worktree of /repo (removed afterwards): git apply, cargo build --offline, "
                                   "cargo test --workspace --no-fail-fast --offline, demo.sh against the changed binary and against /repo's binary",
                            "result": c},
        "checks_when_it_arrived": INITIAL[name],
        "checks_now": {"how": "tools/seed_check.sh (git -C /repo apply; ./check Cxx for all 18; git -C /repo checkout -- .)", "fired": fired},
    }
    json.dump(m, open(os.path.join(dst, "meta.json"), "w"), indent=1)
    summary.append((name, INITIAL[name]["caught"], [f.split(" key: ")[1].split("|")[0] + "(" + f.split()[0] + ")" for f in fired]))
    print(name, "initially caught" if INITIAL[name]["caught"] else "initially MISSED", "| now:", len(fired), "instance(s)")
json.dump(summary, open(os.path.join(out_root, "SUMMARY.json"), "w"), indent=1)
