#!/usr/bin/env python3
"""Print the DESIGN.md section C.2 table (seeded change -> caught on arrival? -> rules that report it now)
from seeded/*/meta.json."""
import glob, json, os
HERE = os.path.dirname(os.path.dirname(os.path.abspath(__file__)))
print("| seed | property | change (needs ... to manifest) | caught on arrival | reported now by |")
print("|------|----------|--------------------------------|-------------------|-----------------|")
for d in sorted(glob.glob(os.path.join(HERE, "seeded", "C*"))):
    m = json.load(open(os.path.join(d, "meta.json")))
    arr = m.get("checks_when_it_arrived", {})
    now = sorted({f.split(" key: ")[1].split("|")[0] + " (" + f.split()[0] + ")" for f in m.get("checks_now", {}).get("fired", [])})
    a = "yes" if arr.get("caught") else "**no**"
    if arr.get("by"):
        def short(b):
            w = b.split()
            if len(w) > 2 and w[1] == "key:":
                return w[0] + " " + w[2].split("|")[0]
            return w[0] + " " + w[1] if len(w) > 1 else b
        a += " (" + ", ".join(sorted({short(b) for b in arr["by"]})) + ")"
    if arr.get("caught") and arr.get("caught_by_own_property") is False:
        a = a.replace("yes", "by another property's check only", 1)
    print("| %s | %s | %s | %s | %s |" % (os.path.basename(d), m["property"], (m.get("title") or "").replace("|", "/"), a, ", ".join(now) or "**nothing**"))
