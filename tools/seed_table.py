#!/usr/bin/env python3
"""Print the DESIGN.md section C.2 table (seeded change -> caught on arrival? -> rules that report it now)
from seeded/*/meta.json."""
import glob, json, os
HERE = os.path.dirname(os.path.dirname(os.path.abspath(__file__)))
print("| seed | property | change (needs ... to manifest) | caught on arrival | reported now by |")
print("|------|----------|--------------------------------|-------------------|-----------------|")
for d in sorted(glob.glob(os.path.join(HERE, "seeded", "C*"))):
    m = json.load(open(os.path.join(d, "meta.json")))
    arr = m.get("checks_when_it_arrived", {})
    now = sorted({f.split(" key: ")[1].split("|")[0] + " (" + f.split()[0] + ")" for f in m.get("checks_now", {}).get("fired", [])})
    a = "yes" if arr.get("caught") else "**no**"
    if arr.get("by"):
        a += " (" + ", ".join(sorted({b.split()[0] + " " + b.split()[1] for b in arr["by"] if len(b.split()) > 1})) + ")"
    print("| %s | %s | %s | %s | %s |" % (os.path.basename(d), m["property"], (m.get("title") or "").replace("|", "/"), a, ", ".join(now) or "**nothing**"))
