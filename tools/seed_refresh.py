#!/usr/bin/env python3
"""Re-run the quick checks against every seeded change (tools/seed_check.sh applies the patch to /repo,
runs all 18 checks and restores /repo) and refresh meta.json `checks_now` and seeded/SUMMARY.json.
usage: tools/seed_refresh.py [name-substr]"""
import glob, json, os, subprocess, sys
HERE = os.path.dirname(os.path.dirname(os.path.abspath(__file__)))
sel = sys.argv[1] if len(sys.argv) > 1 else ""
summary = []
for d in sorted(glob.glob(os.path.join(HERE, "seeded", "C*"))):
    name = os.path.basename(d)
    mp = os.path.join(d, "meta.json")
    m = json.load(open(mp))
    if sel in name:
        r = subprocess.run([os.path.join(HERE, "tools", "patch_check.sh"), os.path.join(d, "patch.diff")], capture_output=True, text=True)
        if r.returncode == 2 or "patch does not apply" in r.stdout or "does not compile" in r.stdout:
            print(name, "NOT EVALUATED:", r.stdout.strip()[-200:])
            fired = None
        else:
            fired = sorted({l.strip() for l in r.stdout.splitlines() if " key: " in l})
        if fired is not None:
            m["checks_now"] = {"how": "tools/patch_check.sh (scratch copy of /repo + patch; ./check Cxx for all 18)", "fired": fired}
            json.dump(m, open(mp, "w"), indent=1)
    fired = m.get("checks_now", {}).get("fired", [])
    own = [f for f in fired if f.split()[0] == m["property"]]
    print("%-8s own-property rules: %d, all: %d %s" % (name, len(own), len(fired), "" if fired else "  <-- NOT CAUGHT"))
    summary.append((name, m.get("checks_when_it_arrived", {}).get("caught"), [f.split(" key: ")[1].split("|")[0] + "(" + f.split()[0] + ")" for f in fired]))
json.dump(summary, open(os.path.join(HERE, "seeded", "SUMMARY.json"), "w"), indent=1)
