#!/usr/bin/env python3
"""Write sa/reference.json: the vocabulary (function signatures + body fingerprints, ADT shapes and field
names) of the tree the rule tables were confirmed on. Run deliberately, on a clean /repo at the commit the
rules are known to pass on; the file is committed. usage: tools/mk_reference.py [facts-dir]"""
import json, os, subprocess, sys
HERE = os.path.dirname(os.path.dirname(os.path.abspath(__file__)))
sys.path.insert(0, os.path.join(HERE, "sa"))
import facts, canon
fd = sys.argv[1] if len(sys.argv) > 1 else os.path.join(HERE, ".cache", "facts", "_ref")
if len(sys.argv) <= 1:
    subprocess.check_call([os.path.join(HERE, "tools", "extract.sh"), fd, "/repo"])
p = facts.Program(fd, canon=False)
ref = canon.build_reference(p.units)
ref["repo_head"] = subprocess.run(["git", "-C", "/repo", "rev-parse", "HEAD"], capture_output=True, text=True).stdout.strip()
json.dump(ref, open(canon.REFERENCE, "w"), indent=0, sort_keys=True)
print("reference: %d bodies, %d adts -> %s" % (len(ref["bodies"]), len(ref["adts"]), canon.REFERENCE))
