#!/bin/bash
# usage: extract.sh <facts-out-dir> [<repo-dir>] [--features <f>]
# Runs the redo-facts driver over the workspace member of <repo-dir> (default /repo) and leaves
# facts.redo.lib.<pid>.json and facts.redo.bin.<pid>.json in <facts-out-dir>.
set -euo pipefail
HERE="$(cd "$(dirname "$0")/.." && pwd)"
OUT="$1"; shift
REPO="/repo"
FEATURES=""
while [ $# -gt 0 ]; do
  case "$1" in
    --features) FEATURES="$2"; shift 2;;
    *) REPO="$1"; shift;;
  esac
done
DRV="$HERE/driver/target/debug/redo-facts"
[ -x "$DRV" ] || { echo "driver not built; run ./setup.sh" >&2; exit 2; }
SYSROOT="$(rustc +nightly --print sysroot)"
TGT="${REDO_FACTS_TARGET:-$HERE/.cache/target}"
mkdir -p "$OUT" "$TGT"; OUT="$(cd "$OUT" && pwd)"
rm -f "$OUT"/facts.*.json
# serialise extractions that share one target dir
exec 9>"$TGT/.extract.lock"; flock 9
# cargo's freshness cache would skip the wrapper: forget the member's fingerprints
rm -rf "$TGT"/debug/.fingerprint/redo-* 2>/dev/null || true
NONCE="$$.$(date +%s%N)"
export REDO_FACTS_NONCE="$NONCE" REDO_FACTS_DIR="$OUT"
export LD_LIBRARY_PATH="$SYSROOT/lib${LD_LIBRARY_PATH:+:$LD_LIBRARY_PATH}"
export RUSTC="$HERE/tools/rustc-shim.sh" RUSTC_WORKSPACE_WRAPPER="$DRV"
export CARGO_INCREMENTAL=0 CARGO_NET_OFFLINE=true CARGO_TARGET_DIR="$TGT" RUSTFLAGS="-Zmir-opt-level=0 -Awarnings"
FE=()
[ -n "$FEATURES" ] && FE=(--features "$FEATURES")
( cd "$REPO" && cargo +nightly check --offline --locked --lib --bins "${FE[@]}" ) >"$OUT/cargo.log" 2>&1 || {
  echo "cargo check failed (see $OUT/cargo.log)" >&2; tail -30 "$OUT/cargo.log" >&2; exit 2; }
n=$(ls "$OUT"/facts.redo.lib.*.json "$OUT"/facts.redo.bin.*.json 2>/dev/null | wc -l)
[ "$n" -eq 2 ] || { echo "expected 2 fact files, got $n" >&2; exit 2; }
grep -l "\"nonce\":\"$NONCE\"" "$OUT"/facts.redo.*.json | wc -l | grep -qx 2 || { echo "stale fact files (nonce mismatch)" >&2; exit 2; }
echo "$NONCE" > "$OUT/nonce"
