#!/bin/bash
# usage: seed_check.sh <patch.diff> [props...]   (default: all 18)
# Applies the patch to /repo, runs the quick checks, and always restores /repo straight afterwards.
set -u
P="$1"; shift
PROPS="${*:-C01 C02 C03 C04 C05 C06 C07 C08 C09 C10 C11 C12 C13 C14 C15 C16 C17 C18}"
cd /verif
[ -z "$(git -C /repo status --porcelain --untracked-files=no)" ] || { echo "/repo not clean"; exit 2; }
trap 'git -C /repo checkout -- . ' EXIT
git -C /repo apply "$P" || { echo "patch does not apply"; exit 2; }
./tools/extract.sh /verif/.cache/facts/_seed /repo >/dev/null || { echo "does not compile"; exit 2; }
for c in $PROPS; do
  ./check $c --facts /verif/.cache/facts/_seed --no-evidence 2>&1 | grep "key:" | sed "s/^ */$c /"
done
