#!/bin/bash
# Runs the compile-fail witnesses against /repo's current tree. Prints "witness: N passed; M failed".
set -uo pipefail
HERE="$(cd "$(dirname "$0")/.." && pwd)"
cd "$HERE/witness"
cp /repo/Cargo.lock Cargo.lock 2>/dev/null
export CARGO_NET_OFFLINE=true CARGO_TARGET_DIR="$HERE/.cache/witness-target" RUSTC="$HERE/tools/rustc-shim.sh" RUSTDOC="$(rustup +nightly which rustdoc 2>/dev/null || echo rustdoc)"
exec 8>"$HERE/.cache/.witness.lock"; flock 8
cargo +nightly test --doc --offline 2>&1 | tee "$HERE/.cache/witness.log" | grep -E "^test result|^test src|FAILED|error(\[|:)" | tail -40
