#!/usr/bin/env python3
"""usage: tools/canon_notes.py <corpus-entry-substr>...   print the canonicalisation decisions for cached regress variants"""
import sys, os
HERE = os.path.dirname(os.path.dirname(os.path.abspath(__file__)))
sys.path.insert(0, os.path.join(HERE, "sa")); sys.path.insert(0, os.path.join(HERE, "tools"))
import regress, facts
dg = regress.repo_digest("/repo")
for e in regress.corpus(["neutral", "seeded", "mutant"], ",".join(sys.argv[1:])):
    d, err = regress.facts_for(e, "/repo", dg)
    print("==", e["name"], err or "")
    if d:
        p = facts.Program(d)
        for n in p.canon_notes:
            print("   ", n)
