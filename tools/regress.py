#!/usr/bin/env python3
"""Regression harness for the rule tables (development tool, not a registered check).

  tools/regress.py [--prop Cxx[,Cyy]] [--kind neutral,seeded,mutant] [--only SUBSTR] [--jobs N] [-v]

Corpus (all applied to a scratch copy of /repo's *current* working tree, never to /repo itself):
  neutral/<id>.diff     behaviour-preserving refactors written by independent agents -> every check must stay silent
  seeded/<id>/patch.diff breaking changes written by independent agents                -> at least one rule must report
  mutants/mutants.py     one-edit breaking / neutral mutants                           -> owning rule must report / silence
MIR facts of every variant are cached under .cache/regress/ keyed on the variant and on /repo's sources, so a
re-run after editing only the rules costs rule evaluation alone. Only the compiler and the analyser run.
Exit 0 when every expectation holds."""
import argparse
import glob
import hashlib
import json
import os
import re
import shutil
import subprocess
import sys
import tempfile
from concurrent.futures import ThreadPoolExecutor

HERE = os.path.dirname(os.path.dirname(os.path.abspath(__file__)))
sys.path.insert(0, os.path.join(HERE, "mutants"))
sys.path.insert(0, os.path.join(HERE, "tools"))
ALL = ["C%02d" % i for i in range(1, 19)]
CACHE = os.path.join(HERE, ".cache", "regress")


def repo_digest(repo):
    h = hashlib.sha1()
    for root, _, files in sorted(os.walk(os.path.join(repo, "src"))):
        for f in sorted(files):
            p = os.path.join(root, f)
            h.update(os.path.relpath(p, repo).encode())
            h.update(open(p, "rb").read())
    for f in ("Cargo.toml", "Cargo.lock"):
        h.update(open(os.path.join(repo, f), "rb").read())
    drv = os.path.join(HERE, "driver", "src", "main.rs")
    h.update(open(drv, "rb").read())
    return h.hexdigest()[:12]


def corpus(kinds, only):
    ents = []
    if "neutral" in kinds:
        for p in sorted(glob.glob(os.path.join(HERE, "neutral", "*.diff"))):
            ents.append({"name": "neutral/" + os.path.basename(p)[:-5], "kind": "neutral", "patch": p, "expect": None})
    if "seeded" in kinds:
        for d in sorted(glob.glob(os.path.join(HERE, "seeded", "C*"))):
            m = json.load(open(os.path.join(d, "meta.json")))
            ents.append({"name": "seeded/" + os.path.basename(d), "kind": "seeded", "patch": os.path.join(d, "patch.diff"),
                         "property": m["property"], "expect": "any"})
    if "mutant" in kinds:
        import mutants
        for e in mutants.M:
            ents.append({"name": "mutant/" + e["name"], "kind": "mutant-" + e["kind"], "edit": e, "property": e["property"],
                         "expect": e["expect"] if e["kind"] != "neutral" else None})
    if only:
        ents = [e for e in ents if any(o in e["name"] for o in only.split(","))]
    return ents


def facts_for(ent, repo, digest):
    key = hashlib.sha1((ent["name"] + "|" + (open(ent["patch"]).read() if "patch" in ent else json.dumps(ent["edit"], sort_keys=True))).encode()).hexdigest()[:12]
    d = os.path.join(CACHE, digest, key)
    if os.path.exists(os.path.join(d, "ok")):
        return d, None
    if os.path.exists(os.path.join(d, "fail")):
        return None, open(os.path.join(d, "fail")).read()
    os.makedirs(d, exist_ok=True)
    s = tempfile.mkdtemp(prefix="regress-")
    try:
        for f in ("Cargo.toml", "Cargo.lock", "rust-toolchain", "build.rs"):
            if os.path.exists(os.path.join(repo, f)):
                shutil.copy(os.path.join(repo, f), s)
        shutil.copytree(os.path.join(repo, "src"), os.path.join(s, "src"), symlinks=True)
        if "patch" in ent:
            r = subprocess.run(["patch", "-s", "-p1", "-i", ent["patch"]], cwd=s, capture_output=True, text=True)
            err = None if r.returncode == 0 else "patch does not apply: " + (r.stdout + r.stderr).strip()[-200:]
        else:
            import mutate
            err = mutate.apply_edit(s, ent["edit"])
        if err is None:
            r = subprocess.run([os.path.join(HERE, "tools", "extract.sh"), d, s], capture_output=True, text=True)
            if r.returncode != 0:
                err = "does not compile: " + (r.stderr.strip().splitlines() or ["?"])[-1][:200]
        if err:
            open(os.path.join(d, "fail"), "w").write(err)
            return None, err
        open(os.path.join(d, "ok"), "w").write("")
        return d, None
    finally:
        shutil.rmtree(s, ignore_errors=True)


def evaluate(facts, prop):
    c = subprocess.run([os.path.join(HERE, "check"), prop, "--facts", facts, "--no-evidence"], capture_output=True, text=True)
    fired = []
    for line in c.stderr.splitlines():
        mm = re.match(r"\s*key: (.*)$", line)
        if mm:
            fired.append(mm.group(1))
    und = None
    if c.returncode == 2:
        und = (re.findall(r"cannot decide: (.*)", c.stdout) or ["?"])[0]
    elif c.returncode not in (0, 1) or (c.returncode == 1 and "VIOLATION property=" not in c.stdout):
        und = "CRASH: " + (c.stderr.strip().splitlines() or ["?"])[-1][:200]
    return fired, und


def main():
    ap = argparse.ArgumentParser()
    ap.add_argument("--prop", default=None)
    ap.add_argument("--kind", default="neutral,seeded,mutant")
    ap.add_argument("--only", default=None)
    ap.add_argument("--repo", default="/repo")
    ap.add_argument("--jobs", type=int, default=14)
    ap.add_argument("-v", action="store_true")
    ap.add_argument("--write-meta", action="store_true", help="record what fired now in seeded/<id>/meta.json (checks_now) and seeded/SUMMARY.json")
    ap.add_argument("--where", action="store_true", help="only print the cached facts directory of each selected variant (for sa/dump.py)")
    a = ap.parse_args()
    props = a.prop.split(",") if a.prop else ALL
    # work from one snapshot of the repository taken now: the digest and every variant derive from the same bytes even
    # if /repo's working tree changes while this runs
    snap = tempfile.mkdtemp(prefix="regress-base-")
    import atexit
    atexit.register(lambda: shutil.rmtree(snap, ignore_errors=True))
    for f in ("Cargo.toml", "Cargo.lock", "rust-toolchain", "build.rs"):
        if os.path.exists(os.path.join(a.repo, f)):
            shutil.copy(os.path.join(a.repo, f), snap)
    shutil.copytree(os.path.join(a.repo, "src"), os.path.join(snap, "src"), symlinks=True)
    a.repo = snap
    digest = repo_digest(a.repo)
    ents = corpus(a.kind.split(","), a.only)
    # stage 1: facts (extract.sh serialises on the shared target dir; a small pool keeps the pipe full)
    with ThreadPoolExecutor(max_workers=3) as ex:
        fx = list(ex.map(lambda e: facts_for(e, a.repo, digest), ents))
    if a.where:
        for e, (d, err) in zip(ents, fx):
            print("%-40s %s" % (e["name"], d or err))
        return 0
    # stage 2: rule evaluation
    jobs = []
    for e, (d, err) in zip(ents, fx):
        e["facts"], e["skip"] = d, err
        if d is None:
            continue
        if e["kind"] in ("neutral", "mutant-neutral", "seeded"):
            ps = props
        else:
            ps = [e["property"]] if e["property"] in props else []
        for p in ps:
            jobs.append((e, p))
    with ThreadPoolExecutor(max_workers=a.jobs) as ex:
        res = list(ex.map(lambda j: evaluate(j[0]["facts"], j[1]), jobs))
    for (e, p), (fired, und) in zip(jobs, res):
        e.setdefault("fired", []).extend((p, k) for k in fired)
        if und:
            e.setdefault("undecided", []).append((p, und))
    bad = 0
    summ = {}
    for e in ents:
        fired = e.get("fired", [])
        und = e.get("undecided", [])
        if e["skip"]:
            st = "skipped"
        elif any(u.startswith("CRASH") for _, u in und):
            st = "CRASH"
        elif e["expect"] is None:
            st = "ok" if not fired and not und else "FALSE-ALARM"
        elif e["expect"] == "any":
            own = [k for (p, k) in fired if p == e["property"]]
            if a.prop and e["property"] not in props:
                st = "caught" if fired else "n/a"
            else:
                st = "caught" if own else ("caught-other-property" if fired else "MISSED")
        else:
            if e["property"] not in props:
                st = "n/a"
            else:
                hit = any(k.startswith(e["expect"] + "|") for (_, k) in fired)
                st = "caught" if hit else ("caught-other-rule" if fired else "MISSED")
        summ[st] = summ.get(st, 0) + 1
        if st in ("FALSE-ALARM", "MISSED", "CRASH"):
            bad += 1
        if a.v or st in ("FALSE-ALARM", "MISSED", "CRASH", "skipped", "caught-other-property", "caught-other-rule"):
            print("%-22s %-40s %s" % (st, e["name"], e["skip"] or ""))
            if st != "caught" or a.v:
                for p, k in fired:
                    print("      %s %s" % (p, k))
                for p, u in und:
                    print("      %s UNDECIDED %s" % (p, u[:160]))
    if a.write_meta:
        summary = []
        for e in ents:
            if e["kind"] != "seeded":
                continue
            mp = os.path.join(os.path.dirname(e["patch"]), "meta.json")
            m = json.load(open(mp))
            if not e["skip"]:
                m["checks_now"] = {"how": "tools/regress.py --write-meta (scratch copy of /repo + patch; ./check Cxx for all 18)",
                                   "fired": sorted({"%s key: %s" % (p, k) for (p, k) in e.get("fired", [])})}
                json.dump(m, open(mp, "w"), indent=1)
            fired = m.get("checks_now", {}).get("fired", [])
            summary.append((os.path.basename(os.path.dirname(e["patch"])), m.get("checks_when_it_arrived", {}).get("caught"),
                            sorted({f.split(" key: ")[1].split("|")[0] + "(" + f.split()[0] + ")" for f in fired})))
        if not a.only:
            json.dump(summary, open(os.path.join(HERE, "seeded", "SUMMARY.json"), "w"), indent=1)
    print(json.dumps(summ))
    return 1 if bad else 0


if __name__ == "__main__":
    sys.exit(main())
