#!/bin/bash
# usage: patch_check.sh <patch.diff> [props...]   (default: all 18)
# Copies /repo's current working tree (sources + manifests) to a scratch directory, applies the patch there,
# extracts MIR facts and runs the quick checks on it (no evidence written). /repo itself is not touched.
# Prints "<prop> key: ..." for every reported violation and "<prop> UNDECIDED: ..." when a check exits 2.
set -u
P="$(readlink -f "$1")"; shift
PROPS="${*:-C01 C02 C03 C04 C05 C06 C07 C08 C09 C10 C11 C12 C13 C14 C15 C16 C17 C18}"
cd /verif
S=$(mktemp -d /tmp/patchcheck.XXXXXX)
trap 'rm -rf "$S"' EXIT
for f in Cargo.toml Cargo.lock rust-toolchain build.rs; do [ -e /repo/$f ] && cp /repo/$f $S/; done
cp -r /repo/src $S/src
( cd $S && patch -s -p1 < "$P" ) || { echo "patch does not apply"; exit 2; }
D=$S/facts
./tools/extract.sh $D $S >/dev/null 2>$S/err || { echo "does not compile"; tail -5 $S/err; exit 2; }
for c in $PROPS; do
  ( out=$(./check $c --facts $D --no-evidence 2>&1); rc=$?
  echo "$out" | grep "key:" | sed "s/^ */$c /"
  [ $rc -eq 2 ] && echo "$c UNDECIDED: $(echo "$out" | grep 'cannot decide' | head -1)"
  [ $rc -ne 0 ] && [ $rc -ne 1 ] && [ $rc -ne 2 ] && echo "$c CRASH rc=$rc: $(echo "$out" | tail -3)" ) > $S/out.$c &
done
wait
cat $S/out.C* 
exit 0
