#!/bin/bash
# usage: rebase_corpus.sh <old-base-commit>
# Re-bases every corpus patch (neutral/*.diff, seeded/*/patch.diff) that no longer applies to /repo's HEAD: the patch is
# applied to <old-base-commit> (where it was last known to apply) in a scratch worktree, committed, and cherry-picked
# onto HEAD; the resulting diff replaces the patch file. Conflicts are reported and left for a manual rebase.
set -u
OLD="$1"; NEW=$(git -C /repo rev-parse HEAD)
WT=/tmp/rebase-wt; rm -rf $WT; git -C /repo worktree prune; git -C /repo worktree add -q --detach $WT $NEW || exit 2
trap 'git -C /repo worktree remove --force $WT 2>/dev/null; rm -rf $WT' EXIT
cd $WT; git config user.email v@v; git config user.name v
for P in /verif/neutral/*.diff /verif/seeded/*/patch.diff; do
  git checkout -q --detach $NEW; git reset -q --hard $NEW
  if git apply --check "$P" 2>/dev/null; then continue; fi
  git checkout -q --detach $OLD; git reset -q --hard $OLD
  if ! git apply "$P" 2>/dev/null; then echo "NOT-AT-OLD $P"; continue; fi
  git add -A; git commit -q -m tmp; C=$(git rev-parse HEAD)
  git checkout -q --detach $NEW
  if git cherry-pick -n $C >/dev/null 2>&1; then
    git diff --cached $NEW > "$P.new"; [ -s "$P.new" ] && mv "$P.new" "$P" && echo "rebased $P"
  else
    echo "CONFLICT $P: $(git diff --name-only --diff-filter=U | tr '\n' ' ')"; git cherry-pick --abort 2>/dev/null; git reset -q --hard $NEW; rm -f "$P.new"
  fi
done
