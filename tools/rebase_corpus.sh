#!/bin/bash
# usage: rebase_corpus.sh            (no arguments)
# Re-bases every corpus patch (neutral/*.diff, seeded/*/patch.diff) that no longer applies to /repo's HEAD: the newest
# commit of /repo's history at which the patch still applies is looked up, the patch is committed there in a scratch
# worktree and cherry-picked (3-way) onto HEAD; the resulting diff replaces the patch file. Conflicts are reported and
# the conflicted tree is saved under /tmp/rebase-conflicts/<name>/ for a manual rebase.
set -u
NEW=$(git -C /repo rev-parse HEAD)
WT=/tmp/rebase-wt; rm -rf $WT /tmp/rebase-conflicts; git -C /repo worktree prune; git -C /repo worktree add -q --detach $WT $NEW || exit 2
trap 'git -C /repo worktree remove --force $WT 2>/dev/null; rm -rf $WT' EXIT
cd $WT; git config user.email v@v; git config user.name v
HIST=$(git rev-list $NEW)
for P in /verif/neutral/*.diff /verif/seeded/*/patch.diff; do
  git checkout -q --detach $NEW; git reset -q --hard $NEW
  if git apply --check "$P" 2>/dev/null; then continue; fi
  OLD=""
  for c in $HIST; do git checkout -q --detach $c; if git apply --check "$P" 2>/dev/null; then OLD=$c; break; fi; done
  if [ -z "$OLD" ]; then echo "NO-BASE $P"; continue; fi
  git apply "$P"; git add -A; git commit -q -m tmp; C=$(git rev-parse HEAD)
  git checkout -q --detach $NEW
  if git cherry-pick -n $C >/dev/null 2>&1; then
    git diff --cached $NEW > "$P.new"; [ -s "$P.new" ] && mv "$P.new" "$P" && echo "rebased $P (from $(git rev-parse --short $OLD))"
  else
    n=$(echo "$P" | sed 's|/verif/||; s|/patch.diff||; s|\.diff||; s|/|_|g')
    mkdir -p /tmp/rebase-conflicts/$n; for f in $(git diff --name-only --diff-filter=U); do mkdir -p /tmp/rebase-conflicts/$n/$(dirname $f); cp $f /tmp/rebase-conflicts/$n/$f; done
    echo "CONFLICT $P (base $(git rev-parse --short $OLD)): $(git diff --name-only --diff-filter=U | tr '\n' ' ')"; git cherry-pick --abort 2>/dev/null; git reset -q --hard $NEW; rm -f "$P.new"
  fi
done
