#!/usr/bin/env python3
"""Rule-sensitivity harness (thorough tier; also usable stand-alone):
  tools/mutate.py [--only NAME_SUBSTR] [--property Cxx] [--kind break|neutral] [--jobs N]
For each entry of mutants/mutants.py: copy /repo's *current* working tree to a scratch directory
outside /repo and /verif, apply the one edit, extract MIR facts, evaluate the owning property's
rules (all properties for neutral edits) and compare with the expectation. Only the compiler and the
analyser run; redo itself is never executed. Scratch copies are removed afterwards.
Prints one line per mutant and a JSON summary (also written to --out)."""
import argparse
import json
import os
import re
import shutil
import subprocess
import sys
import tempfile
from concurrent.futures import ThreadPoolExecutor

HERE = os.path.dirname(os.path.dirname(os.path.abspath(__file__)))
sys.path.insert(0, os.path.join(HERE, "mutants"))
ALL = ["C%02d" % i for i in range(1, 19)]


def apply_edit(root, ent):
    edits = [(ent["file"], ent["old"], ent["new"])] + [(ent["file"], o, n) for (o, n) in ent.get("extra", [])]
    for f, old, new in edits:
        p = os.path.join(root, f)
        s = open(p).read()
        c = s.count(old)
        if ent.get("replace_all"):
            if c == 0:
                return "anchor text not found in %s" % f
            s = s.replace(old, new)
        else:
            if c != 1:
                return "anchor text occurs %d times in %s" % (c, f)
            s = s.replace(old, new)
        open(p, "w").write(s)
    return None


def run_one(ent, repo, base, neutral_props=None):
    name = ent["name"]
    root = os.path.join(base, name)
    res = {"name": name, "property": ent["property"], "expect": ent["expect"], "kind": ent["kind"]}
    try:
        os.makedirs(root)
        for f in ("Cargo.toml", "Cargo.lock", "rust-toolchain", "build.rs"):
            if os.path.exists(os.path.join(repo, f)):
                shutil.copy(os.path.join(repo, f), os.path.join(root, f))
        shutil.copytree(os.path.join(repo, "src"), os.path.join(root, "src"), symlinks=True)
        err = apply_edit(root, ent)
        if err:
            res["status"] = "skipped"
            res["detail"] = err
            return res
        facts = os.path.join(base, name + ".facts")
        r = subprocess.run([os.path.join(HERE, "tools", "extract.sh"), facts, root], capture_output=True, text=True)
        if r.returncode != 0:
            res["status"] = "skipped"
            res["detail"] = "mutant does not compile: " + (r.stderr.strip().splitlines() or ["?"])[-1][:200]
            return res
        props = (neutral_props or ALL) if ent["kind"] == "neutral" else [ent["property"]]
        fired = []
        undecided = []
        for p in props:
            env = dict(os.environ, VERIF_NO_EVIDENCE="1")
            c = subprocess.run([os.path.join(HERE, "check"), p, "--facts", facts, "--no-evidence"], capture_output=True, text=True, env=env)
            if c.returncode == 2:
                undecided.append(p)
            for line in c.stderr.splitlines():
                mm = re.match(r"\s*key: (R[0-9.]+)\|", line)
                if mm:
                    fired.append((p, mm.group(1)))
        res["fired"] = sorted(set(fired))
        res["undecided"] = undecided
        if ent["kind"] == "neutral":
            res["status"] = "ok" if not fired and not undecided else "FALSE-ALARM"
        else:
            hit = any(r == ent["expect"] for (_, r) in fired)
            res["status"] = "caught" if hit else ("caught-other-rule" if fired else "MISSED")
        return res
    finally:
        shutil.rmtree(root, ignore_errors=True)
        shutil.rmtree(os.path.join(base, name + ".facts"), ignore_errors=True)


def run_corpus(prop, repo="/repo", jobs=8):
    """Sensitivity corpus for one property: its breaking edits plus every neutral edit, evaluated
    against that property's rules only. Returns the list of result records."""
    import mutants
    ents = [e for e in mutants.M if e["property"] == prop or e["kind"] == "neutral"]
    base = tempfile.mkdtemp(prefix="redo-mutants-")
    try:
        with ThreadPoolExecutor(max_workers=jobs) as ex:
            return list(ex.map(lambda e: run_one(e, repo, base, neutral_props=[prop]), ents))
    finally:
        shutil.rmtree(base, ignore_errors=True)


def main():
    ap = argparse.ArgumentParser()
    ap.add_argument("--only", default=None)
    ap.add_argument("--property", default=None)
    ap.add_argument("--kind", default=None)
    ap.add_argument("--repo", default="/repo")
    ap.add_argument("--jobs", type=int, default=4)
    ap.add_argument("--out", default=None)
    a = ap.parse_args()
    import mutants
    ents = mutants.M
    if a.only:
        ents = [e for e in ents if a.only in e["name"]]
    if a.property:
        ents = [e for e in ents if e["property"] in (a.property, "*")]
    if a.kind:
        ents = [e for e in ents if e["kind"] == a.kind]
    base = tempfile.mkdtemp(prefix="redo-mutants-")
    try:
        with ThreadPoolExecutor(max_workers=a.jobs) as ex:
            results = list(ex.map(lambda e: run_one(e, a.repo, base), ents))
    finally:
        shutil.rmtree(base, ignore_errors=True)
    for r in results:
        print("%-16s %-42s %-4s expect=%-6s fired=%s %s" % (r["status"], r["name"], r["property"], r["expect"], r.get("fired", ""), r.get("detail", "")))
    summ = {"total": len(results)}
    for r in results:
        summ[r["status"]] = summ.get(r["status"], 0) + 1
    print(json.dumps(summ))
    if a.out:
        json.dump({"summary": summ, "results": results}, open(a.out, "w"), indent=1)
    bad = [r for r in results if r["status"] in ("MISSED", "FALSE-ALARM")]
    return 1 if bad else 0


if __name__ == "__main__":
    sys.exit(main())
