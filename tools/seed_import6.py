#!/usr/bin/env python3
"""Import confirmed round-6 seeds from /tmp/seed6/<Cxx>/out/<k>/ into seeded/<Cxx>-<n>/ (next free n), recording what the
checks reported when the change arrived (tools/patch_check.sh on the rules as they are now)."""
import glob, json, os, shutil, subprocess, sys
HERE = os.path.dirname(os.path.dirname(os.path.abspath(__file__)))
conf = {}
for l in open("/tmp/seed6/confirm.jsonl"):
    try:
        d = json.loads(l)
    except Exception:
        continue
    conf[d["seed"]] = d
for name in sorted(conf):
    c = conf[name]
    prop, rk = name.split("-")
    k = rk[-1]
    src = "/tmp/seed6/%s/out/%s" % (prop, k)
    marker = os.path.join(src, ".imported")
    if os.path.exists(marker):
        continue
    ok = c["applies"] and c["builds"] and c["tests_pass"] and c["demo_with_change"] == 1 and c["demo_without_change"] == 0
    if not ok:
        print("not kept (not confirmed):", name, c)
        continue
    n = 1
    while os.path.exists(os.path.join(HERE, "seeded", "%s-%d" % (prop, n))):
        n += 1
    dst = os.path.join(HERE, "seeded", "%s-%d" % (prop, n))
    os.makedirs(dst)
    for f in ("patch.diff", "demo.sh"):
        shutil.copy(os.path.join(src, f), dst)
    try:
        meta = json.load(open(os.path.join(src, "meta.json")))
    except Exception:
        meta = {}
    r = subprocess.run([os.path.join(HERE, "tools", "patch_check.sh"), os.path.join(dst, "patch.diff")], capture_output=True, text=True)
    fired = sorted({l.strip() for l in r.stdout.splitlines() if " key: " in l})
    own = [f for f in fired if f.split()[0] == prop]
    m = {"property": prop, "title": meta.get("title"), "what_it_needs_to_manifest": meta.get("what_it_needs_to_manifest"),
         "files_touched": meta.get("files_touched"), "explanation": meta.get("explanation"), "round": 6,
         "origin": "independent sub-agent given only the property record and a scratch worktree of /repo (nothing from /verif)",
         "confirmed_by_me": {"how": "tools/seed_confirm.sh in a scratch worktree of /repo (removed afterwards): git apply, cargo build --offline, "
                                    "cargo test --workspace --no-fail-fast --offline, demo.sh against the changed binary and against /repo's binary",
                             "result": c},
         "checks_when_it_arrived": {"caught": bool(fired), "caught_by_own_property": bool(own), "by": fired},
         "checks_now": {"how": "tools/patch_check.sh (scratch copy of /repo + patch; ./check Cxx for all 18)", "fired": fired}}
    json.dump(m, open(os.path.join(dst, "meta.json"), "w"), indent=1)
    open(marker, "w").write(dst)
    print("%s -> %s  arrived: %s" % (name, os.path.basename(dst), "caught by own property" if own else ("caught by other property only" if fired else "MISSED")), [f.split(" key: ")[1].split("|")[0] + "(" + f.split()[0] + ")" for f in fired])
