#!/bin/bash
# development helper: one extraction of /repo, all 18 rule tables on it; prints every check that is not "exit 0"
cd /verif; D=.cache/facts/_all; ./tools/extract.sh $D /repo >/dev/null || { echo "extraction failed"; exit 2; }
bad=0; for i in $(seq -w 1 18); do ( out=$(./check C$i --facts $D --no-evidence 2>&1); rc=$?; [ $rc -ne 0 ] && echo "C$i rc=$rc: $(echo "$out" | tail -2 | cut -c1-200)" ) & done; wait; echo "all_quick done"
