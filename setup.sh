#!/bin/bash
# Build the fact extractor and warm the dependency cache. Offline; files on disk only.
set -euo pipefail
cd "$(dirname "$0")"
export CARGO_NET_OFFLINE=true
( cd driver && cargo build --offline 2>&1 | tail -3 )
chmod +x check tools/*.sh
mkdir -p .cache evidence
# warm: compiles /repo's dependency graph once with the nightly toolchain (metadata only)
./tools/extract.sh .cache/facts/_warm /repo >/dev/null
python3 -c "import sys; sys.path.insert(0,'sa'); from facts import Program; p=Program('.cache/facts/_warm'); print('setup ok:', p.stats()['bodies'], 'bodies')"
