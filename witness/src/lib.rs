//! Compile-fail witnesses (E4): type-level facts the MIR rules rely on, as seen by an external
//! user of crate `redo`. Every `compile_fail,E0xxx` block has a compiling twin that differs only
//! in the offending line, so a witness whose path is merely wrong cannot pass.
//! Run with `cargo +nightly test --doc` (error codes are ignored on stable).

/// [C06, C09] `Lock` cannot be duplicated: one Lock value per acquisition.
/// ```compile_fail,E0599
/// fn f(l: redo::Lock) { let _c = l.clone(); }
/// ```
/// ```no_run
/// fn f(l: redo::Lock) { let _c = l; }
/// ```
pub struct LockNotClone;

/// [C06] `Lock::force_owned` is not callable from outside the crate.
/// ```compile_fail,E0624
/// fn f(mut l: redo::Lock) { l.force_owned(); }
/// ```
/// ```no_run
/// fn f(mut l: redo::Lock) { let _ = l.unlock(); }
/// ```
pub struct ForceOwnedPrivate;

/// [C09, C12] `Lock::check` is crate-private (callers go through try_lock / wait_lock).
/// ```compile_fail,E0624
/// fn f(l: redo::Lock) { let _ = l.check(); }
/// ```
/// ```no_run
/// fn f(mut l: redo::Lock) { let _ = l.try_lock(); }
/// ```
pub struct CheckPrivate;

/// [C10, C16] `ProcessTransaction::commit` consumes the transaction.
/// ```compile_fail,E0382
/// fn f(ptx: redo::ProcessTransaction) { let _ = ptx.commit(); let _ = ptx.commit(); }
/// ```
/// ```no_run
/// fn f(ptx: redo::ProcessTransaction) { let _ = ptx.commit(); }
/// ```
pub struct CommitConsumes;

/// [C10, C16] only one transaction can be open on a ProcessState at a time.
/// ```compile_fail,E0499
/// use rusqlite::TransactionBehavior as B;
/// fn f(ps: &mut redo::ProcessState) {
///     let a = redo::ProcessTransaction::new(ps, B::Immediate).unwrap();
///     let b = redo::ProcessTransaction::new(ps, B::Immediate).unwrap();
///     drop(a); drop(b);
/// }
/// ```
/// ```no_run
/// use rusqlite::TransactionBehavior as B;
/// fn f(ps: &mut redo::ProcessState) {
///     let a = redo::ProcessTransaction::new(ps, B::Immediate).unwrap();
///     drop(a);
///     let b = redo::ProcessTransaction::new(ps, B::Immediate).unwrap();
///     drop(b);
/// }
/// ```
pub struct OneTransaction;

/// [C02, C17] run-id / stamp fields of `File` are not writable from outside.
/// ```compile_fail,E0616
/// fn f(f: &mut redo::File) { f.changed_runid = None; }
/// ```
/// ```no_run
/// fn f(f: &mut redo::File) { f.set_checksum(String::new()); }
/// ```
pub struct FileFieldsPrivate;

/// [C10, C16, C17] the single SQL writer is private.
/// ```compile_fail,E0624
/// fn f(ps: &mut redo::ProcessState) { let _ = ps.write("delete from Files", []); }
/// ```
/// ```no_run
/// fn f(ps: &mut redo::ProcessState) { let _ = ps.env(); }
/// ```
pub struct WriterPrivate;

/// [C15] a RedoPath cannot be made from unvalidated data without `unsafe`.
/// ```compile_fail,E0133
/// fn f() -> &'static redo::RedoPath { redo::RedoPath::from_str_unchecked("a\nb") }
/// ```
/// ```no_run
/// fn f() -> &'static redo::RedoPath { unsafe { redo::RedoPath::from_str_unchecked("ab") } }
/// ```
pub struct UncheckedNeedsUnsafe;

/// [C15] the tuple constructor of RedoPathBuf is private.
/// ```compile_fail,E0423
/// fn f() -> redo::RedoPathBuf { redo::RedoPathBuf(std::ffi::OsString::new()) }
/// ```
/// ```no_run
/// fn f() -> redo::RedoPathBuf { redo::RedoPathBuf::new() }
/// ```
pub struct TupleCtorPrivate;

/// [C08] jobs can only be started (and the own token released) from inside the crate.
/// ```compile_fail,E0624
/// fn f(h: &redo::JobServerHandle) { let _ = h.start(String::new(), || 0); }
/// ```
/// ```compile_fail,E0624
/// fn f(h: &redo::JobServerHandle) { let _ = h.release_mine(); }
/// ```
/// ```no_run
/// fn f(h: &redo::JobServerHandle) { let _ = h.clone(); }
/// ```
pub struct StartPrivate;
