"""Canonicalisation of the extracted program against the reference vocabulary.

The rule tables name the repository's own functions, types and fields (`File::zap_deps1`,
`ServerState.my_tokens`, ...): that is what "rules filled from the repository" means.  A maintainer may
rename or move those items, or extract part of a function into a new helper, without changing behaviour.
So that such edits do not make a rule lose its anchor, the program is rewritten *before* any rule
runs into the vocabulary of the reference tree (`sa/reference.json`, written by `tools/mk_reference.py`
from the tree the rule tables were confirmed on):

  1. ADT aliasing      an ADT that is missing is identified with an ADT that is new when their variant /
                       field *type* structure is identical and the match is unique;
  2. field aliasing    fields (and variants) of an identified ADT whose types agree position by position
                       take the reference names;
  3. function aliasing a function that is missing is identified with a new function of identical
                       signature whose body is most similar (callees, fields touched, string constants),
                       uniquely and above a threshold;
  4. helper inlining   a plain (non-async, non-recursive) function that does not exist in the reference
                       and was not identified with a reference function is spliced into its callers (MIR
                       inlining on the fact level, depth <= 4): code moved into a new helper is analysed
                       where it used to be.

Nothing is guessed silently: every decision is recorded in `Program.canon_notes` (evidence
`coverage.canonicalisation`).  When no identification is found the anchor stays missing and the rule
reports exactly what it reported before this layer existed (mechanism missing / cannot decide).
The matching never looks at names of locals, line numbers or source text.
"""
import copy
import json
import os
import re

HERE = os.path.dirname(os.path.abspath(__file__))
REFERENCE = os.path.join(HERE, "reference.json")

_LT = re.compile(r"'[A-Za-z_][A-Za-z0-9_]*\b ?")
_LTGEN = re.compile(r"<(?:'[A-Za-z_][A-Za-z0-9_]*(?:, ?)?)+>")
_SKIP = {"str", "pretty", "line", "macro", "msg", "span", "nonce", "dbg", "vars"}


def _sg(path):
    from facts import strip_generics
    return strip_generics(path)


def norm_ty(t):
    return _LT.sub("", t).replace("&mut ", "&mut ").strip()


def body_sig(b):
    loc = b["locals"]
    return [[norm_ty(x) for x in loc[1:1 + b["arg_count"]]], norm_ty(loc[0])]


def body_feats(b):
    f = set()
    for blk in b["blocks"]:
        for st in blk["stmts"]:
            if st["s"] != "assign":
                continue
            for p in st["place"]["p"]:
                if isinstance(p, str) and p.startswith("f:") and not p.startswith("f:tuple") and not p.startswith("f:core::"):
                    f.add("w" + p)
            _walk_feats(st["rv"], f)
        t = blk["term"]
        if t["t"] == "call":
            c = t.get("resolved") or t.get("callee")
            if c and not t.get("macro"):
                f.add("c:" + _sg(c))
            for a in t.get("args", []):
                _walk_feats(a, f)
    return sorted(f)


def _walk_feats(v, f):
    if isinstance(v, dict):
        if "str" in v and isinstance(v["str"], str) and "ty" in v:
            f.add("s:" + v["str"][:80])
        if "l" in v and "p" in v:
            for p in v["p"]:
                if isinstance(p, str) and p.startswith("f:") and not p.startswith("f:tuple") and not p.startswith("f:core::"):
                    f.add("r" + p)
        for k, x in v.items():
            if k not in _SKIP:
                _walk_feats(x, f)
    elif isinstance(v, list):
        for x in v:
            _walk_feats(x, f)


def adt_shape(a):
    return [a["kind"], [[norm_ty(fl["ty"]) for fl in v["fields"]] for v in a["variants"]]]


def is_plain_fn(b):
    return b["kind"] in ("Fn", "AssocFn") and not b.get("coroutine")


def build_reference(units):
    ref = {"bodies": {}, "adts": {}}
    for u in units.values():
        for b in u["bodies"]:
            k = _sg(b["name"])
            ref["bodies"][k] = {"kind": b["kind"], "sig": body_sig(b), "feats": body_feats(b) if is_plain_fn(b) else [],
                                "coroutine": bool(b.get("coroutine"))}
        for a in u["adts"]:
            ref["adts"][a["name"]] = {"shape": adt_shape(a), "variants": [[v["name"], [[fl["name"], norm_ty(fl["ty"])] for fl in v["fields"]]] for v in a["variants"]]}
    return ref


def load_reference():
    if not os.path.exists(REFERENCE):
        return None
    return json.load(open(REFERENCE))


# ------------------------------------------------------------------------------------------------
# string rewriting

def _rewrite_strings(x, fn):
    if isinstance(x, str):
        return fn(x)
    if isinstance(x, list):
        return [_rewrite_strings(i, fn) for i in x]
    if isinstance(x, dict):
        return {k: (v if k in _SKIP else _rewrite_strings(v, fn)) for k, v in x.items()}
    return x


def _token_rx(names):
    return re.compile(r"(?<![A-Za-z0-9_@])(?<!::)(%s)(?![A-Za-z0-9_])" % "|".join(sorted(map(re.escape, names), key=len, reverse=True)))


# ------------------------------------------------------------------------------------------------
# aliasing

def _jacc(a, b):
    a, b = set(a), set(b)
    if not a and not b:
        return 1.0
    return len(a & b) / float(len(a | b))


def alias_adts(units, ref, notes):
    cur = {}
    for u in units.values():
        for a in u["adts"]:
            cur[a["name"]] = a
    amap = {}
    for _round in range(3):
        missing = [n for n in ref["adts"] if n not in cur and n not in amap.values()]
        unknown = [n for n in cur if n not in ref["adts"] and n not in amap]
        if not missing or not unknown:
            break
        rx = _token_rx(amap.keys()) if amap else None

        def shape_of(n):
            s = adt_shape(cur[n])
            if rx:
                s = _rewrite_strings(s, lambda t: rx.sub(lambda m: amap[m.group(1)], t))
            return json.dumps(s)
        progress = False
        for m in missing:
            want = json.dumps(ref["adts"][m]["shape"])
            cands = [n for n in unknown if n not in amap and shape_of(n) == want]
            # prefer the same module / the same unit
            if len(cands) > 1:
                same = [n for n in cands if n.rsplit("::", 1)[0] == m.rsplit("::", 1)[0]]
                if len(same) == 1:
                    cands = same
            others = [m2 for m2 in missing if m2 != m and json.dumps(ref["adts"][m2]["shape"]) == want and m2.rsplit("::", 1)[0] == m.rsplit("::", 1)[0]]
            if len(cands) == 1 and not others:
                amap[cands[0]] = m
                notes.append("type %s is taken for the reference type %s (same variant/field types, unique)" % (cands[0], m))
                progress = True
        if not progress:
            break
    return amap


def alias_fields(units, ref, notes):
    """After ADT aliasing: per ADT, rename fields / variants whose reference counterpart (same position,
    same type) carries another name.  Returns {projection-string-new: projection-string-old} and
    {adt: {newfield: oldfield}}."""
    pmap = {}
    fmap = {}
    for u in units.values():
        for a in u["adts"]:
            r = ref["adts"].get(a["name"])
            if not r or len(r["variants"]) != len(a["variants"]):
                continue
            multi = len(a["variants"]) > 1 or a["kind"] != "Struct"
            for v, (rvn, rfields) in zip(a["variants"], r["variants"]):
                if len(v["fields"]) != len(rfields):
                    continue
                if [norm_ty(f["ty"]) for f in v["fields"]] != [t for _, t in rfields]:
                    continue
                vn_new = v["name"]
                if multi and vn_new != rvn:
                    # variant renamed (same position, same payload types)
                    if rvn in [x["name"] for x in a["variants"]]:
                        continue
                    pmap["as:" + vn_new] = "as:" + rvn   # (downcast projections carry the bare variant name)
                    notes.append("variant %s::%s is taken for the reference variant %s" % (a["name"], vn_new, rvn))
                    fmap.setdefault(a["name"], {})["#variant:" + vn_new] = rvn
                for f, (rfn, _) in zip(v["fields"], rfields):
                    if f["name"] != rfn:
                        if rfn in [x["name"] for x in v["fields"]]:
                            continue   # a swap, not a rename: leave alone
                        pre_new = "f:%s%s." % (a["name"], ("::" + vn_new) if multi else "")
                        pre_old = "f:%s%s." % (a["name"], ("::" + rvn) if multi else "")
                        pmap[pre_new + f["name"]] = pre_old + rfn
                        fmap.setdefault(a["name"], {})[f["name"]] = rfn
                        notes.append("field %s.%s is taken for the reference field %s" % (a["name"], f["name"], rfn))
                if multi and vn_new != rvn:
                    for f, (rfn, _) in zip(v["fields"], rfields):
                        pmap["f:%s::%s.%s" % (a["name"], vn_new, f["name"])] = "f:%s::%s.%s" % (a["name"], rvn, rfn)
    return pmap, fmap


def _apply_field_alias(units, pmap, fmap):
    if not pmap and not fmap:
        return

    def walk(v):
        if isinstance(v, dict):
            if v.get("k") == "agg" and v.get("agg") == "adt" and v.get("adt") in fmap:
                fm = fmap[v["adt"]]
                if "#variant:" + str(v.get("variant")) in fm:
                    v["variant"] = fm["#variant:" + v["variant"]]
                if "fields" in v:
                    v["fields"] = [fm.get(x, x) for x in v["fields"]]
            if "l" in v and "p" in v and isinstance(v["p"], list):
                v["p"] = [pmap.get(p, p) if isinstance(p, str) else p for p in v["p"]]
            if "enum_variants" in v and isinstance(v["enum_variants"], list) and v["enum_variants"]:
                for fm in fmap.values():
                    for ev in v["enum_variants"]:
                        if isinstance(ev, list) and len(ev) == 2 and "#variant:" + str(ev[1]) in fm:
                            ev[1] = fm["#variant:" + ev[1]]
            for k, x in v.items():
                if k not in _SKIP:
                    walk(x)
        elif isinstance(v, list):
            for x in v:
                walk(x)
    for u in units.values():
        for b in u["bodies"]:
            walk(b["blocks"])
        for a in u["adts"]:
            fm = fmap.get(a["name"])
            if fm:
                for v in a["variants"]:
                    if "#variant:" + v["name"] in fm:
                        v["name"] = fm["#variant:" + v["name"]]
                    for f in v["fields"]:
                        f["name"] = fm.get(f["name"], f["name"])


def alias_fns(units, ref, notes, relaxed=False, have=None):
    cur = {}
    for u in units.values():
        for b in u["bodies"]:
            cur[_sg(b["name"])] = b
    fmap = dict(have or {})        # new key -> reference key
    n0 = len(fmap)

    def akey(k):
        for n, o in fmap.items():
            if k == n or k.startswith(n + "::"):
                return o + k[len(n):]
        return k
    for rnd in range(4):
        missing = [k for k, r in ref["bodies"].items() if r["kind"] in ("Fn", "AssocFn") and not r["coroutine"] and k not in cur and k not in fmap.values()]
        unknown = [k for k, b in cur.items() if is_plain_fn(b) and k not in ref["bodies"] and k not in fmap]
        if not missing or not unknown:
            break
        ufe = {}
        for k in unknown:
            ufe[k] = (json.dumps(body_sig(cur[k])), {("c:" + akey(x[2:])) if x.startswith("c:") else x for x in body_feats(cur[k])})
        pairs = []
        for m in missing:
            r = ref["bodies"][m]
            ms = json.dumps(r["sig"])
            mf = set(r["feats"])
            # same enclosing module / impl counts for a little: it separates siblings with identical bodies
            # (`sources::run` / `targets::run` renamed alike)
            par = m.rsplit("::", 1)[0]
            cands = [(k, _jacc(mf, ufe[k][1]) + (0.2 if akey(k).rsplit("::", 1)[0] == par else 0.0)) for k in unknown if ufe[k][0] == ms or relaxed]
            for k, s in cands:
                pairs.append((s, m, k, len(cands)))
        pairs.sort(key=lambda x: -x[0])
        thr = [0.75, 0.6, 0.45, 0.3][rnd]
        used_m, used_k = set(), set()
        progress = False
        for s, m, k, nc in pairs:
            if m in used_m or k in used_k:
                continue
            rivals_m = [p for p in pairs if p[1] == m and p[2] != k and p[2] not in used_k]
            rivals_k = [p for p in pairs if p[2] == k and p[1] != m and p[1] not in used_m]
            best_rival = max([p[0] for p in rivals_m + rivals_k] or [0.0])
            if relaxed:
                # the signature changed too (parameters bundled into a struct, a free fn turned into a method):
                # only a clear, unrivalled body match is accepted
                ok = s >= 0.62 and s - best_rival >= 0.25
            else:
                ok = (s >= thr and s - best_rival >= 0.15) or (s >= 0.2 and not rivals_m and not rivals_k)
            if ok:
                fmap[k] = m
                used_m.add(m)
                used_k.add(k)
                progress = True
                notes.append("function %s is taken for the reference function %s (%s, body similarity %.2f%s)" % (k, m, "signature changed" if relaxed else "same signature", min(s, 1.0) if s <= 1.0 else s - 0.2, ", same parent" if s > 1.0 or akey(k).rsplit("::", 1)[0] == m.rsplit("::", 1)[0] else ""))
        if not progress and rnd >= 1:
            break
    return fmap


# ------------------------------------------------------------------------------------------------
# inlining of helpers that do not exist in the reference

_TARGET_KEYS = ("target", "unwind", "otherwise", "resume", "drop")


def _shift(v, loff):
    """Deep copy with every local index shifted by loff."""
    if isinstance(v, dict):
        out = {}
        for k, x in v.items():
            if k == "l" and isinstance(x, int) and "p" in v:
                out[k] = x + loff
            elif k == "p" and isinstance(x, list) and "l" in v:
                out[k] = [("index:%d" % (int(e[6:]) + loff)) if isinstance(e, str) and e.startswith("index:") else e for e in x]
            else:
                out[k] = _shift(x, loff)
        return out
    if isinstance(v, list):
        return [_shift(x, loff) for x in v]
    return v


_TY_KEYS = ("ty", "src_ty", "indirect")


def rx_sub_all(x, sub):
    if not isinstance(x, str):
        return x
    for rx, ty in sub:
        x = rx.sub(lambda m_: ty, x)
    return x


def _subst_types(v, sub):
    """Deep copy of a fact value with the type-parameter names of a spliced generic helper replaced, in type-bearing
    fields only, by the type arguments of the call it was spliced at (`parse_field::<i32>` -> T := i32)."""
    def st(x):
        for rx, ty in sub:
            x = rx.sub(lambda m_: ty, x)
        return x
    if isinstance(v, dict):
        out = {}
        for k, x in v.items():
            if k in _TY_KEYS and isinstance(x, str):
                out[k] = st(x)
            elif k == "arg_tys" and isinstance(x, list):
                out[k] = [st(y) if isinstance(y, str) else y for y in x]
            else:
                out[k] = _subst_types(x, sub)
        return out
    if isinstance(v, list):
        return [_subst_types(x, sub) for x in v]
    return v


def _inline_one(B, bb, H):
    """Splice H's blocks into B at the call terminating block bb."""
    t = B["blocks"][bb]["term"]
    loff = len(B["locals"])
    boff = len(B["blocks"])
    # type arguments of this call for the helper's type parameters (both lists hold types only, in declaration order)
    tps = H.get("tparams") or []
    gts = [g.get("ty") for g in (t.get("gargs") or [])]
    sub = []
    if tps and len(tps) == len(gts):
        for nm, ty in zip(tps, gts):
            if isinstance(ty, str) and nm != ty and re.fullmatch(r"[A-Za-z_][A-Za-z0-9_]*", nm):
                sub.append((re.compile(r"(?<![A-Za-z0-9_:])%s(?![A-Za-z0-9_])" % re.escape(nm)), ty))
    if sub:
        H = dict(H)
        H["locals"] = [rx_sub_all(x, sub) for x in H["locals"]]
        H["blocks"] = _subst_types(H["blocks"], sub)
    B["locals"] = B["locals"] + list(H["locals"])
    for nm, pl in H.get("vars", []):
        B["vars"].append([nm, _shift(pl, loff)])
    line = t.get("line", "?")
    # parameter passing
    pre = []
    for i, a in enumerate(t.get("args", [])):
        if i >= H["arg_count"]:
            break
        pre.append({"s": "assign", "place": {"l": 1 + i + loff, "p": []}, "rv": {"k": "use", "op": copy.deepcopy(a)}, "line": line, "inl": True})
    ret_target = t.get("target")
    unwind = t.get("unwind")
    dest = t.get("dest")
    for hb in H["blocks"]:
        nb = _shift(hb, loff)
        nt = nb["term"]
        for k in _TARGET_KEYS:
            if k in nt and isinstance(nt[k], int):
                nt[k] = nt[k] + boff
        if "arms" in nt:
            nt["arms"] = [[v, tg + boff] for v, tg in nt["arms"]]
        if nt["t"] == "return":
            if dest is not None:
                nb["stmts"].append({"s": "assign", "place": copy.deepcopy(dest), "rv": {"k": "use", "op": {"move": {"l": loff, "p": []}}}, "line": nt.get("line", line), "inl": True})
            if ret_target is not None:
                nb["term"] = {"t": "goto", "target": ret_target, "line": nt.get("line", line)}
            else:
                nb["term"] = {"t": "unreachable", "line": nt.get("line", line)}
        elif nt["t"] == "resume" and unwind is not None:
            nb["term"] = {"t": "goto", "target": unwind, "line": nt.get("line", line)}
        B["blocks"].append(nb)
    B["blocks"][bb]["stmts"] = B["blocks"][bb]["stmts"] + pre
    B["blocks"][bb]["term"] = {"t": "goto", "target": boff, "line": line, "inlined": _sg(H["name"]), "inl_args": copy.deepcopy(t.get("args", []))}


def _refs_outside_calls(units, key):
    """Is `key` referenced as a value (fn pointer / generic argument) anywhere?"""
    hit = [False]

    def walk(v):
        if hit[0]:
            return
        if isinstance(v, dict):
            for k, x in v.items():
                if k in ("fn", "def") and isinstance(x, str) and _sg(x) == key:
                    hit[0] = True
                elif k == "src_fns" and any(_sg(s) == key for s in x):
                    hit[0] = True
                elif k == "ty" and isinstance(x, str) and "fn item" in x and key in x:
                    hit[0] = True
                elif k not in _SKIP:
                    walk(x)
        elif isinstance(v, list):
            for x in v:
                walk(x)
    for u in units.values():
        for b in u["bodies"]:
            walk(b["blocks"])
    return hit[0]


def inline_new_helpers(units, ref, fn_alias, notes, max_depth=4):
    cur = {}
    owner = {}
    for un, u in units.items():
        for b in u["bodies"]:
            cur[_sg(b["name"])] = b
            owner[_sg(b["name"])] = un
    refkeys = set(ref["bodies"])

    def is_new(k):
        if k in refkeys or k in fn_alias:
            return False
        b = cur.get(k)
        return b is not None and is_plain_fn(b)
    new = {k for k in cur if is_new(k)}
    if not new:
        return

    def callees(b):
        out = []
        for i, blk in enumerate(b["blocks"]):
            t = blk["term"]
            if t["t"] == "call" and t.get("resolved"):
                out.append((i, _sg(t["resolved"])))
        return out
    # recursion check among the new helpers
    def reaches_self(k, stops=frozenset()):
        seen, st = set(), [k]
        while st:
            x = st.pop()
            for _, c in callees(cur[x]):
                if c == k:
                    return True
                if c in new and c not in seen and c not in stops:
                    seen.add(c)
                    st.append(c)
        return False
    rec = {k for k in new if reaches_self(k)}
    # a recursive routine that was split into a recursive entry plus helpers (entry -> helper -> entry): the entry is
    # the member called from outside the new code; the recursion is cut there and the other members are spliced in
    roots = {k for k in rec if any(c == k for kk, b in cur.items() if kk not in new for _, c in callees(b))}
    inl = {k for k in new if k not in roots and not reaches_self(k, stops=roots)}
    for r in sorted(roots):
        notes.append("new recursive routine %s: its new helpers are spliced into it, the recursion stays a call" % r)
    inlined_into = {}
    for _depth in range(max_depth):
        changed = False
        for k, b in list(cur.items()):
            for bb, c in callees(b):
                if c in inl and c != k:
                    _inline_one(b, bb, cur[c])
                    inlined_into.setdefault(c, set()).add(k)
                    changed = True
        if not changed:
            break
    # drop helpers that now live in their callers
    for k in sorted(inlined_into):
        still_called = any(c == k for kk, b in cur.items() if kk != k for _, c in callees(b))
        if still_called or _refs_outside_calls(units, k):
            notes.append("new helper %s inlined into %s (kept as a body of its own: still referenced)" % (k, ", ".join(sorted(inlined_into[k]))))
            continue
        u = units[owner[k]]
        u["bodies"] = [b for b in u["bodies"] if _sg(b["name"]) != k]
        notes.append("new helper %s (not in the reference tree) inlined into %s" % (k, ", ".join(sorted(inlined_into[k]))))


# ------------------------------------------------------------------------------------------------

def canonicalise(units):
    """Rewrite the raw unit dicts in place. Returns (fn_alias {new key: reference key}, notes)."""
    notes = []
    ref = load_reference()
    if ref is None:
        return {}, ["no reference vocabulary (sa/reference.json): canonicalisation skipped"]
    amap = alias_adts(units, ref, notes)
    if amap:
        rx = _token_rx(amap.keys())
        for un in list(units):
            units[un] = _rewrite_strings(units[un], lambda s: rx.sub(lambda m: amap[m.group(1)], s))
    pmap, fmap = alias_fields(units, ref, notes)
    _apply_field_alias(units, pmap, fmap)
    fn_alias = alias_fns(units, ref, notes)
    import facts
    facts.set_alias(fn_alias)
    inline_new_helpers(units, ref, fn_alias, notes)
    # second pass, after splicing: a routine whose signature changed as well is recognised by its (now complete) body
    facts.set_alias({})
    fn_alias2 = alias_fns(units, ref, notes, relaxed=True, have=fn_alias)
    facts.set_alias(fn_alias2)
    if len(fn_alias2) > len(fn_alias):
        inline_new_helpers(units, ref, fn_alias2, notes)
    return fn_alias2, notes
