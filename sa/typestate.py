"""Typestate analysis for `state::Lock` values (template TS(Lock) of DESIGN section 3).

Abstract state of one tracked lock object = subset of {"U" (not owned), "O" (owned)}.
Obligations (preconditions) are *derived from the callee bodies' own assertions*: a method whose
body panics when `self.owned` is false requires {"O"}; one that panics when it is true requires
{"U"}. The analysis is a forward may-analysis over the normal-flow CFG with edge refinement on
`is_owned()` tests and on the Ok/Err outcome of `?`.
"""
import re
from collections import deque

from core import BA, call_matches, callee_paths, op_local, op_place, place_fields

LOCK = "state::Lock"
M_TRY = re.compile(r"state::Lock::try_lock")
M_WAIT = re.compile(r"state::Lock::wait_lock")
M_UNLOCK = re.compile(r"state::Lock::unlock")
M_CHECK = re.compile(r"state::Lock::check")
M_FORCE = re.compile(r"state::Lock::force_owned")
M_ISOWNED = re.compile(r"state::Lock::is_owned")
M_NEW = re.compile(r"state::ProcessState::new_lock|state::Lock::new")
M_ANY = re.compile(r"state::Lock::[a-z_]+")


def derive_preconditions(prog):
    """{method_key: required_state or None} read from the callee bodies' assertions on
    `self.owned`; methods that call another Lock method first inherit nothing (only own asserts)."""
    req = {}
    for b in prog.find(r"state::Lock::[a-z_]+"):
        ba = BA.of(b)
        need = None
        for i in sorted(ba.live):
            bs = ba.bool_switch(i)
            if bs is None:
                continue
            t_t, f_t, (kind, info) = bs
            if kind != "place":
                continue
            fs = place_fields(info)
            if not fs or fs[-1] != "state::Lock.owned" or info["l"] != 1:
                continue
            # only assertions made before any other effect: the switch must dominate all fcntl calls

            def panics(bb):
                # edge target leads straight (within 3 blocks, no branching) to a panic call
                cur = bb
                for _ in range(6):
                    t = b.blocks[cur]["term"]
                    if t["t"] == "call":
                        if any(re.match(r"core::panicking::|std::rt::begin_panic|core::panicking::assert_failed", p) for p in callee_paths(t)):
                            return True
                        if "target" not in t:
                            return False
                        cur = t["target"]
                        continue
                    if t["t"] == "goto":
                        cur = t["target"]
                        continue
                    return False
                return False
            if panics(f_t) and not panics(t_t):
                need = "O"
            elif panics(t_t) and not panics(f_t):
                need = "U"
        req[b.key] = need
    return req


class LockTS:
    def __init__(self, prog, body, tracked_locals, entry_state=None, preconds=None, single_object=False):
        """tracked_locals: locals that *are* the lock (type Lock) or a `&mut Lock` to the one
        tracked object. entry_state: state at bb0 (for objects that exist on entry)."""
        self.prog = prog
        self.b = body
        self.ba = BA.of(body)
        self.tracked = set(tracked_locals)
        self.single_object = single_object
        if single_object:
            # every Lock-typed value or reference in this body denotes the one tracked object
            for i, ty in enumerate(body.locals):
                if ty in (LOCK, "&mut " + LOCK, "&" + LOCK):
                    self.tracked.add(i)
        self.entry_state = entry_state
        self.pre = preconds if preconds is not None else derive_preconditions(prog)
        self._alias()
        self.in_state = {}
        self._ev = {}
        self._run()
        self.events = [(bb, kind, st, det) for (bb, kind, det), st in sorted(self._ev.items(), key=lambda x: (x[0][0], x[0][1]))]

    def _alias(self):
        # whole-local moves of the tracked object create aliases (let lock = self.lock; _t = move lock)
        changed = True
        while changed:
            changed = False
            for blk in self.b.blocks:
                for s in blk["stmts"]:
                    if s["s"] != "assign" or s["place"]["p"]:
                        continue
                    rv = s["rv"]
                    if rv["k"] == "use":
                        p = op_place(rv["op"])
                        if p and not p["p"] and p["l"] in self.tracked and s["place"]["l"] not in self.tracked:
                            self.tracked.add(s["place"]["l"])
                            changed = True

    def is_recv(self, t):
        """Does call `t` take the tracked object as its receiver (args[0], by ref)?"""
        if not t["args"]:
            return False
        l = op_local(t["args"][0])
        if l is None:
            return False
        if l in self.tracked:
            return True
        return any(x in self.tracked for x in self.ba.ref_chain(l))

    def _escapes(self, blk):
        """By-value uses of the tracked object in this block: [(kind, detail)]."""
        out = []
        for s in blk["stmts"]:
            if s["s"] != "assign":
                continue
            rv = s["rv"]
            if rv["k"] == "agg":
                for o in rv["ops"]:
                    if "move" in o and not o["move"]["p"] and o["move"]["l"] in self.tracked:
                        out.append(("agg", rv.get("adt") or rv.get("def") or rv["agg"]))
        t = blk["term"]
        if t["t"] == "call":
            for a in t["args"]:
                if "move" in a and not a["move"]["p"] and a["move"]["l"] in self.tracked:
                    # by-value pass of the Lock itself (not a reference)
                    aty = t["arg_tys"][t["args"].index(a)] if "arg_tys" in t else ""
                    if aty == LOCK:
                        out.append(("callarg", callee_paths(t)[0] if callee_paths(t) else "?"))
        return out

    def _run(self):
        b, ba = self.b, self.ba
        # creation points
        starts = {}
        if self.entry_state is not None:
            starts[0] = set(self.entry_state)
        work = deque()
        for i in sorted(ba.live):
            t = b.blocks[i]["term"]
            if t["t"] == "call" and call_matches(t, M_NEW) and not t["dest"]["p"] and t["dest"]["l"] in self.tracked and "target" in t:
                self.creations = getattr(self, "creations", []) + [i]
                # state after creation
                self._flow(t["target"], {"U"}, work)
        if 0 in starts:
            self._flow(0, starts[0], work)
        # refinement tables
        self.sw_isowned = {}
        for (sw, t_t, f_t, cbb) in ba.switches_on_call(M_ISOWNED):
            if self.is_recv(b.blocks[cbb]["term"]):
                self.sw_isowned[sw] = (t_t, f_t)
        self.try_of = {}    # switch bb (after Try::branch) -> (call term, cont, brk)
        for (br, brk, cont, src) in ba.try_sites():
            if src is None:
                continue
            cbb, ct = src
            if call_matches(ct, M_ANY) and self.is_recv(ct):
                sw = b.blocks[br]["term"].get("target")
                self.try_of[sw] = (ct, cont, brk)
        # `if let Some(..) = container.as_mut()` on the Option that holds the tracked lock: the object
        # exists iff the container is Some, so the not-Some edge carries no lock state
        self.kill_edges = set()
        if self.single_object:
            for sw in sorted(ba.live):
                es = ba.enum_switch(sw)
                if not es:
                    continue
                place, arms, other = es
                d = ba.single_def(place["l"])
                if not d or d[0] != "call" or not call_matches(d[2], r"core::option::Option::(as_mut|as_ref)"):
                    continue
                chain = ba.ref_chain(op_local(d[2]["args"][0]))
                if any(b.locals[x].startswith("core::option::Option<") and LOCK in b.locals[x] for x in chain):
                    for s in b.succ(sw):
                        if s != arms.get(1):
                            self.kill_edges.add((sw, s))
        self.pending_result = {}
        while work:
            bb = work.popleft()
            st = set(self.in_state[bb])
            blk = b.blocks[bb]
            esc = self._escapes(blk)
            t = blk["term"]
            out_default = set(st)
            ok_state = err_state = None
            if esc and not self.single_object:
                for kind, det in esc:
                    self._ev[(bb, "escape", det)] = frozenset(st)
                # object moved away: stop tracking along this path
                continue
            if t["t"] == "call" and self.is_recv(t) and call_matches(t, M_ANY):
                name = [p for p in callee_paths(t) if M_ANY.fullmatch(p)][0]
                need = self.pre.get(name)
                self._ev[(bb, "call", name)] = frozenset(st)
                if need is not None and not st <= {need}:
                    self._ev[(bb, "precondition", (name, need))] = frozenset(st)
                if M_TRY.fullmatch(name):
                    ok_state, err_state = {"U", "O"}, {"U"}
                elif M_WAIT.fullmatch(name):
                    ok_state, err_state = {"O"}, {"U"}
                elif M_UNLOCK.fullmatch(name):
                    ok_state, err_state = {"U"}, {"O"}
                elif M_FORCE.fullmatch(name):
                    ok_state = err_state = {"O"}
                else:
                    ok_state = err_state = set(st)
                out_default = ok_state | err_state
                if "target" in t:
                    self.pending_result[t["target"]] = (ok_state, err_state)
            if t["t"] == "drop":
                pl = t["place"]
                if not pl["p"] and pl["l"] in self.tracked and t["ty"] == LOCK and not self.single_object:
                    self._ev[(bb, "drop", "")] = frozenset(st)
                    # after the drop the object is gone on this path
                    continue
            # successors with refinement
            if bb in self.sw_isowned:
                t_t, f_t = self.sw_isowned[bb]
                self._flow(t_t, st & {"O"}, work)
                self._flow(f_t, st & {"U"}, work)
                continue
            if bb in self.try_of:
                ct, cont, brk = self.try_of[bb]
                name = [p for p in callee_paths(ct) if M_ANY.fullmatch(p)][0]
                if M_TRY.fullmatch(name):
                    oks, errs = st & {"U", "O"}, st & {"U"}
                elif M_WAIT.fullmatch(name):
                    oks, errs = st & {"O"}, st & {"U"}
                elif M_UNLOCK.fullmatch(name):
                    oks, errs = st & {"U"}, st & {"O"}
                else:
                    oks = errs = st
                for s in b.succ(bb):
                    if s == cont:
                        self._flow(s, oks, work)
                    elif s == brk:
                        self._flow(s, errs, work)
                    else:
                        self._flow(s, st, work)
                continue
            for s in b.succ(bb):
                if (bb, s) in self.kill_edges:
                    continue
                self._flow(s, out_default, work)

    def _flow(self, bb, st, work):
        if not st:
            return
        cur = self.in_state.get(bb)
        if cur is None:
            self.in_state[bb] = set(st)
            work.append(bb)
        elif not st <= cur:
            cur |= st
            work.append(bb)

    def state_at(self, bb):
        return self.in_state.get(bb)
