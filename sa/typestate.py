"""Typestate analysis for `state::Lock` values (template TS(Lock) of DESIGN section 3).

Abstract state of one tracked lock object = subset of {"U" (not owned), "O" (owned)}.
Obligations (preconditions) are *derived from the callee bodies' own assertions*: a method whose
body panics when `self.owned` is false requires {"O"}; one that panics when it is true requires
{"U"}. The analysis is a forward may-analysis over the normal-flow CFG with edge refinement on
`is_owned()` tests and on the Ok/Err outcome of `?`.

The dataflow fact is a pair (lock state, result tag): the tag remembers, for the one `Result` /
`ControlFlow` value defined last on the path, which variant it holds (`Ok{..}` / `Err{..}` aggregates,
`from_residual`, moves, `Try::branch`, `map_err`). A later switch on the discriminant of exactly that local
follows only the matching arm. This keeps the two exits of a block that computes a Result (an inlined helper's
`return Err(..)` / `Ok(..)`, `let r = {..}; r?`) apart where they join before the caller's `?`: without it
the error exit would appear to continue on the success side with the lock state of the failure.
"""
import re
from collections import deque

from core import BA, call_matches, callee_paths, op_local, op_place, place_fields

LOCK = "state::Lock"
M_TRY = re.compile(r"state::Lock::try_lock")
M_WAIT = re.compile(r"state::Lock::wait_lock")
M_UNLOCK = re.compile(r"state::Lock::unlock")
M_CHECK = re.compile(r"state::Lock::check")
M_FORCE = re.compile(r"state::Lock::force_owned")
M_ISOWNED = re.compile(r"state::Lock::is_owned")
M_NEW = re.compile(r"state::ProcessState::new_lock|state::Lock::new")
M_ANY = re.compile(r"state::Lock::[a-z_]+")


def derive_preconditions(prog):
    """{method_key: required_state or None} read from the callee bodies' assertions on
    `self.owned`; methods that call another Lock method first inherit nothing (only own asserts)."""
    req = {}
    own = ownership_fields(prog)
    from core import field_writes
    own_rx = "|".join(re.escape(f) for f in sorted(own))
    for b in prog.find(r"state::Lock::[a-z_]+"):
        ba = BA.of(b)
        need = None
        changed = [bb for bb, _, _ in field_writes(b, own_rx)]
        for i in sorted(ba.live):
            bs = ba.bool_switch(i)
            if bs is None:
                continue
            # a precondition is about the state on entry: a test made after the method changed the ownership
            # (a closing `debug_assert!(!self.is_owned())`) states a postcondition
            if any(ba.path([w], [i], incl=True) is not None for w in changed):
                continue
            t_t, f_t, (kind, info) = bs
            # the asserted condition is "self is owned": the ownership field of `self` read directly, or the
            # public observer is_owned() applied to `self`
            if kind == "place":
                fs = place_fields(info)
                if not fs or fs[-1] not in own or info["l"] != 1:
                    continue
            elif kind == "call":
                ct = info[1]
                if b.key == "state::Lock::is_owned" or not call_matches(ct, M_ISOWNED) or not ct["args"]:
                    continue
                if 1 not in ba.ref_chain(op_local(ct["args"][0])):
                    continue
            else:
                continue
            # only assertions made before any other effect: the switch must dominate all fcntl calls

            def panics(bb):
                # edge target leads straight (within 3 blocks, no branching) to a panic call
                cur = bb
                for _ in range(6):
                    t = b.blocks[cur]["term"]
                    if t["t"] == "call":
                        if any(re.match(r"core::panicking::|std::rt::begin_panic|core::panicking::assert_failed", p) for p in callee_paths(t)):
                            return True
                        if "target" not in t:
                            return False
                        cur = t["target"]
                        continue
                    if t["t"] == "goto":
                        cur = t["target"]
                        continue
                    return False
                return False
            if panics(f_t) and not panics(t_t):
                need = "O"
            elif panics(t_t) and not panics(f_t):
                need = "U"
        req[b.key] = need
    return req


def ownership_fields(prog):
    """Canonical names of the fields of state::Lock that hold "this process owns the lock": the fields of `self`
    that the observer Lock::is_owned reads (today the bool `owned`; a refactor may keep the same fact in an enum)."""
    out = {"state::Lock.owned"}
    for b in prog.find(r"state::Lock::is_owned"):
        ba = BA.of(b)
        for i in sorted(ba.live):
            blk = b.blocks[i]
            for s in blk["stmts"]:
                if s["s"] != "assign":
                    continue
                rv = s["rv"]
                ps = [op_place(rv.get("op"))] if rv["k"] == "use" else ([rv["place"]] if rv["k"] in ("ref", "discr") else [])
                for p in ps:
                    if p is not None and 1 in ba.ref_chain(p["l"]):
                        fs = place_fields(p)
                        if fs and fs[-1].startswith(LOCK + "."):
                            out.add(fs[-1])
    return out


def contains_lock(prog, ty, depth=4):
    """Does a value of type `ty` hold a state::Lock by value: named in the type itself (tuple / generic
    argument) or, through the ADT table, in a field of a struct/enum mentioned in it?"""
    if LOCK in ty:
        return True
    if depth <= 0:
        return False
    for name, a in prog.adts.items():
        if name in ty and re.search(r"(?<![A-Za-z0-9_:])%s(?![A-Za-z0-9_])" % re.escape(name), ty):
            for v in a["variants"]:
                for f in v["fields"]:
                    if f["ty"] != ty and contains_lock(prog, f["ty"], depth - 1):
                        return True
    return False


def place_type(prog, body, place):
    """Type of a place, as far as it can be read off the local's type and the ADT table: the local's type for an
    unprojected place; the declared type of the last field for `X.f` (generic parameters are not substituted,
    which is enough to recognise `Option<..Lock..>` fields of the repository's own structs). None if unknown."""
    proj = [e for e in place["p"]]
    if not proj:
        return body.locals[place["l"]]
    last = proj[-1]
    if last == "deref":
        inner = place_type(prog, body, {"l": place["l"], "p": proj[:-1]})
        if inner is None:
            return None
        if inner.startswith("&mut "):
            return inner[5:]
        if inner.startswith("&"):
            return inner[1:]
        return None
    if last.startswith("f:"):
        adt, _, fname = last[2:].rpartition(".")
        a = prog.adts.get(adt)
        if a is None and "::" in adt:
            # enum variant field: 'Type::Variant.field'
            a = prog.adts.get(adt.rsplit("::", 1)[0])
        if a is None:
            return None
        for v in a["variants"]:
            for f in v["fields"]:
                if f["name"] == fname:
                    return f["ty"]
    return None


RESULT_ADT = "core::result::Result"
M_RESIDUAL = re.compile(r"(<.* as )?core::ops::try_trait::FromResidual(<.*>)?>?::from_residual")
M_BRANCH = re.compile(r"(<.* as )?core::ops::try_trait::Try>?::branch")
M_MAPERR = re.compile(r"core::result::Result::map_err")


class LockTS:
    def __init__(self, prog, body, tracked_locals, entry_state=None, preconds=None, single_object=False, exclude=(), starts=None, lends=()):
        """tracked_locals: locals that *are* the lock (type Lock) or a `&mut Lock` to the one
        tracked object. entry_state: state at bb0 (for objects that exist on entry).
        exclude (single_object mode): lock locals that are objects of their own (created and dropped in this
        body, never stored in the container); they and the references to them are not the tracked object."""
        self.prog = prog
        self.b = body
        self.ba = BA.of(body)
        self.tracked = set(tracked_locals)
        self.single_object = single_object
        if single_object:
            # every Lock-typed value or reference in this body denotes the one tracked object
            ex = set(exclude)
            for i, ty in enumerate(body.locals):
                if ty in (LOCK, "&mut " + LOCK, "&" + LOCK):
                    if i in ex or (ex and any(x in ex for x in self.ba.ref_chain(i))):
                        continue
                    self.tracked.add(i)
        self.entry_state = entry_state
        # starts: {block: state} points where the tracked object comes into this body with a known state (a lock
        # handed over by a coroutine that was awaited: its state where that coroutine returned it)
        self.starts = dict(starts or {})
        # lends: the tracked object is lent (`&mut`) to a coroutine that is awaited in place; each entry
        # {"ctor": block of the call that builds the coroutine, "poll": block of its poll, "ok" / "err": lock states in
        # which the coroutine completes with Ok / Err} - the summary computed by lockts_with_lends from that coroutine's body
        self.lends = {l["ctor"]: l for l in lends}
        self.pre = preconds if preconds is not None else derive_preconditions(prog)
        self._alias()
        self.in_state = {}      # bb -> lock states (all tags)
        self.in_tagged = {}     # bb -> {result tag: lock states}
        self._ev = {}
        self._run()
        self.events = [(bb, kind, st, det) for (bb, kind, det), st in sorted(self._ev.items(), key=lambda x: (x[0][0], x[0][1]))]

    def _alias(self):
        # whole-local moves of the tracked object create aliases (let lock = self.lock; _t = move lock)
        self.moved_out = {}
        changed = True
        while changed:
            changed = False
            for bi, blk in enumerate(self.b.blocks):
                for s in blk["stmts"]:
                    if s["s"] != "assign" or s["place"]["p"]:
                        continue
                    rv = s["rv"]
                    if rv["k"] == "use":
                        p = op_place(rv["op"])
                        if p and not p["p"] and p["l"] in self.tracked and "move" in rv["op"]:
                            # (the source local is dead after the move: its later scope-end drop is a no-op)
                            if bi not in self.moved_out.setdefault(p["l"], []):
                                self.moved_out[p["l"]].append(bi)
                        if p and not p["p"] and p["l"] in self.tracked and s["place"]["l"] not in self.tracked:
                            self.tracked.add(s["place"]["l"])
                            changed = True

    def is_recv(self, t):
        """Does call `t` take the tracked object as its receiver (args[0], by ref)?"""
        if not t["args"]:
            return False
        l = op_local(t["args"][0])
        if l is None:
            return False
        if l in self.tracked:
            return True
        return any(x in self.tracked for x in self.ba.ref_chain(l))

    def _lent_here(self, blk):
        """Is the tracked object handed (by reference) to the coroutine built in this block: as an argument of the
        constructor call, or as an operand of the coroutine aggregate when the constructor was inlined?"""
        t = blk["term"]
        if t["t"] == "call" and self.passes(t):
            return True
        for s in blk["stmts"]:
            if s["s"] == "assign" and s["rv"]["k"] == "agg" and s["rv"].get("agg") == "coroutine":
                if self.passes({"args": s["rv"].get("ops", [])}):
                    return True
        return False

    def passes(self, t):
        """Does call `t` receive a reference to the tracked object in any argument position?"""
        for a in t.get("args", []):
            l = op_local(a)
            if l is None:
                continue
            if l in self.tracked or any(x in self.tracked for x in self.ba.ref_chain(l)):
                return True
        return False

    def _escapes(self, blk):
        """By-value uses of the tracked object in this block: [(kind, detail)]."""
        out = []
        for s in blk["stmts"]:
            if s["s"] != "assign":
                continue
            rv = s["rv"]
            if rv["k"] == "agg":
                for o in rv["ops"]:
                    if "move" in o and not o["move"]["p"] and o["move"]["l"] in self.tracked:
                        out.append(("agg", rv.get("adt") or rv.get("def") or rv["agg"]))
        t = blk["term"]
        if t["t"] == "call":
            for a in t["args"]:
                if "move" in a and not a["move"]["p"] and a["move"]["l"] in self.tracked:
                    # by-value pass of the Lock itself (not a reference)
                    aty = t["arg_tys"][t["args"].index(a)] if "arg_tys" in t else ""
                    if aty == LOCK:
                        out.append(("callarg", callee_paths(t)[0] if callee_paths(t) else "?"))
        return out

    def _run(self):
        b, ba = self.b, self.ba
        # creation points
        starts = {}
        if self.entry_state is not None:
            starts[0] = set(self.entry_state)
        work = deque()
        for i in sorted(ba.live):
            t = b.blocks[i]["term"]
            if t["t"] == "call" and call_matches(t, M_NEW) and not t["dest"]["p"] and t["dest"]["l"] in self.tracked and "target" in t:
                self.creations = getattr(self, "creations", []) + [i]
                # state after creation
                self._flow(t["target"], {"U"}, work)
        if 0 in starts:
            self._flow(0, starts[0], work)
        for bb_, st_ in sorted(self.starts.items()):
            self._flow(bb_, set(st_), work)
        # refinement tables
        self.sw_isowned = {}
        for (sw, t_t, f_t, cbb) in ba.switches_on_call(M_ISOWNED):
            if self.is_recv(b.blocks[cbb]["term"]):
                self.sw_isowned[sw] = (t_t, f_t)
        self.try_of = {}    # switch bb (after Try::branch) -> (call term, cont, brk)
        for (br, brk, cont, src) in ba.try_sites():
            if src is None:
                continue
            cbb, ct = src
            if call_matches(ct, M_ANY) and self.is_recv(ct):
                sw = b.blocks[br]["term"].get("target")
                self.try_of[sw] = (ct, cont, brk)
        self.try_lend = {}  # switch bb of the `?` applied to an awaited lender's result -> (ok, err, cont, brk)
        if self.lends:
            from rules.C06 import backward_direct
            for l in self.lends.values():
                pd = b.blocks[l["poll"]]["term"].get("dest")
                if not pd or pd["p"]:
                    continue
                for (br, brk, cont, src) in ba.try_sites():
                    a0 = op_local(b.blocks[br]["term"]["args"][0])
                    if a0 is not None and pd["l"] in backward_direct(b, a0, depth=60)[0]:
                        self.try_lend[b.blocks[br]["term"].get("target")] = (set(l["ok"]), set(l["err"]), cont, brk)
        # `if let Some(..) = container.as_mut()` on the Option that holds the tracked lock: the object
        # exists iff the container is Some, so the not-Some edge carries no lock state
        self.kill_edges = set()
        if self.single_object:
            for sw in sorted(ba.live):
                es = ba.enum_switch(sw)
                if not es:
                    continue
                place, arms, other = es
                d = ba.single_def(place["l"])
                holder = False
                if d and d[0] == "call" and call_matches(d[2], r"core::option::Option::(as_mut|as_ref)") and not place["p"]:
                    # the Option may be a local of its own or a field of a state struct: what counts is the type
                    # of the value as_mut()/as_ref() is applied to
                    chain = ba.ref_chain(op_local(d[2]["args"][0]))
                    tys = [b.locals[x] for x in chain] + list((d[2].get("arg_tys") or [])[:1])
                    holder = any(self._is_lock_option(ty) for ty in tys)
                else:
                    # `match container { Some(..) => .. }` / `if let Some(..) = &mut state.container` on the place itself
                    holder = self._is_lock_option(place_type(self.prog, b, place))
                if holder:
                    for s in b.succ(sw):
                        if s != arms.get(1):
                            self.kill_edges.add((sw, s))
        self.pending_result = {}
        while work:
            bb = work.popleft()
            for tag in list(self.in_tagged.get(bb, {})):
                self._step(bb, tag, set(self.in_tagged[bb][tag]), work)

    def _is_lock_option(self, ty):
        """Is `ty` (behind any number of references) an Option whose payload holds a Lock by value?"""
        if not ty:
            return False
        while ty.startswith("&"):
            ty = ty[5:] if ty.startswith("&mut ") else ty[1:]
        return ty.startswith("core::option::Option<") and contains_lock(self.prog, ty)

    def _event(self, key, st):
        self._ev[key] = frozenset(self._ev.get(key, frozenset()) | st)

    def _tag_after(self, blk, tag):
        """Result tag (local, 0 = Ok/Continue | 1 = Err/Break) after the statements and the terminator of a block."""
        for s in blk["stmts"]:
            if s["s"] != "assign":
                continue
            rv = s["rv"]
            if tag is not None and ((rv["k"] == "ref" and rv.get("mut")) or rv["k"] == "rawptr") and rv["place"]["l"] == tag[0]:
                tag = None          # may be overwritten through the reference: variant no longer known
            if s["place"]["p"]:
                if tag is not None and s["place"]["l"] == tag[0] and "deref" not in s["place"]["p"]:
                    tag = None
                continue
            x = s["place"]["l"]
            if rv["k"] == "agg" and rv.get("agg") == "adt" and rv.get("adt") == RESULT_ADT and rv.get("variant") in ("Ok", "Err"):
                tag = (x, 0 if rv["variant"] == "Ok" else 1)
            elif rv["k"] == "use" and op_place(rv["op"]) is not None and not op_place(rv["op"])["p"] and tag is not None and op_place(rv["op"])["l"] == tag[0]:
                tag = (x, tag[1])
            elif tag is not None and tag[0] == x:
                tag = None
        t = blk["term"]
        if t["t"] == "call" and not t["dest"]["p"]:
            x = t["dest"]["l"]
            a0 = op_place(t["args"][0]) if t["args"] else None
            if call_matches(t, M_RESIDUAL) and self.b.locals[x].startswith(RESULT_ADT + "<"):
                tag = (x, 1)        # (`?` in a function returning Result; an Option's None has the other discriminant)
            elif (call_matches(t, M_BRANCH) or call_matches(t, M_MAPERR)) and tag is not None and a0 is not None and not a0["p"] and a0["l"] == tag[0]:
                tag = (x, tag[1])
            elif tag is not None and tag[0] == x:
                tag = None
        return tag

    def _step(self, bb, tag, st, work):
        b = self.b
        blk = b.blocks[bb]
        esc = self._escapes(blk)
        t = blk["term"]
        out_default = set(st)
        ok_state = err_state = None
        if esc and not self.single_object:
            for kind, det in esc:
                self._event((bb, "escape", det), st)
            # object moved away: stop tracking along this path
            return
        if t["t"] == "call" and self.is_recv(t) and call_matches(t, M_ANY):
            name = [p for p in callee_paths(t) if M_ANY.fullmatch(p)][0]
            need = self.pre.get(name)
            self._event((bb, "call", name), st)
            if need is not None and not st <= {need}:
                self._event((bb, "precondition", (name, need)), st)
            if M_TRY.fullmatch(name):
                ok_state, err_state = {"U", "O"}, {"U"}
            elif M_WAIT.fullmatch(name):
                ok_state, err_state = {"O"}, {"U"}
            elif M_UNLOCK.fullmatch(name):
                ok_state, err_state = {"U"}, {"O"}
            elif M_FORCE.fullmatch(name):
                ok_state = err_state = {"O"}
            else:
                ok_state = err_state = set(st)
            out_default = ok_state | err_state
            if "target" in t:
                self.pending_result[t["target"]] = (ok_state, err_state)
        if bb in self.lends and self._lent_here(blk):
            # the coroutine built here runs (to completion) at the await that follows; nothing else can touch the lock
            # in between, it is mutably borrowed
            l = self.lends[bb]
            self._event((bb, "lend", ""), st)
            out_default = set(l["ok"]) | set(l["err"])
        if t["t"] == "drop":
            pl = t["place"]
            if not pl["p"] and pl["l"] in self.tracked and t["ty"] == LOCK and not self.single_object:
                if not any(mb == bb or self.ba.dominates(mb, bb) for mb in self.moved_out.get(pl["l"], [])):
                    self._event((bb, "drop", ""), st)
                    # after the drop the object is gone on this path
                    return
        out_tag = self._tag_after(blk, tag)
        # successors with refinement
        if bb in self.sw_isowned:
            t_t, f_t = self.sw_isowned[bb]
            self._flow(t_t, st & {"O"}, work, out_tag)
            self._flow(f_t, st & {"U"}, work, out_tag)
            return
        if bb in self.try_of:
            ct, cont, brk = self.try_of[bb]
            name = [p for p in callee_paths(ct) if M_ANY.fullmatch(p)][0]
            if M_TRY.fullmatch(name):
                oks, errs = st & {"U", "O"}, st & {"U"}
            elif M_WAIT.fullmatch(name):
                oks, errs = st & {"O"}, st & {"U"}
            elif M_UNLOCK.fullmatch(name):
                oks, errs = st & {"U"}, st & {"O"}
            else:
                oks = errs = st
            for s in b.succ(bb):
                if s == cont:
                    self._flow(s, oks, work, out_tag)
                elif s == brk:
                    self._flow(s, errs, work, out_tag)
                else:
                    self._flow(s, st, work, out_tag)
            return
        if bb in self.try_lend:
            oks_, errs_, cont, brk = self.try_lend[bb]
            for s in b.succ(bb):
                if s == cont:
                    self._flow(s, st & oks_, work, out_tag)
                elif s == brk:
                    self._flow(s, st & errs_, work, out_tag)
                else:
                    self._flow(s, st, work, out_tag)
            return
        succs = list(b.succ(bb))
        if out_tag is not None and t["t"] == "switch":
            es = self.ba.enum_switch(bb)
            if es is not None and not es[0]["p"] and es[0]["l"] == out_tag[0] and out_tag[1] in es[1]:
                # the switched value's variant is known on this path: only that arm is taken
                succs = [es[1][out_tag[1]]]
        for s in succs:
            if (bb, s) in self.kill_edges:
                continue
            self._flow(s, out_default, work, out_tag)

    def _flow(self, bb, st, work, tag=None):
        if not st:
            return
        grp = self.in_tagged.setdefault(bb, {})
        cur = grp.get(tag)
        if cur is None:
            grp[tag] = set(st)
        elif not st <= cur:
            cur |= st
        else:
            return
        self.in_state.setdefault(bb, set()).update(st)
        if bb not in work:
            work.append(bb)

    def state_at(self, bb):
        return self.in_state.get(bb)


def find_lends(prog, P):
    """[(ctor block, poll block, ready block, coroutine body)]: coroutines of the builder awaited in place by P whose
    constructor takes a `&mut Lock`."""
    from rules.C08 import classify_waits, future_names
    out = []
    for (pbb, ready, NB) in classify_waits(P, prog)["nested"]:
        t = P.blocks[pbb]["term"]
        _, origins = future_names(P, op_local(t["args"][0]))
        def is_mut_lock(ty):
            ty = (ty or "").strip()
            return ty.startswith("&") and ty.endswith("mut " + LOCK)
        for o in origins:
            if o[0] == "call":
                ct = o[2]
                if any(p + "::{closure#0}" == NB.key for p in callee_paths(ct)) and any(is_mut_lock(ty) for ty in (ct.get("arg_tys") or [])):
                    out.append((o[1], pbb, ready, NB))
            elif o[0] == "agg" and o[2].get("agg") == "coroutine" and o[2].get("def") == NB.key:
                # (the `async fn` itself - which only builds the coroutine - was spliced into P)
                if any(op_local(x) is not None and is_mut_lock(P.locals[op_local(x)]) for x in o[2].get("ops", [])):
                    out.append((o[1], pbb, ready, NB))
    return out


def lockts_with_lends(prog, P, roots, pre, **kw):
    """LockTS of the lock object `roots` of body P where the lock may be lent (`&mut`) to coroutines that P awaits in
    place (a retry loop moved into an `async fn`). Each such coroutine is analysed as a single-object body starting in
    the state the lock has where P builds it; the states at its Ok returns become the lock's state on the success side
    of the await in P. Returns (LockTS of P, [(coroutine body, its LockTS, entry state)])."""
    cands = find_lends(prog, P)
    if not cands:
        return LockTS(prog, P, roots, preconds=pre, **kw), []
    top = [{"ctor": c, "poll": pb, "ok": {"U", "O"}, "err": {"U", "O"}} for (c, pb, _, _) in cands]
    ts0 = LockTS(prog, P, roots, preconds=pre, lends=top, **kw)
    final, nested = [], []
    from rules import common
    for (c, pb, ready, NB) in cands:
        if not ts0._lent_here(P.blocks[c]):
            continue
        st = ts0.state_at(c)
        if not st:
            continue
        nts = LockTS(prog, NB, [], entry_state=set(st), preconds=pre, single_object=True)
        rets = common.blocks_with_agg(NB, r"core::result::Result", "Ok") or BA.of(NB).returns()
        ok = set()
        for r in rets:
            ok |= nts.state_at(r) or set()
        final.append({"ctor": c, "poll": pb, "ok": ok or {"U", "O"}, "err": {"U", "O"}})
        nested.append((NB, nts, set(st)))
    return LockTS(prog, P, roots, preconds=pre, lends=final, **kw), nested
