"""C16 - Concurrent commands on one project do not fail spuriously or lose state (transaction discipline)."""
import re

import anchors
from core import (BA, FA, call_matches, callee_paths, op_local, op_place, op_const, const_int, const_str, place_fields,
                  str_consts, fa_path_via)
from rules import common, sqlc, txn
from rules.C06 import backward_direct, ok_result_blocks

EXPLANATION = (
    "Static transaction-discipline rules that make the 60 s busy timeout effective: every SQL mutation is reachable "
    "only under a transaction begun IMMEDIATE (a deferred transaction that has read and then writes fails at once with "
    "'database is locked', the busy handler is not consulted); no write is reachable from the Deferred transactions of "
    "the query commands; busy_timeout is set before the first statement on the only Connection::open; no destructive "
    "action on the shared database file depends on an unlocked existence test; from_name tolerates exactly the "
    "constraint violation; every transaction in which records are written is committed on its non-error paths. "
    "Does NOT decide absence of busy errors over all interleavings."
)
ASSUMPTIONS = ["SQLite's documented locking: BEGIN IMMEDIATE takes the write lock up front and honours the busy handler", "unwind edges excluded"]


def run(ctx):
    prog = ctx.prog
    ctx.rule("R16.1", "read-then-write upgrade is impossible: every transaction under which a write is reachable is begun IMMEDIATE (ProcessTransaction::new behaviour constant; rusqlite Connection::transaction_with_behavior in init)")
    ctx.rule("R16.2", "no ProcessTransaction::write is reachable from a body that opens a Deferred transaction (callbacks included)")
    ctx.rule("R16.3", "connect() is the only Connection::open and sets busy_timeout before any statement")
    ctx.rule("R16.4", "no destructive or schema-creating action on the shared database file is conditioned on an existence test made without holding a lock")
    ctx.rule("R16.5", "from_name's insert tolerates exactly the constraint-violation error and re-reads")
    ctx.rule("R16.6", "dependency records are not lost by rollback-on-drop: every transaction value in which add_dep / zap_deps* / save is reachable is committed (commit() or drop-behaviour Commit) on its non-error paths")

    sites = txn.txn_sites(prog)
    ctx.floor("R16.1", "ProcessTransaction::new call sites", len(sites), 10)
    flt = txn.no_add_filter(prog)
    ctx.ob("R16.1", "from_name|insert-only-when-allow_add", txn.from_name_write_guarded(prog), where=prog.one(r"state::File::from_name").span,
           detail="File::from_name writes only under allow_add == true (so from_name(.., false) is a pure read)")
    for k, (b, i, beh) in common.ordinal_keys([(b.key, (b, i, beh)) for b, i, beh in sites]):
        over, got = txn.callbacks_override(prog, b)
        reach = ctx.cg.reachable([b.key], site_filter=flt, dyn_override=over)
        writes = txn.WRITE in reach
        if beh == "Immediate" or beh == "Exclusive":
            ctx.ob("R16.1", "txn|%s|IMMEDIATE" % k, True, where=ctx.where(b, i), detail="transaction begun %s (%s)" % (beh, "writes reachable" if writes else "read only"))
        else:
            ch = ctx.cg.chain(b.key, txn.WRITE, site_filter=flt, dyn_override=over) if writes else None
            ctx.ob("R16.2", "txn|%s|%s-transaction-never-writes" % (k, beh), not writes, where=ctx.where(b, i),
                   detail="no write reachable under this %s transaction (callbacks: %s)" % (beh, sorted(got.values()) if got else "default") if not writes else
                   "a write is reachable under a %s transaction: %s. After the transaction has read, the upgrade to a write lock fails immediately with 'database is locked' if another connection committed in between" % (beh, " -> ".join(ch or [])),
                   witness={"chain": ch})
    # rusqlite transactions in init
    init = prog.one(r"state::ProcessState::init")
    iba = BA.of(init)
    ifa = FA.of(init)
    rt = iba.calls(r"rusqlite::Connection::transaction|rusqlite::transaction::<impl rusqlite::Connection>::transaction")
    rtb = iba.calls(r"rusqlite::Connection::transaction_with_behavior|rusqlite::transaction::<impl rusqlite::Connection>::transaction_with_behavior")
    execs = iba.calls(r"rusqlite::Connection::execute|rusqlite::transaction::Transaction::execute|<rusqlite::transaction::Transaction<'_> as core::ops::deref::Deref>::deref")
    sqls = [s for (_, _, s, _) in str_consts(init) if sqlc.kind(s) in ("insert into", "insert or replace into", "update", "delete from", "create table")]
    ctx.floor("R16.1", "mutating SQL literals in ProcessState::init", len(sqls), 5)
    reads = iba.calls(r"rusqlite::Connection::(query_row|prepare|query)")
    wr = sorted({bb for (bb, _, s, _) in str_consts(init) if sqlc.kind(s) in ("insert into", "insert or replace into", "update", "delete from", "create table")})
    ctx.floor("R16.1", "blocks of init that issue mutating SQL", len(wr), 5)
    for k, i in common.ordinal_keys([("Connection::transaction", i) for i in rt]):
        # a deferred transaction is harmful when a read can precede a write inside it (lock upgrade)
        # over feasible paths from entry (core.FA): when the choice between the deferred and the immediate start is
        # re-split later on the same value (`match mode {A => transaction(), B => transaction_with_behavior(..)}; ..
        # match mode {A => create .., B => read ..}`) the block path deferred-start -> read -> write does not exist
        up = None
        for r in reads:
            q = fa_path_via(ifa, [[i], [r]], wr)
            if q:
                up = (r, q[-1])
        ctx.ob("R16.1", "init|%s|no-read-then-write-under-DEFERRED" % k, up is None, where=ctx.where(init, i),
               detail="deferred start-up transaction whose first statement is a write (takes the write lock through the busy handler)" if up is None else
               "ProcessState::init opens a rusqlite transaction with the default (DEFERRED) behaviour, reads (%s) and then writes (%s): "
               "two commands starting together hit 'failed to insert new Runid: database is locked' without the busy timeout being consulted" % (init.line(up[0]), init.line(up[1])))
    for k, i in common.ordinal_keys([("Connection::transaction_with_behavior", i) for i in rtb]):
        t = init.blocks[i]["term"]
        beh = t["args"][1]
        v = (op_const(beh) or {}).get("variant")
        if v is None and op_local(beh) is not None:
            d = iba.single_def(op_local(beh))
            if d and d[0] == "stmt" and d[3]["k"] == "agg":
                v = d[3].get("variant")
        ctx.ob("R16.1", "init|%s|IMMEDIATE" % k, v in ("Immediate", "Exclusive"), where=ctx.where(init, i), detail="start-up transaction behaviour: %s" % v)
    ctx.ob("R16.1", "init|has-start-up-transaction", bool(rt or rtb), where=init.span, detail="%d start-up transactions" % len(rt + rtb))
    # who may execute SQL directly: the audited table (BEGIN / COMMIT / schema / pragmas) plus the record writer's
    # funnel (the private primitive(s) behind ProcessTransaction::write, or that function itself)
    direct = txn.sql_executors(prog)
    members, problems = txn.writer_funnel(prog, ctx.cg)
    funnel = {k: r for k, r in members}
    bad_members = {k for k, _ in problems}
    for k in sorted(direct):
        if k in txn.AUDITED_EXECUTORS:
            ok, det = True, "audited: %s" % txn.AUDITED_EXECUTORS[k]
        elif k in funnel and k not in bad_members:
            ok, det = True, "audited: the single writer" if k == txn.PS_WRITE else "the record writer (private, behind ProcessTransaction::write)"
        else:
            ok, det = False, "body executes SQL directly, bypassing ProcessTransaction"
        ctx.ob("R16.1", "who-executes-sql|%s" % k, ok, where=ctx.where(prog.bodies[k], direct[k][0]), detail=det)
    ctx.ob("R16.1", "who-calls-ProcessState::write", not problems,
           detail="writer funnel: %s" % ["%s (%s)" % m for m in members] if not problems else "; ".join(t for _, t in problems))

    # ---- R16.3
    opens = anchors.bodies_calling(prog, r"rusqlite::Connection::open.*")
    ok = [b.key for b in opens] == ["state::connect"]
    ctx.ob("R16.3", "who-opens-the-database", ok, detail="Connection::open callers: %s" % [b.key for b in opens])
    if ok:
        cn = opens[0]
        cba = BA.of(cn)
        bt = cba.calls(r"rusqlite::Connection::busy_timeout|rusqlite::busy::<impl rusqlite::Connection>::busy_timeout")
        stm = cba.calls(r"rusqlite::Connection::(execute|query_row|execute_batch|prepare)")
        common.mpt(ctx, "R16.3", "connect|busy_timeout-before-statements", cn, [0], stm, bt, "busy_timeout precedes every statement", "a statement runs on the connection before the busy timeout is set")

    # ---- R16.4
    exs = iba.switches_on_call(r"std::path::Path::exists")
    unl = iba.calls(r"helpers::unlink(_output)?|nix::unistd::unlink|std::fs::remove_file")
    creates = sorted({bb for (bb, _, s, _) in str_consts(init) if sqlc.kind(s) == "create table"})
    locks_held = iba.calls(r"state::Lock::wait_lock|state::Lock::try_lock")
    destructive = unl + creates
    if destructive:
        cond = [sw for (sw, t_t, f_t, cbb) in exs if any(iba.path([sw], [x], incl=True) for x in destructive)]
        cond_calls = [cbb for (sw, t_t, f_t, cbb) in exs if any(iba.path([sw], [x], incl=True) for x in destructive)]
        # switches on a bool local computed earlier (`let must_create = !dbfile.exists();`): the exists() call itself
        ex_calls = [i for i in iba.calls(r"std::path::Path::exists") if any(iba.path([i], [x]) for x in destructive)]
        guarded = bool(locks_held) and all(any(iba.dominates(l, x) for l in locks_held) for x in destructive + ex_calls + cond_calls)
        # also accept: the existence test result flows from a point dominated by a lock
        ok = guarded or not (cond or ex_calls)
        ctx.ob("R16.4", "init|db-creation-under-lock", ok, where=ctx.where(init, destructive[0]),
               detail="unlink/create of the database happens while holding a lock" if ok else
               "`!dbfile.exists()` is tested without a lock and then the database file is unlinked and its schema created: of two first invocations one can unlink the other's fresh database or open a schema-less file")
    else:
        ctx.ob("R16.4", "init|db-creation-under-lock", True, where=init.span, detail="no destructive action on the database file in init")
    # ---- R16.12 (seed C16-13): .. and that lock is the exclusive one, held without a gap from the test to the action
    ctx.rule("R16.12", "the init lock that covers `does the database exist` and the unlink / schema creation is taken exclusively and is not released in between: a shared lock lets two first invocations both see `no database`, and a lock traded in (unlock, lock again) without testing again lets the second one unlink the database the first has just created")
    if destructive:
        ex_calls2 = [i for i in iba.calls(r"std::path::Path::exists") if any(iba.path([i], [x]) for x in destructive)]
        waits = [l for l in iba.calls(r"state::Lock::wait_lock") if any(iba.dominates(l, x) for x in ex_calls2)]
        kinds_ = []
        for l in waits:
            a_ = init.blocks[l]["term"]["args"][1] if len(init.blocks[l]["term"]["args"]) > 1 else None
            v_ = (op_const(a_) or {}).get("variant") if a_ is not None else None
            if v_ is None and a_ is not None and op_local(a_) is not None:
                d_ = iba.single_def(op_local(a_))
                if d_ and d_[0] == "stmt" and d_[3]["k"] == "agg":
                    v_ = d_[3].get("variant")
            kinds_.append(v_)
        excl = bool(waits) and all(k_ == "Exclusive" for k_ in kinds_)
        ctx.ob("R16.12", "init|existence-test-under-the-exclusive-lock", excl, where=ctx.where(init, waits[0]) if waits else init.span,
               detail="wait_lock(Exclusive) dominates the existence test" if excl else "the lock held at the existence test is %s" % (kinds_ or "missing"))
        unlocks = iba.calls(r"state::Lock::unlock")
        gap = [u for u in unlocks if any(iba.path([e_], [u], incl=True) is not None for e_ in ex_calls2) and any(iba.path([u], [x], incl=True) is not None for x in destructive)]
        ctx.ob("R16.12", "init|lock-held-from-test-to-action", not gap, where=ctx.where(init, gap[0]) if gap else init.span,
               detail="no unlock between the existence test and the unlink / schema creation" if not gap else "the lock is released between the existence test and the destructive action (and the test is not repeated)")

    # ---- R16.5
    fn = prog.one(r"state::File::from_name")
    fba = BA.of(fn)
    ws = fba.calls(re.escape(txn.WRITE))
    ok = False
    det = "insert result handling not recognised"
    if len(ws) == 1:
        res = fn.blocks[ws[0]]["term"]["dest"]["l"]
        qs = [i for i in fba.calls(r"rusqlite::Connection::query_row") if fba.path(ws, [i])]
        mentions_cv = any(s["s"] == "assign" and "ConstraintViolation" in str(s) for blk in fn.blocks for s in blk["stmts"]) or \
            any("ConstraintViolation" in str(blk["term"]) for blk in fn.blocks)
        sw_cv = [sw for sw in sorted(fba.live) if fn.blocks[sw]["term"]["t"] == "switch" and fn.blocks[sw]["term"].get("enum") == "libsqlite3_sys::error::ErrorCode"]
        ok = bool(qs) and bool(sw_cv)
        if ok:
            t = fn.blocks[sw_cv[0]]["term"]
            names = {v: n for v, n in t["enum_variants"]}
            tolerated = [names.get(v) for v, tg in t["arms"]]
            ok = tolerated == ["ConstraintViolation"]
            det = "tolerated sqlite error codes: %s; the row is re-read afterwards" % tolerated
        elif qs:
            # the same test written as a comparison (`if err.code == ErrorCode::ConstraintViolation`, a match guard): the
            # error codes compared against are the variant constants built for the `==` calls on ErrorCode; tolerated
            # means the equal side goes on to the re-read and the other side cannot
            eqs = [(sw, t_t, f_t, cbb) for (sw, t_t, f_t, cbb) in fba.switches_on_call(r"<libsqlite3_sys::error::ErrorCode as core::cmp::PartialEq>::eq")]
            tolerated = []
            sides_ok = bool(eqs)
            for (sw, t_t, f_t, cbb) in eqs:
                vs = set()
                for a in fn.blocks[cbb]["term"]["args"]:
                    for x in fba.ref_chain(op_local(a)) if op_local(a) is not None else []:
                        for d in fba.defs.get(x, []):
                            if d[0] == "stmt" and d[3]["k"] == "agg" and d[3].get("adt") == "libsqlite3_sys::error::ErrorCode":
                                vs.add(d[3].get("variant"))
                tolerated.extend(sorted(vs))
                ffa = FA.of(fn)
                sides_ok = sides_ok and ffa.path([t_t], qs, incl=True) is not None and ffa.path([f_t], qs, incl=True) is None
            ok = sides_ok and tolerated == ["ConstraintViolation"]
            if eqs:
                det = "tolerated sqlite error codes (by comparison): %s; only the equal side goes on to re-read the row" % tolerated
    ctx.ob("R16.5", "from_name|tolerates-only-ConstraintViolation", ok, where=fn.span, detail=det)

    # ---- R16.6
    rec_writers = re.compile(r"state::File::(add_dep|zap_deps1|zap_deps2|save|set_checked_save)")
    n = 0
    for k, (b, i, beh) in common.ordinal_keys([(b.key, (b, i, beh)) for b, i, beh in sites]):
        ba = BA.of(b)
        # transaction value local(s): from the Result of ProcessTransaction::new through `?`/match (_txn_locals)
        tl = _txn_locals(b, b.blocks[i]["term"]["dest"]["l"])
        uses = []
        for j in ba.all_calls():
            t = b.blocks[j]["term"]
            if not ba.path([i], [j]):
                continue
            if any((op_local(a) in tl or any(x in tl for x in ba.ref_chain(op_local(a)))) for a in t["args"] if op_local(a) is not None):
                uses.append(j)
        def reaches_writer(j):
            cps = callee_paths(b.blocks[j]["term"])
            if any(rec_writers.fullmatch(p) for p in cps):
                return True
            # a local function, or a closure value built in this body and called with the transaction
            # (`helper(env, |ptx, f| ..)` after the helper was spliced in: `body(&mut ptx, &mut f)`)
            roots = ([cps[0]] if cps and cps[0] in prog.bodies else []) + [k for k in common.closure_call_targets(b, j) if k in prog.bodies]
            return bool(roots) and any(rec_writers.fullmatch(x) for x in ctx.cg.reachable(roots, site_filter=flt, indirect=False))
        writes_here = [j for j in uses if reaches_writer(j)]
        if not writes_here or beh not in ("Immediate", "Exclusive"):
            # Deferred transactions must not write at all (R16.2); nothing to commit
            continue
        if b.key in ("@bin::ood::run", "@bin::targets::run", "@bin::sources::run"):
            # query commands roll back by design (C17 R17.1 requires that they never commit); what
            # they write (forgetting vanished targets) is recomputed on demand and is not a dependency record
            ctx.ob("R16.6", "txn|%s|query-command-rolls-back-by-design" % k, True, where=ctx.where(b, i),
                   detail="query command: writes only the 'forgotten target' normalisation and never commits (checked by C17 R17.1)", nontrivial=False)
            continue
        n += 1
        commits = [j for j in uses if call_matches(b.blocks[j]["term"], r"state::ProcessTransaction::commit")]
        setc = []
        for j in uses:
            t = b.blocks[j]["term"]
            if call_matches(t, r"state::ProcessTransaction::set_drop_behavior"):
                a = t["args"][1]
                v = (op_const(a) or {}).get("variant")
                if v is None and op_local(a) is not None:
                    d = ba.single_def(op_local(a))
                    if d and d[0] == "stmt" and d[3]["k"] == "agg":
                        v = d[3].get("variant")
                if v == "Commit":
                    setc.append(j)
        # moved into another function that takes the transaction by value (e.g. BuildJob::start): that callee commits
        moved = [j for j in uses if any(aty.startswith("state::ProcessTransaction") for aty in b.blocks[j]["term"].get("arg_tys", [])) and
                 not call_matches(b.blocks[j]["term"], r"state::ProcessTransaction::.*")]
        M = set(commits) | set(setc) | set(moved)
        # non-error exits: Ok returns of the body (or plain returns for non-Result bodies), reachable after a write
        # (the Ok value may be built for a local first - the result of a spliced helper returned as the tail
        # expression: `_r = Ok(..); .. _0 = move _r` - so look for the Ok aggregates that *reach* the return place)
        goals = ok_result_blocks(b) or ba.returns()
        # also the end of the transaction's scope: approximate by the body's normal exits
        starts = [w for w in writes_here if w not in M]
        residuals = {brk for (_, brk, _, _) in ba.try_sites() if brk is not None}
        errs = set(common.blocks_with_agg(b, r"core::result::Result", "Err"))
        p = ba.path(starts, goals, avoid=frozenset(M | residuals | errs)) if goals and starts else None
        ctx.ob("R16.6", "txn|%s|written=>committed" % k, p is None, where=ctx.where(b, i),
               detail="after the first record write every normal exit passes commit() / drop-behaviour Commit / hands the transaction on" if p is None else
               "records are written under this transaction but a normal exit is reachable without committing: they are rolled back when the transaction is dropped",
               witness={"path": p[:20] if p else None})
    ctx.floor("R16.6", "transactions that write records", n, 6)


def _txn_locals(b, dest):
    """Locals of `b` that hold the transaction begun by the ProcessTransaction::new call whose result is `dest` (the
    value, a reference to it, or a wrapper of it): direct value flow from `dest`, kept only where the local's type
    can contain a transaction - its type mentions ProcessTransaction, or it is an aggregate (struct / tuple / closure /
    coroutine) built from such a local. Direct flow alone also follows the *error* half of the Result through
    `?` (Try::branch -> residual -> from_residual -> the enclosing Result, and on through a caller's `?` when the
    opening code is a spliced helper), which never holds the transaction and ends up tainting the whole body."""
    from core import taint, closure_sites
    tl = taint(b, seeds={dest}, mode="direct")

    def typed(l):
        return l is not None and l >= 0 and "state::ProcessTransaction" in b.locals[l]
    keep = {l for l in tl if typed(l)}
    keep.add(dest)
    ba = BA.of(b)
    changed = True
    while changed:
        changed = False
        for blk in b.blocks:
            for s in blk["stmts"]:
                if s["s"] != "assign" or s["place"]["p"] or s["rv"]["k"] != "agg" or s["place"]["l"] in keep:
                    continue
                if any(op_local(o) is not None and (op_local(o) in keep or any(x in keep for x in ba.ref_chain(op_local(o)))) for o in s["rv"]["ops"]):
                    d = s["place"]["l"]
                    ty = b.locals[d]
                    keep.add(d)
                    keep.update(l for l in taint(b, seeds={d}, mode="direct") if l >= 0 and b.locals[l].replace("&mut ", "").replace("&", "") == ty)
                    changed = True
    return keep
