"""C08 - Job tokens are conserved and -j is respected (accounting discipline, not the arithmetic)."""
import re

import anchors
from core import (BA, call_matches, callee_paths, op_local, op_place, op_const, const_int, const_str, taint,
                  place_fields, rvalue_places, field_writes, field_mut_refs, field_reads)
from facts import strip_generics
from rules import common
from rules.C06 import backward_direct

EXPLANATION = (
    "Static accounting-discipline rules on the jobserver: the token counters are written only by the audited "
    "functions (who-may-write, no &mut escapes); pipe writes/reads are paired with counter updates (release shares "
    "exactly the non-cheat decrements; a token read increments once); fork is preceded by destroy_tokens(1) and each "
    "child exit either eats a cheat byte or recreates exactly one token; every path to a job start passes a completed "
    "token acquisition since the last point where the process may have given its token away; the token-pipe read is "
    "guarded by 'holds no token' within the same wake-up; tokens are returned on every exit path (Drop / "
    "force_return_tokens, no process::exit reachable from the scheduler in the parent); the own token is released "
    "only while children run. Does NOT decide the numeric invariant tokens - cheats = N over schedules."
)
ASSUMPTIONS = ["pipe reads/writes transfer exactly the bytes requested", "unwind (panic) edges excluded",
               "child side of fork (ForkResult::Child arm and the job closures) is a different process and excluded from parent-side rules"]

MY = r"jobserver::ServerState\.my_tokens"
CH = r"jobserver::ServerState\.cheats"

WRITERS_MY = {
    "<jobserver::ServerState as core::default::Default>::default": "initial value 1: every process owns one token at start",
    "jobserver::ServerState::create_tokens": "materialise n tokens (cheats absorb first)",
    "jobserver::ServerState::destroy_tokens": "destroy n owned tokens (before fork / when compensating a cheat)",
    "jobserver::ServerState::release": "give n tokens back to the pipe",
    "jobserver::JobServer::block_on": "token byte read from the pipe",
    "jobserver::JobServerHandle::ensure_token_or_cheat::{closure#0}": "cheat: synthesise a token while redo-log follows us",
}
WRITERS_CH = {
    "<jobserver::ServerState as core::default::Default>::default": "initial value 0",
    "jobserver::ServerState::create_tokens": "a created token cancels a cheat",
    "jobserver::ServerState::release": "a released token cancels a cheat",
    "jobserver::JobServerHandle::ensure_token_or_cheat::{closure#0}": "cheat taken",
}


def writers(prog, field_rx, adt="jobserver::ServerState"):
    out = {}
    for b in prog.bodies.values():
        w = field_writes(b, field_rx)
        if w:
            out[b.key] = [bb for bb, _, _ in w]
        if anchors.agg_sites(b, re.escape(adt)):
            out.setdefault(b.key, []).extend(bb for bb, _, _ in anchors.agg_sites(b, re.escape(adt)))
    return out


def run(ctx):
    prog = ctx.prog
    ctx.rule("R8.1", "who-may-write: ServerState.my_tokens / .cheats are assigned only by the audited accounting functions, never through an escaped &mut; the cheat arm adds the same amount to both")
    ctx.rule("R8.2", "pipe/counter pairing: token-pipe writes only in release (count = non-cheat decrements) and the self-test; token-pipe reads only in the event loop (one increment per byte) and the self-test; cheat pipe written only after destroy_tokens(cheats)")
    ctx.rule("R8.3", "fork pairing: destroy_tokens(1) dominates fork; per child exit: cheat byte read => no create_tokens, nothing read => create_tokens(1); both before the job is forgotten")
    ctx.rule("R8.4", "-j: every path to a job start passes a completed ensure_token_or_cheat since the last point where the process may hold no token")
    ctx.rule("R8.5", "the token-pipe read that increments my_tokens is guarded, after select() of the same wake-up, by a test that the process holds no token")
    ctx.rule("R8.6", "tokens are returned on exit: Drop for JobServer and force_return_tokens on the path after block_on; no process::exit reachable from the scheduler in the parent process")
    ctx.rule("R8.8", "the scheduling passes end holding a token: from every point where the own token was given away (wait_all resume, release_mine) a completed ensure_token_or_cheat lies on every path to the normal end of the passes")
    ctx.rule("R8.9", "JobServer::setup: the inherited token pipe is used only for -j0 (an explicit -j1 or -jN gets its own jobserver); a new jobserver is primed with max_jobs - 1 extra tokens")
    ctx.rule("R8.7", "wait_all releases the process's own token only while children run; the top-level self-test runs only when none remain")

    # ---- R8.1
    for fld, table, nm in ((MY, WRITERS_MY, "my_tokens"), (CH, WRITERS_CH, "cheats")):
        w = writers(prog, fld)
        for k in sorted(w):
            ctx.ob("R8.1", "writer-of-%s|%s" % (nm, k), k in table, where=ctx.where(prog.bodies[k], w[k][0]),
                   detail=("audited: " + table[k]) if k in table else "body writes ServerState.%s but is not one of the audited accounting functions" % nm)
        ctx.floor("R8.1", "writers of %s" % nm, len([k for k in w if k in table]), len(table))
        refs = [(b.key, bb) for b in prog.bodies.values() for bb, _ in field_mut_refs(b, fld)]
        ctx.ob("R8.1", "no-&mut-of-%s" % nm, not refs, where=", ".join("%s bb%d" % r for r in refs[:3]),
               detail="no mutable borrow of the counter escapes" if not refs else "counter is mutably borrowed (writes through the reference are not audited)")
    eb = prog.one(r"jobserver::JobServerHandle::ensure_token_or_cheat::\{closure#0\}")
    wm = field_writes(eb, MY)
    wc = field_writes(eb, CH)
    same = False
    if len(wm) == 1 and len(wc) == 1:
        am = add_operand(eb, wm[0])
        ac = add_operand(eb, wc[0])
        same = am is not None and am == ac
    ctx.ob("R8.1", "cheat-arm|same-amount", same, where=ctx.where(eb, wm[0][0]) if wm else eb.span,
           detail="my_tokens and cheats are increased by the same operand" if same else "cheat arm does not add the same amount to my_tokens and cheats")

    # ---- R8.2
    who = {
        r"jobserver::write_tokens": {"jobserver::ServerState::release", "jobserver::JobServer::do_force_return_tokens"},
        r"jobserver::try_read": {"jobserver::JobServer::block_on", "jobserver::AllJobsDone::test_tokens"},
        r"nix::unistd::write": {"jobserver::write_tokens", "jobserver::AllJobsDone::test_tokens"},
        r"nix::unistd::read": {"jobserver::try_read", "builder::StdinLogReaderBuilder::start"},
    }
    for rx, allowed in who.items():
        callers = {b.key for b in anchors.bodies_calling(prog, rx) if b.key.startswith(("jobserver::", "builder::", "state::"))}
        ctx.ob("R8.2", "who-calls|%s" % rx, callers <= allowed and bool(callers), detail="callers: %s" % sorted(callers),
               where=", ".join(prog.bodies[c].span for c in sorted(callers - allowed)))
    rel = prog.one(r"jobserver::ServerState::release")
    rba = BA.of(rel)
    wt = rba.calls(r"jobserver::write_tokens")
    ok = False
    det = "write_tokens operand is not the count of non-cheat decrements"
    if len(wt) == 1:
        cnt = op_local(rel.blocks[wt[0]]["term"]["args"][1])
        sl, _, _ = backward_direct(rel, cnt)
        # increments of the counter local
        incs = []
        for l in sl:
            for d in rba.defs.get(l, []):
                if d[0] == "stmt" and d[3]["k"] == "binop" and d[3]["op"].startswith("Add") and const_int(d[3]["b"]) == 1:
                    incs.append(d[1])
        # the cheats > 0 test
        chsw = [(sw, t_t, f_t) for (sw, t_t, f_t, k, info) in cmp_field_switches(rel, "jobserver::ServerState.cheats", "Gt", 0)]
        decs_my = [bb for bb, _, s in field_writes(rel, MY)]
        decs_ch = [bb for bb, _, s in field_writes(rel, CH)]
        if len(chsw) == 1 and incs and decs_my and decs_ch:
            sw, t_t, f_t = chsw[0]
            ok = (all(rba.edge_dominates((sw, f_t), i) for i in incs)
                  and all(rba.edge_dominates((sw, t_t), i) for i in decs_ch)
                  and all(rba.dominates(d, sw) for d in decs_my))
            det = "per released token: my_tokens -= 1 always; cheats -= 1 on the cheat side; shared count += 1 exactly on the other side"
    ctx.ob("R8.2", "release|shares-non-cheat-decrements", ok, where=rel.span, detail=det)
    bo = anchors.event_loop(prog)
    bba = BA.of(bo)
    incs = [(bb, j, s) for bb, j, s in field_writes(bo, MY)]
    ok = False
    det = "token read and my_tokens increment are not paired"
    if len(incs) == 1:
        ib = incs[0][0]
        treads = [i for i in bba.calls(r"jobserver::try_read") if bba.dominates(i, ib)]
        # dominated by the `Some(1)` arm of the read result
        one_arm = False
        for sw in sorted(bba.live):
            t = bo.blocks[sw]["term"]
            if t["t"] == "switch" and t["discr_ty"] == "usize":
                for v, tg in t["arms"]:
                    if v == 1 and bba.edge_dominates((sw, tg), ib):
                        one_arm = True
        amt = add_operand(bo, incs[0])
        ok = len(treads) >= 1 and one_arm and amt == ("int", 1)
        det = "my_tokens += 1 exactly in the arm where one byte was read from the token pipe" if ok else det
    ctx.ob("R8.2", "block_on|token-read-increments-once", ok, where=ctx.where(bo, incs[0][0]) if incs else bo.span, detail=det)
    frt = prog.one(r"jobserver::JobServer::do_force_return_tokens")
    fba = BA.of(frt)
    wt = fba.calls(r"jobserver::write_tokens")
    dt = fba.calls(r"jobserver::ServerState::destroy_tokens")
    ok = len(wt) == 1 and dt and all(fba.dominates(d, wt[0]) for d in dt)
    ctx.ob("R8.2", "force_return|cheat-pipe-after-destroy", bool(ok), where=frt.span,
           detail="cheat pipe is written only after destroy_tokens(cheats)" if ok else "cheat byte written without destroying the cheated token")

    # the top-level self-test puts back exactly what it took out
    tt = prog.one(r"jobserver::AllJobsDone::test_tokens")
    tba = BA.of(tt)
    wr = tba.calls(r"nix::unistd::write")
    trs = tba.calls(r"jobserver::try_read")
    ok = False
    det = "write-back not recognised"
    if len(wr) == 1 and len(trs) == 2:
        sl, org, _ = backward_direct(tt, op_local(tt.blocks[wr[0]]["term"]["args"][1]), depth=60)
        idx = [o for o in org if o[0] == "call" and any("ops::index::Index" in p_ for p_ in callee_paths(o[2]))]
        if idx:
            buf = tba.base_local_of_ref(op_local(idx[0][2]["args"][0]))
            rng = op_local(idx[0][2]["args"][1])
            rsl, rorg, _ = backward_direct(tt, rng, depth=60)
            # the range end derives from the try_read whose buffer is the same array, on the token pipe (first read)
            first = trs[0]
            same_buf = tba.base_local_of_ref(op_local(tt.blocks[first]["term"]["args"][1])) == buf
            cnt = taint(tt, seeds={tt.blocks[first]["term"]["dest"]["l"]}, mode="direct", through=re.compile(r"core::option::Option::unwrap_or"))
            ok = same_buf and bool(rsl & cnt)
            det = "write(token_fds.1, &buf[..n]) with buf and n from the same try_read of the token pipe" if ok else "the self-test does not write back the bytes it read"
    ctx.ob("R8.2", "test_tokens|writes-back-what-it-read", ok, where=tt.span, detail=det)

    # ---- R8.3
    st = prog.one(r"jobserver::JobServerHandle::start")
    sba = BA.of(st)
    forks = sba.calls(r"nix::unistd::fork")
    dts = [i for i in sba.calls(r"jobserver::ServerState::destroy_tokens") if const_int(st.blocks[i]["term"]["args"][1]) == 1]
    ok = len(forks) == 1 and dts and any(sba.dominates(d, forks[0]) for d in dts)
    ctx.ob("R8.3", "start|destroy-before-fork", bool(ok), where=ctx.where(st, forks[0]) if forks else st.span,
           detail="destroy_tokens(1) dominates fork()" if ok else "a child is forked without destroying the parent's token")
    forkers = {b.key for b in anchors.bodies_calling(prog, r"nix::unistd::fork")}
    allowed = {"jobserver::JobServerHandle::start", "builder::StdinLogReaderBuilder::start", "state::LockManager::detect_broken_locks"}
    ctx.ob("R8.3", "who-forks", forkers <= allowed, detail="fork callers: %s" % sorted(forkers))
    # child-exit arm
    creads = [i for i in bba.calls(r"jobserver::try_read")]
    cts = bba.calls(r"jobserver::ServerState::create_tokens")
    removes = bba.calls(r"std::collections::hash::map::HashMap::remove")
    ok = False
    det = "child-exit arm not recognised"
    if len(creads) == 2 and len(cts) == 1 and removes:
        cheat_read = [r for r in creads if bba.dominates(r, cts[0])]
        if len(cheat_read) == 1:
            cr = cheat_read[0]
            ct = cts[0]
            one = const_int(bo.blocks[ct]["term"]["args"][1]) == 1
            # the arm where a byte was read (value 1) must not reach create_tokens before the job is forgotten
            eat = None
            for sw in sorted(bba.live):
                t = bo.blocks[sw]["term"]
                if t["t"] == "switch" and t["discr_ty"] == "usize" and bba.dominates(cr, sw):
                    for v, tg in t["arms"]:
                        if v == 1:
                            eat = (sw, tg)
            if eat is not None:
                sw, tg = eat
                p = bba.path([tg], [ct], avoid=frozenset(removes), incl=True)
                # the other outcomes reach create_tokens before remove
                others = [s for s in bo.succ(sw) if s != tg]
                q = None
                for o in others:
                    if bo.blocks[o]["term"]["t"] == "unreachable":
                        continue
                    r = bba.reach_incl([o], avoid=frozenset([ct]))
                    if any(x in r for x in removes) and not is_panic_path(bo, o):
                        q = o
                # None / Some(0) outcome (Ok(None) is a different switch level): paths from cheat read to remove avoiding create must go through the eat arm only
                r2 = bba.reach_from([cr], avoid=frozenset([ct, tg]))
                leak = [x for x in removes if x in r2]
                ok = one and p is None and not leak
                det = ("cheat byte read => no create_tokens; otherwise exactly create_tokens(1); both before wait_fds.remove" if ok else
                       "child exit can %s" % ("recreate a token although a cheat byte was eaten" if p is not None else "forget the job without recreating its token"))
    ctx.ob("R8.3", "block_on|child-exit-token-recreated-xor-cheat-eaten", ok, where=ctx.where(bo, cts[0]) if cts else bo.span, detail=det)
    surplus_released(ctx, "R8.3")

    # ---- R8.4 / token preconditions
    token_preconditions(ctx, "R8.4", include_release_mine=False)

    # ---- R8.5
    token_read_guard(ctx, "R8.5")

    # ---- R8.8
    S = anchors.scheduler(prog)
    s_ba = BA.of(S)
    cw = classify_waits(S)
    gains = {r for _, r in cw["gain"] if r is not None}
    ends = common.ok_returns(S) or s_ba.returns()
    pts = [("wait_all-resume", r, p) for p, r in cw["loss"] if r is not None]
    pts += [("release_mine-return", S.blocks[i]["term"].get("target"), i) for i in s_ba.calls(r"jobserver::JobServerHandle::release_mine")]
    for k, (nm, lb, at) in common.ordinal_keys([(x[0], x) for x in pts]):
        if lb is None:
            continue
        p = s_ba.path([lb], ends, avoid=frozenset(gains), incl=True)
        ctx.ob("R8.8", "%s|%s->end-of-passes" % (S.key, k), p is None, where=ctx.where(S, at),
               detail="a token is re-acquired on every path from here to the end of the scheduling passes" if p is None else
               "the process can finish its passes (and exit) holding no token although it gave its own away: its parent recreates one for it, so a token appears from nothing",
               witness={"path": p[:25] if p else None})

    # ---- R8.9
    su = prog.one(r"jobserver::JobServer::setup")
    uba = BA.of(su)
    msw = None
    for sw in sorted(uba.live):
        t = su.blocks[sw]["term"]
        if t["t"] == "switch" and t["discr_ty"] == "i32" and op_local(t["discr"]) == 1:
            msw = (sw, {v: tg for v, tg in t["arms"]}, t["otherwise"])
    somes = [i for i in common.blocks_with_agg(su, r"core::option::Option", "Some") if any(
        s_["s"] == "assign" and s_["rv"]["k"] == "agg" and s_["rv"].get("variant") == "Some" and "(i32, i32)" in su.locals[s_["place"]["l"]] and su.local_name(s_["place"]["l"]) == "token_fds"
        for s_ in su.blocks[i]["stmts"])]
    ok = False
    if msw and somes:
        sw, arms, other = msw
        z = arms.get(0)
        ok = z is not None and all(uba.edge_dominates((sw, z), x) for x in somes) and z != other and arms.get(1) != z
    ctx.ob("R8.9", "setup|inherited-pipe-only-for-j0", ok, where=su.span,
           detail="token_fds = Some(inherited pipe) only on the max_jobs == 0 arm" if ok else "an explicit -j1/-jN keeps using the parent's token pipe: the requested limit is ignored below it")
    ct = uba.calls(r"jobserver::ServerState::create_tokens")
    ok = False
    if ct:
        sl, org, ar = backward_direct(su, op_local(su.blocks[ct[0]]["term"]["args"][1]))
        subs = []
        for l in sl:
            for d in uba.defs.get(l, []):
                if d[0] == "stmt" and d[3]["k"] == "binop" and d[3]["op"].startswith("Sub") and const_int(d[3]["b"]) == 1:
                    subs.append(d)
        ok = bool(subs) and 1 in sl
    ctx.ob("R8.9", "setup|primed-with-max_jobs-1", ok, where=su.span, detail="create_tokens(realmax - 1) with realmax derived from max_jobs" if ok else "the new jobserver is not primed with max_jobs - 1 tokens")

    # ---- R8.6
    dj = prog.find(r"<jobserver::JobServer as core::ops::drop::Drop>::drop")
    ok = False
    if len(dj) == 1:
        d = dj[0]
        dba = BA.of(d)
        calls = dba.calls(r"jobserver::JobServer::do_force_return_tokens")
        sws = common.field_switches(d, "jobserver::JobServer.dropped")
        if calls and len(sws) == 1:
            sw, t_t, f_t = sws[0]
            p = dba.path([f_t], dba.returns(), avoid=frozenset(calls), incl=True)
            ok = p is None
    ctx.ob("R8.6", "Drop-for-JobServer|returns-tokens-unless-done", ok, where=dj[0].span if dj else "",
           detail="drop() calls do_force_return_tokens unless already done" if ok else "JobServer can be dropped without returning its tokens")
    for key in (r"@bin::ifchange::run::\{closure#0\}", r"@bin::run_redo::\{closure#0\}"):
        b = prog.one(key)
        ba = BA.of(b)
        bos = ba.calls(r"jobserver::JobServer::block_on")
        frs = ba.calls(r"jobserver::JobServer::force_return_tokens")
        ok = len(bos) == 1 and frs and ba.path(bos, ba.returns(), avoid=frozenset(frs)) is None
        ctx.ob("R8.6", "%s|force_return_tokens-after-block_on" % b.key, bool(ok), where=b.span,
               detail="every return after block_on passes force_return_tokens" if ok else "a path after block_on returns without force_return_tokens (only Drop remains)")
    S = anchors.scheduler(prog)
    fcl = {cl.key for _, _, cl in anchors.fork_closures(prog)}
    reach = ctx.cg.reachable([S.key, bo.key], stop=frozenset(fcl))
    bad = []
    for k in sorted(reach):
        if k == "<indirect>":
            continue
        b = prog.bodies[k]
        ba = BA.of(b)
        for i in ba.calls(r"std::process::exit"):
            if b.key == st.key and in_child_arm(st, i):
                continue
            bad.append((k, i))
    ctx.ob("R8.6", "no-process-exit-under-scheduler", not bad, where=", ".join(ctx.where(prog.bodies[k], i) for k, i in bad[:3]),
           detail="no process::exit reachable from builder::run / block_on in the parent (%d bodies searched)" % len(reach) if not bad else
           "process::exit reachable while the JobServer is alive: its destructor does not run and tokens are not returned: %s" % [k for k, _ in bad])

    # ---- R8.7
    poll = prog.one(r"<jobserver::AllJobsDone as core::future::future::Future>::poll")
    pba = BA.of(poll)
    rm = pba.calls(r"jobserver::ServerState::release_mine")
    running = pba.switches_on_call(r"jobserver::ServerState::is_running")
    ok = False
    if rm and running:
        sw, t_t, f_t, _ = running[0]
        ok = all(pba.edge_dominates((sw, t_t), r) for r in rm)
    ctx.ob("R8.7", "AllJobsDone::poll|release_mine-only-while-running", ok, where=poll.span,
           detail="release_mine() is dominated by is_running() == true" if ok else "own token can be released although no child runs (a terminating redo would exit without a token)")
    tt = pba.calls(r"jobserver::AllJobsDone::test_tokens")
    ok = False
    if tt and running:
        sw, t_t, f_t, _ = running[0]
        ok = all(pba.edge_dominates((sw, f_t), r) for r in tt)
    ctx.ob("R8.7", "AllJobsDone::poll|self-test-only-when-idle", ok, where=poll.span,
           detail="test_tokens() is dominated by is_running() == false" if ok else "token self-test may run while children still hold tokens")


def surplus_released(ctx, rid):
    """After a child's token is recreated the surplus goes back to the pipe before the next event is
    handled: create_tokens(1) -> has_token() -> release_except_mine, so that a wake-up that reaps
    several children cannot leave my_tokens > 1."""
    prog = ctx.prog
    bo = anchors.event_loop(prog)
    ba = BA.of(bo)
    cts = ba.calls(r"jobserver::ServerState::create_tokens")
    rel = ba.calls(r"jobserver::ServerState::release_except_mine")
    removes = ba.calls(r"std::collections::hash::map::HashMap::remove")
    hts = ba.switches_on_call(r"jobserver::ServerState::has_token")
    ok = False
    if cts and rel and removes and hts:
        ct = cts[0]
        # the has_token test and the release come after the recreate and before the job is forgotten
        ok = any(ba.dominates(ct, sw) and all(ba.edge_dominates((sw, t_t), r) for r in rel) for (sw, t_t, f_t, c) in hts)
        p = ba.path([ct], removes, avoid=frozenset(sw for (sw, _, _, _) in hts))
        ok = ok and p is None
    ctx.ob(rid, "%s|surplus-released-after-recreate" % bo.key, ok, where=ctx.where(bo, cts[0]) if cts else bo.span,
           detail="create_tokens(1) is followed by has_token() => release_except_mine() before the job is forgotten" if ok else
           "the surplus is not released after the child's token was recreated: two children reaped in one wake-up leave my_tokens == 2 and the `my_tokens == 1` assertions fire")


def is_panic_path(body, bb):
    t = body.blocks[bb]["term"]
    return t["t"] == "call" and any(p.startswith("core::panicking::") for p in callee_paths(t))


def in_child_arm(st, bb):
    """In JobServerHandle::start: is block bb on the ForkResult::Child side of the fork result?"""
    ba = BA.of(st)
    for sw in sorted(ba.live):
        es = ba.enum_switch(sw)
        if not es:
            continue
        place, arms, other = es
        if "ForkResult" not in st.locals[place["l"]]:
            continue
        # Parent is variant 0, Child is variant 1 (nix::unistd::ForkResult { Parent{child}, Child })
        ch = arms.get(1, other)
        if ba.edge_dominates((sw, ch), bb) and ch != arms.get(0):
            return True
    return False


def add_operand(body, w):
    """For a field write `X.f = tmp.0` where tmp = AddWithOverflow(X.f, k): return ('int', k) or
    ('local', l) for the addend."""
    bb, j, s = w
    ba = BA.of(body)
    rv = s["rv"]
    p = op_place(rv.get("op")) if rv["k"] == "use" else None
    if rv["k"] == "binop":
        b = rv
    elif p is not None:
        d = ba.single_def(p["l"])
        if not d or d[0] != "stmt" or d[3]["k"] != "binop":
            return None
        b = d[3]
    else:
        return None
    if not b["op"].startswith(("Add", "Sub")):
        return None
    k = const_int(b["b"])
    if k is not None:
        return ("int", k)
    l = op_local(b["b"])
    if l is not None:
        # normalise through copies
        sl, _, _ = backward_direct(body, l)
        named = sorted(x for x in sl if body.local_name(x) != "_%d" % x)
        return ("local", named[0] if named else l)
    return None


def cmp_field_switches(body, field, op, value):
    """bool switches on `<place ending in field> <op> value`: [(sw, true_t, false_t, kind, info)]."""
    ba = BA.of(body)
    out = []
    for i in sorted(ba.live):
        bs = ba.bool_switch(i)
        if not bs:
            continue
        t_t, f_t, (kind, info) = bs
        if kind != "binop":
            continue
        rv = info[1]
        if rv["op"] != op or const_int(rv["b"]) != value:
            continue
        if common.reads_field(body, {"k": "use", "op": rv["a"]}, field):
            out.append((i, t_t, f_t, kind, info))
    return out


def classify_waits(S):
    """Classify the awaits of the scheduler by what they wait for.
    Returns dict: 'gain' -> ready blocks of awaits completing an ensure_token_or_cheat (directly or as the
    foreground future of wait_for); 'loss' -> ready blocks of awaits of wait_all (the process may come back
    with no token)."""
    ba = BA.of(S)
    gain, loss, other = [], [], []
    for (pbb, y, ready, callee) in ba.awaits():
        t = S.blocks[pbb]["term"]
        sl, origins, _ = backward_direct(S, op_local(t["args"][0]), depth=200)
        names = set()
        todo = list(origins)
        seen_calls = set()
        while todo:
            o = todo.pop()
            if o[0] != "call" or o[1] in seen_calls:
                continue
            seen_calls.add(o[1])
            names.update(callee_paths(o[2]))
            if call_matches(o[2], r"builder::wait_for"):
                # the foreground future of wait_for decides what this await waits for
                _, org2, _ = backward_direct(S, op_local(o[2]["args"][0]), depth=200)
                todo.extend(org2)
        if any(n.endswith("JobServerHandle::ensure_token_or_cheat") for n in names):
            gain.append((pbb, ready))
        elif any(n.endswith("JobServerHandle::wait_all") for n in names):
            loss.append((pbb, ready))
        else:
            other.append((pbb, ready, sorted(names)))
    return {"gain": gain, "loss": loss, "other": other}


def token_preconditions(ctx, rid, include_release_mine):
    """Every path from a point where the process may hold no token (resume of wait_all, return of
    release_mine, return of a job start which destroys the token) to the next job start
    (asserts my_tokens == 1) - and to release_mine (asserts >= 1) - passes a completed
    ensure_token_or_cheat."""
    prog = ctx.prog
    S = anchors.scheduler(prog)
    ba = BA.of(S)
    start_key = anchors.job_start(prog).key
    cw = classify_waits(S)
    gains = {r for _, r in cw["gain"] if r is not None}
    ctx.floor(rid, "awaited ensure_token_or_cheat in the scheduler", len(gains), 2)
    ctx.floor(rid, "awaited wait_all in the scheduler", len(cw["loss"]), 1)
    starts = ba.calls(re.escape(start_key))
    rms = ba.calls(r"jobserver::JobServerHandle::release_mine")
    loss_points = [("wait_all-resume", r, p) for p, r in cw["loss"] if r is not None]
    loss_points += [("release_mine-return", S.blocks[i]["term"].get("target"), i) for i in rms]
    loss_points += [("job-start-return", S.blocks[i]["term"].get("target"), i) for i in starts]
    sinks = [("job-start", starts)]
    if include_release_mine:
        sinks.append(("release_mine", rms))
    for k, (lname, lb, at) in common.ordinal_keys([(x[0], x) for x in loss_points]):
        if lb is None:
            continue
        # a path that meets another loss point first is that point's instance, not this one's
        other_loss = {x[1] for x in loss_points if x[1] is not None and x[1] != lb and x[0] != "job-start-return"}
        for sname, sbs in sinks:
            p = ba.path([lb], sbs, avoid=frozenset(gains | other_loss), incl=True)
            ctx.ob(rid, "%s|%s->%s" % (S.key, k, sname), p is None, where=ctx.where(S, at),
                   detail=("after %s the process may hold no token, yet a path reaches %s (which asserts on the token count) without a completed ensure_token_or_cheat" % (lname, sname))
                   if p else "token re-acquired on every path from %s to %s" % (lname, sname),
                   witness={"path": p[:25] if p else None})


def token_read_guard(ctx, rid):
    prog = ctx.prog
    bo = anchors.event_loop(prog)
    ba = BA.of(bo)
    incs = field_writes(bo, MY)
    sel = [i for i in ba.calls(r"nix::sys::select::select")]
    if not ctx.ob(rid, "%s|anchors" % bo.key, len(incs) == 1 and len(sel) == 1, where=bo.span, detail="token increment and select() located"):
        return
    ib = incs[0][0]
    guards = []
    for sw in sorted(ba.live):
        bs = ba.bool_switch(sw)
        if not bs:
            continue
        t_t, f_t, (kind, info) = bs
        no_token_edge = None
        if kind == "call" and call_matches(info[1], r"jobserver::ServerState::has_token"):
            no_token_edge = f_t
        elif kind == "binop" and common.reads_field(bo, {"k": "use", "op": info[1]["a"]}, "jobserver::ServerState.my_tokens"):
            op, k = info[1]["op"], const_int(info[1]["b"])
            if (op, k) in (("Ge", 1), ("Gt", 0), ("Ne", 0)):
                no_token_edge = f_t
            elif (op, k) in (("Lt", 1), ("Le", 0), ("Eq", 0)):
                no_token_edge = t_t
        if no_token_edge is None:
            continue
        if ba.dominates(sel[0], sw) and ba.edge_dominates((sw, no_token_edge), ib):
            guards.append(sw)
    ctx.ob(rid, "%s|token-read-guarded-by-no-token" % bo.key, bool(guards), where=ctx.where(bo, ib),
           detail="the token read is dominated by a 'holds no token' test made after select()" if guards else
           "a child exit handled in the same wake-up can recreate a token and the token pipe is still read: my_tokens becomes 2, "
           "one token too many is taken from the pool and the `my_tokens == 1` assertions fire")
