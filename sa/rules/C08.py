"""C08 - Job tokens are conserved and -j is respected (accounting discipline, not the arithmetic)."""
import re

import anchors
from core import (BA, FAL, call_matches, callee_paths, op_local, op_place, op_const, const_int, const_str, taint,
                  place_fields, rvalue_places, field_writes, field_mut_refs, field_reads)
from facts import strip_generics
from rules import common
from rules.C06 import backward_direct

EXPLANATION = (
    "Static accounting-discipline rules on the jobserver: the token counters are written only by the audited "
    "functions (who-may-write, no &mut escapes); pipe writes/reads are paired with counter updates (release shares "
    "exactly the non-cheat decrements; a token read increments once); fork is preceded by destroy_tokens(1) and each "
    "child exit either eats a cheat byte or recreates exactly one token; every path to a job start passes a completed "
    "token acquisition since the last point where the process may have given its token away; the token-pipe read is "
    "guarded by 'holds no token' within the same wake-up; tokens are returned on every exit path (Drop / "
    "force_return_tokens, no process::exit reachable from the scheduler in the parent); the own token is released "
    "only while children run. Does NOT decide the numeric invariant tokens - cheats = N over schedules."
)
ASSUMPTIONS = ["pipe reads/writes transfer exactly the bytes requested", "unwind (panic) edges excluded",
               "child side of fork (ForkResult::Child arm and the job closures) is a different process and excluded from parent-side rules"]

class Roles:
    """The jobserver's own vocabulary resolved by role (names second): the two token counters and the two pipes.

    my / ch      canonical 'Type.field' names of the held-token counter and the cheat counter
    MY / CH      the same as regular expressions (for field_writes & co.)
    account      ADT that declares the counters; holders: fields (of other structs) whose type is that ADT
    token / cheat  canonical names of the ServerParams fields holding the token pipe / the cheat pipe"""

    _cache = {}

    @classmethod
    def of(cls, prog):
        r = cls._cache.get(id(prog))
        if r is None or r.prog is not prog:
            r = cls(prog)
            cls._cache[id(prog)] = r
        return r

    def __init__(self, prog):
        self.prog = prog
        self.my, self.ch = counter_fields(prog)
        self.MY, self.CH = re.escape(self.my), re.escape(self.ch)
        self.account = self.my.rpartition(".")[0]
        self.holders = set()
        for name, a in prog.adts.items():
            for v in a["variants"]:
                for f in v["fields"]:
                    if f["ty"] == self.account:
                        self.holders.add("%s.%s" % (name, f["name"]))
        self.token, self.cheat = pipe_fields(prog)


def _field_of_operand(body, o, depth=6):
    """Canonical name of the struct field whose value operand `o` is a copy of (through temporaries), or None."""
    ba = BA.of(body)
    for _ in range(depth):
        p = op_place(o)
        if p is None:
            return None
        fs = place_fields(p)
        if fs:
            return fs[-1]
        d = ba.single_def(p["l"])
        if d is None or d[0] != "stmt" or d[3]["k"] != "use":
            return None
        o = d[3]["op"]
    return None


def counter_fields(prog):
    """(held-token counter, cheat counter) as canonical field names. By name when the reference names exist; otherwise
    by role: the held-token counter is the integer field that ServerState::has_token compares with a constant to
    produce its answer, the cheat counter is the one other field of the same type declared next to it."""
    a = prog.adts.get("jobserver::ServerState")
    names = [f["name"] for f in a["variants"][0]["fields"]] if a and len(a["variants"]) == 1 else []
    if "my_tokens" in names and "cheats" in names:
        return "jobserver::ServerState.my_tokens", "jobserver::ServerState.cheats"
    ht = prog.one(r"jobserver::ServerState::has_token")
    ba = BA.of(ht)
    sl, _, _ = backward_direct(ht, 0, depth=40)
    cands = set()
    for l in sl | {0}:
        for d in ba.defs.get(l, []):
            if d[0] == "stmt" and d[3]["k"] == "binop" and d[3]["op"] in ("Ge", "Gt", "Ne", "Lt", "Le", "Eq"):
                for x, y in ((d[3]["a"], d[3]["b"]), (d[3]["b"], d[3]["a"])):
                    if const_int(y) is not None:
                        f = _field_of_operand(ht, x)
                        if f is not None:
                            cands.add(f)
    if len(cands) != 1:
        from facts import AnchorError
        raise AnchorError("held-token counter: ServerState::has_token compares %d fields with a constant: %s" % (len(cands), sorted(cands)))
    my = cands.pop()
    adt, _, fname = my.rpartition(".")
    decl = prog.adts.get(adt)
    ty = None
    others = []
    if decl and len(decl["variants"]) == 1:
        fl = decl["variants"][0]["fields"]
        ty = next((f["ty"] for f in fl if f["name"] == fname), None)
        others = [f["name"] for f in fl if f["name"] != fname and f["ty"] == ty]
    if len(others) != 1:
        from facts import AnchorError
        raise AnchorError("cheat counter: %s declares %d other fields of type %s next to %s" % (adt, len(others), ty, fname))
    return my, "%s.%s" % (adt, others[0])


def pipe_fields(prog):
    """(token pipe, cheat pipe) as canonical names of fields of ServerParams. By name when the reference names exist;
    otherwise by role: the token pipe is the field that JobServer::setup can fill with the pipe parsed from MAKEFLAGS
    (parse_makeflags), the cheat pipe is the one other field of the same type."""
    adt = "jobserver::ServerParams"
    a = prog.adts.get(adt)
    fl = a["variants"][0]["fields"] if a and len(a["variants"]) == 1 else []
    names = [f["name"] for f in fl]
    if "token_fds" in names and "cheat_fds" in names:
        return adt + ".token_fds", adt + ".cheat_fds"
    from facts import AnchorError
    su = prog.one(r"jobserver::JobServer::setup")
    inherited = taint(su, src_call=lambda t_: call_matches(t_, r"jobserver::parse_makeflags"), mode="direct")
    cands = set()
    for _, _, s_ in anchors.agg_sites(su, re.escape(adt)):
        for fname, o in zip(s_["rv"].get("fields") or [], s_["rv"]["ops"]):
            if op_local(o) is not None and op_local(o) in inherited:
                cands.add(fname)
    if len(cands) != 1:
        raise AnchorError("token pipe: %d fields of ServerParams are filled from parse_makeflags in setup: %s" % (len(cands), sorted(cands)))
    tok = cands.pop()
    ty = next(f["ty"] for f in fl if f["name"] == tok)
    others = [f["name"] for f in fl if f["name"] != tok and f["ty"] == ty]
    if len(others) != 1:
        raise AnchorError("cheat pipe: ServerParams declares %d other fields of type %s" % (len(others), ty))
    return "%s.%s" % (adt, tok), "%s.%s" % (adt, others[0])

WRITERS_MY = {
    "<jobserver::ServerState as core::default::Default>::default": "initial value 1: every process owns one token at start",
    "jobserver::ServerState::create_tokens": "materialise n tokens (cheats absorb first)",
    "jobserver::ServerState::destroy_tokens": "destroy n owned tokens (before fork / when compensating a cheat)",
    "jobserver::ServerState::release": "give n tokens back to the pipe",
    "jobserver::JobServer::block_on": "token byte read from the pipe",
    "jobserver::JobServerHandle::ensure_token_or_cheat::{closure#0}": "cheat: synthesise a token while redo-log follows us",
}
WRITERS_CH = {
    "<jobserver::ServerState as core::default::Default>::default": "initial value 0",
    "jobserver::ServerState::create_tokens": "a created token cancels a cheat",
    "jobserver::ServerState::release": "a released token cancels a cheat",
    "jobserver::JobServerHandle::ensure_token_or_cheat::{closure#0}": "cheat taken",
}


def counter_aggs(R, body):
    """Blocks of `body` that build a struct holding the token counters (ServerState, or the account struct the
    counters were moved into) from scratch. A compiler-derived impl of that struct (field-wise Clone, ...) is not
    accounting code."""
    adts = {"jobserver::ServerState", R.account}
    m = re.fullmatch(r"<(.+) as (.+)>::[A-Za-z0-9_]+", body.key)
    if m and m.group(1) in adts:
        decl = R.prog.adts.get(m.group(1)) or {}
        if any(i.get("derived") and i.get("trait") == m.group(2) for i in decl.get("impls", [])):
            return []
    return [bb for bb, _, _ in anchors.agg_sites(body, "|".join(re.escape(a) for a in sorted(adts)))]


def writers(prog, field_rx, R=None):
    R = R or Roles.of(prog)
    which = "MY" if field_rx == R.MY else "CH"
    out = {}
    for b in prog.bodies.values():
        w = [u.bb for u in account_updates(R, b) if u.which == which]
        if w:
            out[b.key] = w
        ag = counter_aggs(R, b)
        if ag:
            out.setdefault(b.key, []).extend(ag)
    return out


def run(ctx):
    prog = ctx.prog
    ctx.rule("R8.1", "who-may-write: ServerState.my_tokens / .cheats are assigned only by the audited accounting functions, never through an escaped &mut; the cheat arm adds the same amount to both")
    ctx.rule("R8.2", "pipe/counter pairing: token-pipe writes only in release (count = non-cheat decrements) and the self-test; token-pipe reads only in the event loop (one increment per byte) and the self-test; cheat pipe written only after destroy_tokens(cheats)")
    ctx.rule("R8.3", "fork pairing: destroy_tokens(1) dominates fork; per child exit: cheat byte read => no create_tokens, nothing read => create_tokens(1); both before the job is forgotten")
    ctx.rule("R8.4", "-j: every path to a job start passes a completed ensure_token_or_cheat since the last point where the process may hold no token")
    ctx.rule("R8.5", "the token-pipe read that increments my_tokens is guarded, after select() of the same wake-up, by a test that the process holds no token")
    ctx.rule("R8.6", "tokens are returned on exit: Drop for JobServer and force_return_tokens on the path after block_on; no process::exit reachable from the scheduler in the parent process")
    ctx.rule("R8.8", "the scheduling passes end holding a token: from every point where the own token was given away (wait_all resume, release_mine) a completed ensure_token_or_cheat lies on every path to the normal end of the passes")
    ctx.rule("R8.9", "JobServer::setup: the inherited token pipe is used only for -j0 (an explicit -j1 or -jN gets its own jobserver); a new jobserver is primed with max_jobs - 1 extra tokens")
    ctx.rule("R8.7", "wait_all releases the process's own token only while children run; the top-level self-test runs only when none remain")

    R = Roles.of(prog)

    # ---- R8.1
    # Audited accounting operations whose reference function may have been inlined or moved (a method of another
    # type): their effect written out in place is the same audited operation, wherever it stands - any body may
    # already perform it by calling the function. Recognised by effect (create_sites / destroy_sites), never by name.
    IN_PLACE = {"jobserver::ServerState::create_tokens": create_sites, "jobserver::ServerState::destroy_tokens": destroy_sites}
    for fld, which, table, nm in ((R.MY, "MY", WRITERS_MY, "my_tokens"), (R.CH, "CH", WRITERS_CH, "cheats")):
        w = writers(prog, fld, R)
        found = {k for k in w if k in table}
        for k in sorted(w):
            ok, det = k in table, ("audited: " + table[k]) if k in table else "body writes ServerState.%s but is not one of the audited accounting functions" % nm
            if not ok:
                b = prog.bodies[k]
                mine = [u for u in account_updates(R, b) if u.which == which]
                covered = {}
                for ref, finder in IN_PLACE.items():
                    if ref not in table:
                        continue
                    for st_ in (finder(prog, b, inline_only=True) if finder is create_sites else finder(prog, b, inline_only=True, sites=True)):
                        for u in st_.upds:
                            covered[(u.bb, u.idx, u.which)] = ref
                if mine and not counter_aggs(R, b) and all((u.bb, u.idx, u.which) in covered for u in mine):
                    refs = sorted({covered[(u.bb, u.idx, u.which)] for u in mine})
                    ok, det = True, "audited effect in place: " + "; ".join(table[r_] for r_ in refs)
                    found.update(r_ for r_ in refs if r_ not in prog.bodies)
            ctx.ob("R8.1", "writer-of-%s|%s" % (nm, k), ok, where=ctx.where(prog.bodies[k], w[k][0]), detail=det)
        ctx.floor("R8.1", "writers of %s" % nm, len(found), len(table))
        refs = [(b.key, bb) for b in prog.bodies.values() for bb, _ in field_mut_refs(b, fld)]
        ctx.ob("R8.1", "no-&mut-of-%s" % nm, not refs, where=", ".join("%s bb%d" % r for r in refs[:3]),
               detail="no mutable borrow of the counter escapes" if not refs else "counter is mutably borrowed (writes through the reference are not audited)")
    eb = prog.one(r"jobserver::JobServerHandle::ensure_token_or_cheat::\{closure#0\}")
    eups = account_updates(R, eb)
    wm = [u for u in eups if u.which == "MY"]
    wc = [u for u in eups if u.which == "CH"]
    same = (len(wm) == 1 and len(wc) == 1 and wm[0].sign == "+" and wc[0].sign == "+" and wm[0].lin == wc[0].lin
            and together(BA.of(eb), wm[0].bb, wc[0].bb))
    ctx.ob("R8.1", "cheat-arm|same-amount", same, where=ctx.where(eb, wm[0].bb) if wm else eb.span,
           detail="my_tokens and cheats are increased by the same operand" if same else "cheat arm does not add the same amount to my_tokens and cheats")

    # ---- R8.2
    # who performs pipe I/O. write_tokens / try_read are wrappers of unistd::write / unistd::read used by the bodies
    # below: whether those go through the wrapper or do the system call themselves is the same effect, so they are
    # audited callers of the system call too (what release writes is judged by the pairing rule below, what
    # do_force_return_tokens writes by the cheat-pipe rule, what the event loop and the self-test read by theirs);
    # when a wrapper does not exist nobody can call it.
    PIPE_WRITERS = {"jobserver::ServerState::release", "jobserver::JobServer::do_force_return_tokens"}
    PIPE_READERS = {"jobserver::JobServer::block_on", "jobserver::AllJobsDone::test_tokens"}
    who = {
        r"jobserver::write_tokens": (PIPE_WRITERS, "jobserver::write_tokens" in prog.bodies),
        r"jobserver::try_read": (PIPE_READERS, "jobserver::try_read" in prog.bodies),
        r"nix::unistd::write": ({"jobserver::write_tokens", "jobserver::AllJobsDone::test_tokens"} | PIPE_WRITERS, True),
        r"nix::unistd::read": ({"jobserver::try_read", "builder::StdinLogReaderBuilder::start"} | PIPE_READERS, True),
    }
    for rx, (allowed, must_exist) in who.items():
        callers = {b.key for b in anchors.bodies_calling(prog, rx) if b.key.startswith(("jobserver::", "builder::", "state::"))}
        ctx.ob("R8.2", "who-calls|%s" % rx, callers <= allowed and (bool(callers) or not must_exist), detail="callers: %s" % sorted(callers),
               where=", ".join(prog.bodies[c].span for c in sorted(callers - allowed)))
    rel = prog.one(r"jobserver::ServerState::release")
    rba = BA.of(rel)
    # every byte count release hands to the pipe (write_tokens(fd, n) or a write of a buffer built from n) is the
    # number of released tokens that no cheat absorbed. Two ways to compute it are recognised:
    #   per token   a loop that decrements my_tokens once per pass and, per pass, either cancels a cheat or counts
    #               one token to share (the count is the local incremented exactly on the non-cheat side);
    #   at once     my_tokens -= n and cheats -= v once each, and the count written is n - v.
    wt = rba.calls(PIPE_WRITE)
    ok = False
    det = "write_tokens operand is not the count of non-cheat decrements"
    rups = account_updates(R, rel)
    decs_my = [u.bb for u in rups if u.which == "MY"]
    decs_ch = [u.bb for u in rups if u.which == "CH"]
    if wt and decs_my and decs_ch and all(u.sign == "-" for u in rups):
        incs = set()
        per_write = True
        for wb in wt:
            mine = written_count_increments(rel, wb)
            per_write = per_write and bool(mine)
            incs |= mine
        chsw = positive_switches(rel, R.ch)
        if len(chsw) == 1 and per_write and incs:
            sw, t_t, f_t = chsw[0]
            # (over feasible paths: the cheat test may sit in a helper that returns whether it cancelled one - spliced in, its
            # bool result is a constant on each side and decides the caller's branch)
            rfa = FAL.of(rel)
            ok = (all(rfa.edge_dominates((sw, f_t), i) for i in incs)
                  and all(rfa.edge_dominates((sw, t_t), i) for i in decs_ch)
                  and paired_per_pass(rfa, decs_my, sorted(incs | set(decs_ch)), list(wt) + rba.returns()))
            if ok:
                det = "per released token: my_tokens -= 1 always; cheats -= 1 on the cheat side; shared count += 1 exactly on the other side"
        if not ok and len(rups) == 2 and len(decs_my) == 1 and len(decs_ch) == 1:
            um = next(u for u in rups if u.which == "MY")
            uc = next(u for u in rups if u.which == "CH")
            counts = [written_count(rel, wb) for wb in wt]
            once = (rba.path([um.bb], [um.bb]) is None and rba.path([uc.bb], [uc.bb]) is None
                    and all(rba.dominates(um.bb, wb) and rba.dominates(uc.bb, wb) for wb in wt))
            agree = all(c is not None and c == um.lin - uc.lin for c in counts)
            # nothing is written only when there is nothing to share
            zero = set()
            for c in counts:
                if c is not None:
                    zero |= set(zero_edges(rel, c))
            skipped = rba.path([0], common.ok_returns(rel) or rba.returns(), avoid=frozenset(wt), cut_edges=frozenset(zero), incl=True)
            ok = once and agree and skipped is None
            if ok:
                det = "my_tokens -= n and cheats -= v once each; the count written is n - v, and the write is skipped only when that is zero"
    ctx.ob("R8.2", "release|shares-non-cheat-decrements", ok, where=rel.span, detail=det)
    bo = anchors.event_loop(prog)
    bba = BA.of(bo)
    bfa = Feas(bo)
    # what the event loop does to the counters: token re-creations (per child exit, judged by R8.3) and increments
    bo_creates = create_sites(prog, bo)
    in_create = {(u.bb, u.idx, u.which) for st_ in bo_creates for u in st_.upds}
    bo_ups = [u for u in account_updates(R, bo) if (u.bb, u.idx, u.which) not in in_create]
    incs = [u for u in bo_ups if u.which == "MY"]
    treads = fd_calls(bo, READ_CALL, R.token)
    tattempts = {fd_load_block(bo, tr, R.token) for tr in treads}
    ok = bool(incs) and bool(treads) and not [u for u in bo_ups if u.which == "CH"]
    det = "token read and my_tokens increment are not paired"
    for u in incs:
        ib = u.bb
        # on the `one byte read` edge of a test of a token-pipe read's result, and only once per read
        one = False
        for tr in treads:
            if not bfa.dominates(tr, ib):
                continue
            res = taint(bo, seeds={bo.blocks[tr]["term"]["dest"]["l"]}, mode="direct")
            if any(bfa.dominates(tr, e[0]) and bfa.edge_dominates(e, ib) for e in common.eq_const_edges(bo, lambda l: l in res, 1)):
                one = True
        again = bba.path([ib], [x.bb for x in incs], avoid=frozenset(treads) | frozenset(tattempts))
        ok = ok and one and u.sign == "+" and u.lin.const() == 1 and again is None
    # and the other way round: a byte taken out of the token pipe is never dropped - from the `one byte read` edge of
    # every token-pipe read the increment lies on every path to the next read attempt / the end of the loop
    for tr in treads:
        res = taint(bo, seeds={bo.blocks[tr]["term"]["dest"]["l"]}, mode="direct")
        got = [e for e in common.eq_const_edges(bo, lambda l: l in res, 1) if bfa.dominates(tr, e[0])]
        lost = bba.path([tg for _, tg in got], sorted(tattempts) + bba.returns(), avoid=frozenset(x.bb for x in incs), incl=True) if got else [tr]
        if lost is not None:
            ok = False
            det = "a byte read from the token pipe is not counted: the token is lost"
    if ok:
        det = "my_tokens += 1 exactly in the arm where one byte was read from the token pipe"
    ctx.ob("R8.2", "block_on|token-read-increments-once", ok, where=ctx.where(bo, incs[0].bb) if incs else bo.span, detail=det)
    frt = prog.one(r"jobserver::JobServer::do_force_return_tokens")
    fba = BA.of(frt)
    wt = fd_calls(frt, PIPE_WRITE, R.cheat)
    dt = destroy_sites(prog, frt)
    # (every pipe write of this function is such a cheat-pipe write: it returns real tokens only through release)
    ok = bool(wt) and bool(dt) and all(any(fba.dominates(d, x) for d in dt) for x in wt) and set(fba.calls(PIPE_WRITE)) == set(wt)
    ctx.ob("R8.2", "force_return|cheat-pipe-after-destroy", bool(ok), where=frt.span,
           detail="cheat pipe is written only after destroy_tokens(cheats)" if ok else "cheat byte written without destroying the cheated token")

    # the top-level self-test puts back exactly what it took out: the bytes written to the token pipe are a slice
    # `buf[..n]` where buf is the buffer a token-pipe read filled and n is what that same read returned (followed
    # through the locals / struct fields / Option and Result wrappers the values travel in)
    tt = prog.one(r"jobserver::AllJobsDone::test_tokens")
    tba = BA.of(tt)
    wr = fd_calls(tt, r"nix::unistd::write", R.token)
    trs = fd_calls(tt, READ_CALL, R.token)
    ok = False
    det = "write-back not recognised"
    if len(wr) == 1 and len(trs) == 1:
        sl, org, _ = backward_direct(tt, op_local(tt.blocks[wr[0]]["term"]["args"][1]), depth=60)
        idx = [o for o in org if o[0] == "call" and any("ops::index::Index" in p_ for p_ in callee_paths(o[2]))]
        if idx:
            first = trs[0]
            rt = tt.blocks[first]["term"]
            buf0 = tba.base_local_of_ref(op_local(rt["args"][1]))
            from_buf = taint(tt, seeds={buf0}, mode="direct")
            cnt = taint(tt, seeds={rt["dest"]["l"]}, mode="direct", through=re.compile(r"core::option::Option::unwrap_or"))
            same_buf = op_local(idx[0][2]["args"][0]) in from_buf
            same_cnt = op_local(idx[0][2]["args"][1]) in cnt
            ok = same_buf and same_cnt
            det = "write(token_fds.1, &buf[..n]) with buf and n from the same try_read of the token pipe" if ok else "the self-test does not write back the bytes it read"
    ctx.ob("R8.2", "test_tokens|writes-back-what-it-read", ok, where=tt.span, detail=det)

    # ---- R8.3
    st = prog.one(r"jobserver::JobServerHandle::start")
    sba = BA.of(st)
    forks = sba.calls(r"nix::unistd::fork")
    dts = destroy_sites(prog, st, amount=1)
    ok = bool(forks) and bool(dts) and all(any(sba.dominates(d, f) for d in dts) for f in forks)
    ctx.ob("R8.3", "start|destroy-before-fork", bool(ok), where=ctx.where(st, forks[0]) if forks else st.span,
           detail="destroy_tokens(1) dominates fork()" if ok else "a child is forked without destroying the parent's token")
    forkers = {b.key for b in anchors.bodies_calling(prog, r"nix::unistd::fork")}
    allowed = {"jobserver::JobServerHandle::start", "builder::StdinLogReaderBuilder::start", "state::LockManager::detect_broken_locks"}
    ctx.ob("R8.3", "who-forks", forkers <= allowed, detail="fork callers: %s" % sorted(forkers))
    # child-exit arm
    # Stated per child exit = per execution of the cheat-pipe read (the read whose fd operand is the cheat pipe of
    # ServerParams): until the job is forgotten (wait_fds.remove) or the next cheat read,
    #   one byte read (the edge `count == 1` of a test of that read's result) => no create_tokens;
    #   any other outcome => create_tokens before the job is forgotten;
    # every create_tokens of the event loop is create_tokens(1) answering such a read.
    creads = fd_calls(bo, READ_CALL, R.cheat)
    cts = [x.entry for x in bo_creates]
    removes = bba.calls(r"std::collections::hash::map::HashMap::remove")
    ok = False
    det = "child-exit arm not recognised"
    if creads and cts and removes:
        ok = True
        cattempt = {cr: fd_load_block(bo, cr, R.cheat) for cr in creads}
        for x in bo_creates:
            if x.amount is None or x.amount.const() != 1 or not any(bba.dominates(cattempt[cr], x.entry) for cr in creads):
                ok = False
                det = "the event loop creates tokens other than the one token of an exited child"
        for cr in creads:
            res = taint(bo, seeds={bo.blocks[cr]["term"]["dest"]["l"]}, mode="direct")
            eat = [e for e in common.eq_const_edges(bo, lambda l: l in res, 1) if bfa.dominates(cr, e[0])]
            if not eat:
                ok = False
                det = "child-exit arm not recognised (no test of the cheat-pipe read for one byte)"
                continue
            tgs = [tg for _, tg in eat]
            at = cattempt[cr]
            p = bba.path(tgs, cts, avoid=frozenset(removes) | {cr, at}, incl=True)
            # every other outcome of the read attempt recreates the token before the job is forgotten
            cut = frozenset(eat)
            leak = bfa.path([at], removes, avoid=frozenset(cts) | {at}, cut_edges=cut)
            if p is not None or leak is not None:
                ok = False
                det = "child exit can %s" % ("recreate a token although a cheat byte was eaten" if p is not None else "forget the job without recreating its token")
        if ok:
            det = "cheat byte read => no create_tokens; otherwise exactly create_tokens(1); both before wait_fds.remove"
    ctx.ob("R8.3", "block_on|child-exit-token-recreated-xor-cheat-eaten", ok, where=ctx.where(bo, cts[0]) if cts else bo.span, detail=det)
    surplus_released(ctx, "R8.3")

    # ---- R8.4 / token preconditions
    token_preconditions(ctx, "R8.4", include_release_mine=False)

    # ---- R8.5
    token_read_guard(ctx, "R8.5")

    # ---- R8.8
    S = anchors.scheduler(prog)
    s_ba = BA.of(S)
    tp = TokenPoints(prog, S)
    gains = tp.gains
    ends = common.ok_returns(S) or s_ba.returns()
    # (a coroutine awaited in place that can end without the token it gave away is a loss point of the scheduler
    # here; one that re-acquires it before it ends is not: TokenPoints)
    pts = [x for x in tp.loss if x[0] != "job-start-return"]
    for k, (nm, lb, at) in common.ordinal_keys([(x[0], x) for x in pts]):
        if lb is None:
            continue
        p = s_ba.path([lb], ends, avoid=frozenset(gains), incl=True)
        ctx.ob("R8.8", "%s|%s->end-of-passes" % (S.key, k), p is None, where=ctx.where(S, at),
               detail="a token is re-acquired on every path from here to the end of the scheduling passes" if p is None else
               "the process can finish its passes (and exit) holding no token although it gave its own away: its parent recreates one for it, so a token appears from nothing",
               witness={"path": p[:25] if p else None})

    # ---- R8.9
    su = prog.one(r"jobserver::JobServer::setup")
    uba = BA.of(su)
    # the points where the pipe parsed from MAKEFLAGS is *chosen* as this server's token pipe: `Some(..)` values
    # built from the parse_makeflags payload that flow into ServerParams.token_fds. Each must lie on the
    # `max_jobs == 0` side of a test of the function's argument (whatever the idiom: match arm, ==, !=, !).
    eq0 = common.eq_const_edges(su, lambda l: l is not None and common.copy_root(su, l) == 1, 0)
    inherited = taint(su, src_call=lambda t_: call_matches(t_, r"jobserver::parse_makeflags"), mode="direct")
    fidx = adt_field_index(prog, "jobserver::ServerParams", R.token.rpartition(".")[2])
    used = set()
    for _, _, s_ in anchors.agg_sites(su, r"jobserver::ServerParams"):
        if fidx is not None and fidx < len(s_["rv"]["ops"]) and op_local(s_["rv"]["ops"][fidx]) is not None:
            used |= backward_direct(su, op_local(s_["rv"]["ops"][fidx]), depth=200)[0]
    somes = sorted({i for i, _, s_ in anchors.agg_sites(su, r"core::option::Option")
                    if s_["rv"].get("variant") == "Some" and not s_["place"]["p"] and s_["place"]["l"] in used
                    and any(op_local(o) in inherited for o in s_["rv"]["ops"])})
    ok = bool(eq0) and bool(somes) and all(any(uba.edge_dominates(e, x) for e in eq0) for x in somes)
    ctx.ob("R8.9", "setup|inherited-pipe-only-for-j0", ok, where=ctx.where(su, somes[0]) if somes else su.span,
           detail="token_fds = Some(inherited pipe) only on the max_jobs == 0 arm" if ok else "an explicit -j1/-jN keeps using the parent's token pipe: the requested limit is ignored below it")
    ct = create_sites(prog, su)
    ok = False
    if ct:
        # the amount is `x - 1` with x computed from max_jobs (`if max_jobs == 0 {1} else {max_jobs}`,
        # `max(max_jobs, 1)`, ...), whatever temporaries and checked-arithmetic pairs it travels through
        from_max = taint(su, seeds={1}, mode="derived")
        am = ct[0].amount
        ok = (am is not None and am.c == -1 and len(am.t) == 1 and list(am.t.values()) == [1]
              and all(len(a_) == 2 and a_[0] == "l" and a_[1] in from_max for a_ in am.t))
    ctx.ob("R8.9", "setup|primed-with-max_jobs-1", ok, where=su.span, detail="create_tokens(realmax - 1) with realmax derived from max_jobs" if ok else "the new jobserver is not primed with max_jobs - 1 tokens")

    # ---- R8.6
    dj = prog.find(r"<jobserver::JobServer as core::ops::drop::Drop>::drop")
    ok = False
    if len(dj) == 1:
        d = dj[0]
        dba = BA.of(d)
        calls = dba.calls(r"jobserver::JobServer::do_force_return_tokens")
        # "already done" is whatever do_force_return_tokens records about itself in the JobServer (a bool set to
        # true, an enum set to a variant, ...): drop() may skip the call only on an edge taken exactly when a test
        # of that field finds the recorded value
        done_edges = set()
        for fld, val in self_marks(frt):
            done_edges |= set(field_value_edges(d, fld, val))
        if calls and done_edges:
            p = dba.path([0], dba.returns(), avoid=frozenset(calls), cut_edges=frozenset(done_edges), incl=True)
            ok = p is None
    ctx.ob("R8.6", "Drop-for-JobServer|returns-tokens-unless-done", ok, where=dj[0].span if dj else "",
           detail="drop() calls do_force_return_tokens unless already done" if ok else "JobServer can be dropped without returning its tokens")
    # the bodies that drive a JobServer (call block_on), found by that role: closure ordinals under the two
    # commands change when an unrelated closure is added before them. Both commands must have one.
    drivers = anchors.bodies_calling(prog, r"jobserver::JobServer::block_on")
    for parent in ("@bin::ifchange::run", "@bin::run_redo"):
        if not any(b.key == parent or b.key.startswith(parent + "::") for b in drivers):
            ctx.ob("R8.6", "%s|force_return_tokens-after-block_on" % parent, False, where="",
                   detail="no body under %s calls JobServer::block_on: the command's token return path was not found" % parent)
    for b in drivers:
        ba = BA.of(b)
        bos = ba.calls(r"jobserver::JobServer::block_on")
        frs = ba.calls(r"jobserver::JobServer::force_return_tokens")
        ok = bool(bos) and bool(frs) and ba.path(bos, ba.returns(), avoid=frozenset(frs)) is None
        ctx.ob("R8.6", "%s|force_return_tokens-after-block_on" % b.key, bool(ok), where=b.span,
               detail="every return after block_on passes force_return_tokens" if ok else "a path after block_on returns without force_return_tokens (only Drop remains)")
    S = anchors.scheduler(prog)
    fcl = {cl.key for _, _, cl in anchors.fork_closures(prog)}
    # (what is built or called only in the ForkResult::Child arm of the fork point - a closure handed to a
    # combinator there, a helper - runs in the child like the arm itself)
    reach = ctx.cg.reachable([S.key, bo.key], stop=frozenset(fcl),
                             site_filter=lambda k_, bb_, tg_, kind_: not (k_ == st.key and bb_ >= 0 and in_child_arm(st, bb_)))
    bad = []
    for k in sorted(reach):
        if k == "<indirect>":
            continue
        b = prog.bodies[k]
        ba = BA.of(b)
        for i in ba.calls(r"std::process::exit"):
            if b.key == st.key and in_child_arm(st, i):
                continue
            bad.append((k, i))
    ctx.ob("R8.6", "no-process-exit-under-scheduler", not bad, where=", ".join(ctx.where(prog.bodies[k], i) for k, i in bad[:3]),
           detail="no process::exit reachable from builder::run / block_on in the parent (%d bodies searched)" % len(reach) if not bad else
           "process::exit reachable while the JobServer is alive: its destructor does not run and tokens are not returned: %s" % [k for k, _ in bad])

    # ---- R8.7
    poll = prog.one(r"<jobserver::AllJobsDone as core::future::future::Future>::poll")
    pba = BA.of(poll)
    # releases of one token that may be the process's last one: release_mine / release(fds, 1), except where the
    # process is known to hold at least two (the surplus loop `while my_tokens >= 2 { release(fds, 1) }`)
    plenty = ge_edges(poll, R.my, at_least=2)
    rm = [r for r in release_sites(poll, "one", prog) if not any(pba.edge_dominates(e, r) for e in plenty)]
    # "children are running" tests: is_running() itself or a function that hands its result through
    running = switches_on_result(prog, poll, r"jobserver::ServerState::is_running")
    ok = False
    if rm and running:
        ok = all(any(pba.edge_dominates((sw, t_t), r) for (sw, t_t, f_t, _) in running) for r in rm)
    ctx.ob("R8.7", "AllJobsDone::poll|release_mine-only-while-running", ok, where=poll.span,
           detail="release_mine() is dominated by is_running() == true" if ok else "own token can be released although no child runs (a terminating redo would exit without a token)")
    tt = pba.calls(r"jobserver::AllJobsDone::test_tokens")
    ok = False
    if tt and running:
        ok = all(any(pba.edge_dominates((sw, f_t), r) for (sw, t_t, f_t, _) in running) for r in tt)
    ctx.ob("R8.7", "AllJobsDone::poll|self-test-only-when-idle", ok, where=poll.span,
           detail="test_tokens() is dominated by is_running() == false" if ok else "token self-test may run while children still hold tokens")


PIPE_WRITE = r"jobserver::write_tokens|nix::unistd::write"


def written_count_increments(body, wb):
    """Blocks holding a `+ 1` on a local from which the amount written by the pipe write at block wb is
    computed: the count operand of write_tokens(fd, n), or the buffer of write(fd, &buf) (derived flow through
    the calls that build the buffer, e.g. repeat(b).take(n).collect())."""
    ba = BA.of(body)
    t = body.blocks[wb]["term"]
    if len(t["args"]) < 2 or op_local(t["args"][1]) is None:
        return set()
    seen, st, out = set(), [op_local(t["args"][1])], set()
    while st and len(seen) < 80:
        x = st.pop()
        if x in seen or x is None:
            continue
        seen.add(x)
        for d in ba.defs.get(x, []):
            if d[0] == "stmt":
                rv = d[3]
                if rv["k"] == "binop" and rv["op"].startswith("Add") and const_int(rv["b"]) == 1:
                    out.add(d[1])
                st.extend(p["l"] for p in rvalue_places(rv))
            elif d[0] == "call":
                st.extend(op_local(a) for a in d[2]["args"])
    return out


def written_count(body, wb):
    """The number of bytes the pipe write at block wb puts into the pipe, as a linear expression: the count operand
    of write_tokens(fd, n), or the n of a buffer built as repeat(byte).take(n).collect() for write(fd, &buf)."""
    ba = BA.of(body)
    t = body.blocks[wb]["term"]
    if len(t["args"]) < 2:
        return None
    if call_matches(t, r"jobserver::write_tokens"):
        return common.lin_of(body, t["args"][1])
    seen, st = set(), [op_local(t["args"][1])]
    while st and len(seen) < 80:
        x = st.pop()
        if x in seen or x is None:
            continue
        seen.add(x)
        for d in ba.defs.get(x, []):
            if d[0] == "stmt":
                st.extend(p_["l"] for p_ in rvalue_places(d[3]))
            elif d[0] == "call":
                if any(re.fullmatch(r"(.*::)?Iterator>?::take|core::iter::traits::iterator::Iterator::take", p_) for p_ in callee_paths(d[2])) and len(d[2]["args"]) == 2:
                    return common.lin_of(body, d[2]["args"][1])
                st.extend(op_local(a) for a in d[2]["args"])
    return None


def zero_edges(body, amount):
    """CFG edges [(switch_bb, target)] on which the amount (a Lin) is known not to be positive: the false side of
    `x > 0` / `x >= 1` / `x != 0`, the true side of `x <= 0` / `x < 1` / `x == 0`, for x equal to the amount."""
    ba = BA.of(body)
    out = []
    for i in sorted(ba.live):
        bs = ba.bool_switch(i)
        if not bs:
            continue
        t_t, f_t, (kind, info) = bs
        if kind != "binop" or t_t == f_t:
            continue
        rv = info[1]
        op, a, b = rv["op"], rv["a"], rv["b"]
        if const_int(a) is not None and const_int(b) is None:
            a, b = b, a
            op = {"Lt": "Gt", "Gt": "Lt", "Le": "Ge", "Ge": "Le"}.get(op, op)
        k = const_int(b)
        if k is None or common.lin_of(body, a) != amount:
            continue
        if (op, k) in (("Gt", 0), ("Ge", 1), ("Ne", 0)):
            out.append((i, f_t))
        elif (op, k) in (("Le", 0), ("Lt", 1), ("Eq", 0)):
            out.append((i, t_t))
    return out


def positive_switches(body, field):
    """[(switch_bb, positive_target, non_positive_target)] for bool switches testing `field > 0` in any
    spelling (`> 0`, `>= 1`, `<= 0`, `< 1`, operands either way round, through `!`)."""
    ba = BA.of(body)
    out = []
    for i in sorted(ba.live):
        bs = ba.bool_switch(i)
        if not bs:
            continue
        t_t, f_t, (kind, info) = bs
        if kind != "binop" or t_t == f_t:
            continue
        rv = info[1]
        op, a, b = rv["op"], rv["a"], rv["b"]
        if const_int(a) is not None and const_int(b) is None:
            a, b = b, a
            op = {"Lt": "Gt", "Gt": "Lt", "Le": "Ge", "Ge": "Le"}.get(op, op)
        k = const_int(b)
        if k is None or not common.reads_field(body, {"k": "use", "op": a}, field):
            continue
        if (op, k) in (("Gt", 0), ("Ge", 1)):
            out.append((i, t_t, f_t))
        elif (op, k) in (("Le", 0), ("Lt", 1)):
            out.append((i, f_t, t_t))
    return out


def paired_per_pass(ba, A, B, exits):
    """Along every path from the entry to a block of `exits`, blocks of A and blocks of B strictly alternate
    and are equal in number (each A event is paired with exactly one B event, in either fixed order)."""
    A, B = set(A), set(B)
    if not A or not B or A & B:
        return False
    if ba.path(sorted(A), A, avoid=frozenset(B)) is not None or ba.path(sorted(B), B, avoid=frozenset(A)) is not None:
        return False
    a_first = ba.path([0], A, avoid=frozenset(B), incl=True) is not None
    b_first = ba.path([0], B, avoid=frozenset(A), incl=True) is not None
    if a_first == b_first:
        return False
    first, second = (A, B) if a_first else (B, A)
    return ba.path(sorted(first), exits, avoid=frozenset(second)) is None


def counter_update(body, w):
    """For a field write w = (bb, idx, stmt) of the form `X.f = X.f (+|-) k` (directly or through the
    checked-arithmetic temporary): ('+'|'-', operand k). None for any other assignment."""
    bb, j, s = w
    ba = BA.of(body)
    fld = place_fields(s["place"])[-1]
    rv = s["rv"]
    b = None
    if rv["k"] == "binop":
        b = rv
    elif rv["k"] == "use":
        p = op_place(rv["op"])
        d = ba.single_def(p["l"]) if p is not None else None
        if d and d[0] == "stmt" and d[3]["k"] == "binop":
            b = d[3]
    if b is None or not b["op"].startswith(("Add", "Sub")):
        return None
    if not common.reads_field(body, {"k": "use", "op": b["a"]}, fld):
        return None
    return ("+" if b["op"].startswith("Add") else "-", b["b"])


def same_amount(body, o1, o2):
    """Two operands denote the same amount: equal as linear expressions over the values they are computed from
    (equal integer constants, copies of one local, `n - c` twice, ...)."""
    return common.lin_of(body, o1) == common.lin_of(body, o2)


def panics_straight(body, bb):
    """Block bb leads without branching to a call of a panic entry point."""
    cur = bb
    for _ in range(8):
        t = body.blocks[cur]["term"]
        if t["t"] == "call":
            if any(re.match(r"core::panicking::|std::rt::begin_panic|std::panicking::", p) for p in callee_paths(t)):
                return True
            if "target" not in t:
                return False
            cur = t["target"]
        elif t["t"] == "goto":
            cur = t["target"]
        else:
            return False
    return False


def ge_edges(body, field, amount=None, at_least=None):
    """Edges [(switch_bb, target)] on which `<place under field> >= amount` is known to hold (amount an
    operand compared by same_amount) or, with at_least=k, on which the field is known to be >= k."""
    ba = BA.of(body)
    out = []
    for i in sorted(ba.live):
        bs = ba.bool_switch(i)
        if not bs:
            continue
        t_t, f_t, (kind, info) = bs
        if kind != "binop" or t_t == f_t:
            continue
        rv = info[1]
        op = rv["op"]
        a, b = rv["a"], rv["b"]
        if common.reads_field(body, {"k": "use", "op": b}, field) and not common.reads_field(body, {"k": "use", "op": a}, field):
            a, b = b, a
            op = {"Lt": "Gt", "Gt": "Lt", "Le": "Ge", "Ge": "Le"}.get(op, op)
        elif not common.reads_field(body, {"k": "use", "op": a}, field):
            continue
        # now: field <op> b
        if amount is not None:
            if not same_amount(body, b, amount):
                continue
            if op == "Ge":
                out.append((i, t_t))
            elif op == "Lt":
                out.append((i, f_t))
        else:
            k = const_int(b)
            if k is None:
                continue
            if (op == "Ge" and k >= at_least) or (op == "Gt" and k >= at_least - 1) or (op == "Eq" and k >= at_least):
                out.append((i, t_t))
            elif (op == "Lt" and k >= at_least) or (op == "Le" and k >= at_least - 1):
                out.append((i, f_t))
    return out


class Feas:
    """BA's dominance / path relations refined by path feasibility (core.FAXM), consulted only when the plain CFG
    answer is negative: every feasible path is a CFG path, so a positive CFG answer stands. Used where a spliced
    helper's Option/Result value is re-split by its caller, which creates CFG paths no execution takes.
    Dominance is refined *locally*: with E the closest block that dominates both a and b in the CFG, `a dominates b`
    holds if no feasible path leads from E to b around a (every path to b passes E, and what happens before E cannot
    make a path after it feasible: the walk from E starts with nothing known). This keeps the (block, known values)
    state space to the region between E and b instead of the whole event loop."""

    def __init__(self, body):
        from core import FAXM as FAX
        self.ba = BA.of(body)
        self.fa = FAX.of(body)

    def _fork(self, a, b):
        dom = self.ba.dom
        both = [d for d in dom.get(b, ()) if d in dom.get(a, ()) and d != b]
        if not both:
            return None
        return max(both, key=lambda d: len(dom[d]))

    def _outside(self, e, b):
        """Blocks that lie on no CFG path from e to b that does not come back to e (the walk need not enter them)."""
        body = self.ba.b
        seen = {b}
        st = [b]
        while st:
            x = st.pop()
            for q in body.pred(x):
                if q != e and q not in seen:
                    seen.add(q)
                    st.append(q)
        return frozenset(x for x in self.ba.live if x not in seen) | frozenset([e])

    def dominates(self, a, b):
        if self.ba.dominates(a, b):
            return True
        e = self._fork(a, b)
        if e is None or b not in self.ba.live or a == e:
            return False
        return self.fa.path([e], [b], avoid=self._outside(e, b) | frozenset([a])) is None

    def edge_dominates(self, edge, b):
        if self.ba.edge_dominates(edge, b):
            return True
        e = self._fork(edge[0], b)
        if e is None:
            return False
        return self.fa.path([e], [b], avoid=self._outside(e, b), cut_edges=frozenset([edge])) is None

    def path(self, starts, goal, avoid=frozenset(), cut_edges=frozenset(), incl=False):
        if self.ba.path(starts, goal, avoid=avoid, cut_edges=cut_edges, incl=incl) is None:
            return None
        return self.fa.path(starts, goal, avoid=avoid, cut_edges=cut_edges, incl=incl)


class Upd:
    """One assignment of a token counter: which ('MY' held tokens | 'CH' cheats), block, statement index, statement,
    sign ('+' / '-' for `f = f +/- k`, 'set' for any other assignment) and the amount k (operand, linear form)."""
    __slots__ = ("which", "bb", "idx", "stmt", "sign", "k", "lin")

    def __init__(self, which, bb, idx, stmt, sign, k, lin):
        self.which, self.bb, self.idx, self.stmt, self.sign, self.k, self.lin = which, bb, idx, stmt, sign, k, lin

    def __repr__(self):
        return "Upd(%s %s %s @bb%d)" % (self.which, self.sign, self.lin, self.bb)


def account_updates(R, body):
    """Every assignment of the two token counters in `body` (live, non-cleanup), in block order. An assignment of a
    whole struct that contains the counters (a holder field) counts as a 'set' of both."""
    out = []
    for which, rx in (("MY", R.MY), ("CH", R.CH)):
        for w in field_writes(body, rx):
            u = counter_update(body, w)
            if u is None:
                out.append(Upd(which, w[0], w[1], w[2], "set", None, None))
            else:
                out.append(Upd(which, w[0], w[1], w[2], u[0], u[1], common.lin_of(body, u[1])))
    if R.holders:
        for w in field_writes(body, "|".join(re.escape(h) for h in sorted(R.holders))):
            for which in ("MY", "CH"):
                out.append(Upd(which, w[0], w[1], w[2], "set", None, None))
    return sorted(out, key=lambda u: (u.bb, u.idx, u.which))


def together(ba, b1, b2):
    """Blocks b1 and b2 are executed together: one dominates the other and, once the first has run, the other runs
    before the function returns or the first runs again (panics aside)."""
    if b1 == b2:
        return True
    if ba.dominates(b1, b2):
        first, second = b1, b2
    elif ba.dominates(b2, b1):
        first, second = b2, b1
    else:
        return False
    return ba.path([first], ba.returns() + [first], avoid=frozenset([second])) is None


class Site:
    """A place where an audited accounting operation happens: a call of the reference function ('call') or its effect
    written out in place ('inplace': the helper was inlined, moved into a method of another type, ...).
    entry: the block to use in dominance / path queries; blocks: all blocks that belong to it; amount: Lin."""
    __slots__ = ("kind", "entry", "blocks", "amount", "upds")

    def __init__(self, kind, entry, blocks, amount, upds=()):
        self.kind, self.entry, self.blocks, self.amount, self.upds = kind, entry, set(blocks), amount, list(upds)


def _call_amount(body, bb, arg=1):
    args = body.blocks[bb]["term"]["args"]
    return common.lin_of(body, args[arg]) if len(args) > arg else None


def create_sites(prog, body, inline_only=False):
    """Where `body` materialises n tokens with the cheats absorbing first (what ServerState::create_tokens does):
    calls of create_tokens, or the effect in place: the held-token counter grows by a and the cheat counter shrinks
    by s in one go (both or neither), which creates a + s tokens. (No other audited operation moves the two counters
    in these directions: cheating raises both, releasing lowers both, destroying and receiving touch one.)"""
    R = Roles.of(prog)
    ba = BA.of(body)
    out = []
    if not inline_only:
        for i in ba.calls(r"jobserver::ServerState::create_tokens"):
            out.append(Site("call", i, [i], _call_amount(body, i)))
    ups = account_updates(R, body)
    used = set()
    for m in ups:
        if m.which != "MY" or m.sign != "+":
            continue
        for c in ups:
            if c.which != "CH" or c.sign != "-" or id(c) in used:
                continue
            if together(ba, m.bb, c.bb):
                used.add(id(c))
                used.add(id(m))
                first = m.bb if ba.dominates(m.bb, c.bb) else c.bb
                out.append(Site("inplace", first, [m.bb, c.bb], m.lin + c.lin, [m, c]))
                break
    # the same effect token by token: on the two sides of a `cheats > 0` test either a cheat is cancelled or a token
    # materialises, one per pass; in a loop over a range a..b that makes b - a tokens, outside a loop one
    for m in ups:
        if m.which != "MY" or m.sign != "+" or id(m) in used or m.lin.const() != 1:
            continue
        for c in ups:
            if c.which != "CH" or c.sign != "-" or id(c) in used or c.lin.const() != 1:
                continue
            sws = [(sw, t_t, f_t) for (sw, t_t, f_t) in positive_switches(body, R.ch)
                   if ba.edge_dominates((sw, t_t), c.bb) and ba.edge_dominates((sw, f_t), m.bb)]
            if not sws:
                continue
            sw = sws[0][0]
            loop = counted_loop(body, sw)
            if loop is not None and not all(ba.dominates(loop[2], x) and ba.path([x], [loop[2]], incl=True) is not None for x in (m.bb, c.bb)):
                continue
            used.add(id(c))
            used.add(id(m))
            out.append(Site("inplace", loop[0] if loop else sw, [m.bb, c.bb], loop[1] if loop else common.Lin(1), [m, c]))
            break
    return sorted(out, key=lambda x: x.entry)


def counted_loop(body, bb):
    """If block bb is inside a `for _ in a..b` loop (every pass starts with Iterator::next on a Range built in this
    body): (block where the range iterator is made, number of passes b - a as Lin, block of the next() call)."""
    ba = BA.of(body)
    nexts = [n for n in ba.calls(r".*::iterator::Iterator>?::next")
             if ba.dominates(n, bb) and ba.path([bb], [n], incl=True) is not None]
    if not nexts:
        return None
    n = max(nexts, key=lambda x: len(ba.dom[x]))
    t = body.blocks[n]["term"]
    l = ba.base_local_of_ref(op_local(t["args"][0])) if t["args"] else None
    entry = None
    for _ in range(6):
        d = ba.single_def(l) if l is not None else None
        if d is None:
            return None
        if d[0] == "call":
            if not any(re.fullmatch(r"(.*::)?into_iter", p_) for p_ in callee_paths(d[2])) or not d[2]["args"]:
                return None
            entry = d[1]
            l = op_local(d[2]["args"][0])
            continue
        if d[0] != "stmt":
            return None
        rv = d[3]
        if rv["k"] == "use":
            l = op_local(rv["op"])
            continue
        if rv["k"] == "agg" and rv.get("adt") == "core::ops::range::Range" and rv.get("fields") == ["start", "end"]:
            if entry is None:
                entry = d[1]
            return (entry, common.lin_of(body, rv["ops"][1]) - common.lin_of(body, rv["ops"][0]), n)
        return None
    return None


def destroy_sites(prog, body, amount=None, inline_only=False, sites=False):
    """Blocks of `body` where n owned tokens are destroyed: calls of ServerState::destroy_tokens, or its
    effect written out in place (`my_tokens -= n` on the `my_tokens >= n` side of an assertion of the same n, the
    cheat counter untouched: what destroy_tokens does). amount: only sites destroying exactly that constant number.
    sites=True returns Site objects instead of blocks."""
    R = Roles.of(prog)
    ba = BA.of(body)
    out = []
    for i in ([] if inline_only else ba.calls(r"jobserver::ServerState::destroy_tokens")):
        am = _call_amount(body, i)
        if amount is None or (am is not None and am.const() == amount):
            out.append(Site("call", i, [i], am))
    ups = account_updates(R, body)
    for u in ups:
        if u.which != "MY" or u.sign != "-":
            continue
        if amount is not None and u.lin.const() != amount:
            continue
        if any(c.which == "CH" and together(ba, u.bb, c.bb) for c in ups):
            continue            # the cheat counter moves with it: giving tokens back (release), not destroying them
        guards = [e for e in ge_edges(body, R.my, amount=u.k)
                  if ba.edge_dominates(e, u.bb) and any(panics_straight(body, s_) for s_ in body.succ(e[0]) if s_ != e[1])]
        if guards:
            out.append(Site("inplace", u.bb, [u.bb], u.lin, [u]))
    out.sort(key=lambda x: x.entry)
    if sites:
        return out
    return sorted({x.entry for x in out})


READ_CALL = r"jobserver::try_read|nix::unistd::read"


def nonblocking_select(body, bb):
    """Is the select() at block bb a poll that cannot block: its timeout argument is `Some(&mut tv)` with tv built
    from an all-zero timeval? (try_read's readiness probe, as opposed to the event loop's wait.)"""
    ba = BA.of(body)
    t = body.blocks[bb]["term"]
    if len(t["args"]) < 5:
        return False
    l = op_local(t["args"][4])
    for _ in range(12):
        if l is None:
            return False
        d = ba.single_def(l)
        if d is None:
            return False
        if d[0] == "call":
            if not any(re.fullmatch(r"(.*::)?(into|from)", p_) for p_ in callee_paths(d[2])) or len(d[2]["args"]) != 1:
                return False
            l = op_local(d[2]["args"][0])
            continue
        if d[0] != "stmt":
            return False
        rv = d[3]
        if rv["k"] == "agg" and rv.get("agg") == "adt":
            if rv.get("adt") == "core::option::Option":
                if rv.get("variant") != "Some":
                    return False
                l = op_local(rv["ops"][0])
                continue
            return bool(rv["ops"]) and all(const_int(o) == 0 for o in rv["ops"])
        if rv["k"] == "ref":
            if rv["place"]["p"]:
                return False
            l = rv["place"]["l"]
            continue
        if rv["k"] == "use":
            l = op_local(rv["op"])
            continue
        return False
    return False


def blocking_selects(body):
    """The select() calls of `body` that may wait."""
    return [i for i in BA.of(body).calls(r"nix::sys::select::select") if not nonblocking_select(body, i)]


def result_wrappers(prog, rx, depth=2):
    """Keys of local plain functions whose return value is, on every path, the unmodified result of a call
    matching rx (or of such a function): `fn is_running(&self) -> bool { self.state.borrow().is_running() }`."""
    if isinstance(rx, str):
        rx = re.compile(rx)
    out = set()
    for _ in range(depth):
        more = set()
        for b in prog.bodies.values():
            if b.key in out or b.kind not in ("Fn", "AssocFn") or b.coroutine or rx.fullmatch(b.key):
                continue
            org = common.value_origins(b, 0)
            if org and all(k == "call" and (call_matches(t, rx) or any(p_ in out for p_ in callee_paths(t))) for (k, _, t) in org):
                more.add(b.key)
        if not more:
            break
        out |= more
    return out


def switches_on_result(prog, body, rx):
    """BA.switches_on_call for calls matching rx or a result_wrapper of it:
    [(switch_bb, true_target, false_target, call_bb)]."""
    ws = result_wrappers(prog, rx)
    ba = BA.of(body)
    out = []
    for i in sorted(ba.live):
        bs = ba.bool_switch(i)
        if bs is None:
            continue
        t_t, f_t, (kind, info) = bs
        if kind == "call" and (call_matches(info[1], rx) or any(p_ in ws for p_ in callee_paths(info[1]))):
            out.append((i, t_t, f_t, info[0]))
    return out


def release_sites(body, kind, prog=None):
    """Blocks of `body` that give tokens back through ServerState::release, by what they release:
    'surplus'  everything but the own token: release_except_mine(fds), or release(fds, n) with n computed as
               `my_tokens - 1`;
    'one'      one token: release_mine(fds), or release(fds, 1).
    With `prog`, a call of a local function on all of whose paths such a call lies counts as that call."""
    ba = BA.of(body)
    out = []
    if kind == "surplus":
        out += ba.calls_deep(r"jobserver::ServerState::release_except_mine", prog) if prog is not None else ba.calls(r"jobserver::ServerState::release_except_mine")
    else:
        out += ba.calls_deep(r"jobserver::ServerState::release_mine", prog) if prog is not None else ba.calls(r"jobserver::ServerState::release_mine")
    for i in ba.calls(r"jobserver::ServerState::release"):
        args = body.blocks[i]["term"]["args"]
        if len(args) < 3:
            continue
        n = args[2]
        if const_int(n) is not None:
            if kind == "one" and const_int(n) == 1:
                out.append(i)
            continue
        l = common.copy_root(body, op_local(n))
        d = ba.single_def(l) if l is not None else None
        rv = d[3] if d and d[0] == "stmt" else None
        if rv is not None and rv["k"] == "use" and op_place(rv["op"]) is not None and op_place(rv["op"])["p"]:
            # `.0` of the checked-arithmetic pair
            d2 = ba.single_def(op_place(rv["op"])["l"])
            rv = d2[3] if d2 and d2[0] == "stmt" else None
        if (kind == "surplus" and rv is not None and rv["k"] == "binop" and rv["op"].startswith("Sub") and const_int(rv["b"]) == 1
                and common.reads_field(body, {"k": "use", "op": rv["a"]}, Roles.of(prog).my if prog is not None else "jobserver::ServerState.my_tokens")):
            out.append(i)
    return sorted(set(out))


def fd_calls(body, rx, field, arg=0):
    """Blocks of `body` calling rx with an fd operand (argument `arg`) read from a place under `field`
    (e.g. the token pipe: 'jobserver::ServerParams.token_fds'), through copies into locals."""
    ba = BA.of(body)
    return [i for i in ba.calls(rx)
            if len(body.blocks[i]["term"]["args"]) > arg
            and common.reads_field(body, {"k": "use", "op": body.blocks[i]["term"]["args"][arg]}, field)]


def fd_load_block(body, bb, field, arg=0, depth=8):
    """The block where the fd operand (argument `arg`) of the call at block bb is read out of the place under
    `field`: where that use of the pipe begins. With a read helper spliced into the caller this is the block that
    enters it (the helper may return early - nothing readable - before it reaches the read system call)."""
    ba = BA.of(body)
    t = body.blocks[bb]["term"]
    if len(t["args"]) <= arg:
        return bb
    p = op_place(t["args"][arg])
    if p is None or field in place_fields(p):
        return bb
    todo = [(p["l"], 0)]
    seen = set()
    while todo:
        l, d = todo.pop()
        if l in seen or d > depth:
            continue
        seen.add(l)
        for df in ba.defs.get(l, []):
            if df[0] == "stmt":
                for q in rvalue_places(df[3]):
                    if field in place_fields(q):
                        return df[1]
                    todo.append((q["l"], d + 1))
    return bb


def adt_field_index(prog, adt, field):
    """Position of `field` among the fields of struct `adt` (= operand position in its aggregate), or None."""
    a = prog.adts.get(adt)
    if not a or len(a["variants"]) != 1:
        return None
    names = [f["name"] for f in a["variants"][0]["fields"]]
    return names.index(field) if field in names else None


def surplus_released(ctx, rid):
    """After a child's token is recreated the surplus goes back to the pipe before the next event is
    handled: create_tokens(1) -> has_token() -> release_except_mine, so that a wake-up that reaps
    several children cannot leave my_tokens > 1."""
    prog = ctx.prog
    R = Roles.of(prog)
    bo = anchors.event_loop(prog)
    ba = BA.of(bo)
    cts = [x.entry for x in create_sites(prog, bo)]
    rel = release_sites(bo, "surplus", prog)
    removes = ba.calls(r"std::collections::hash::map::HashMap::remove")
    # "holds a token" tests: has_token() or a comparison my_tokens >= 1 in any spelling -> (switch, token side)
    tests = [(sw, t_t) for (sw, t_t, f_t, c) in ba.switches_on_call(r"jobserver::ServerState::has_token")]
    tests += ge_edges(bo, R.my, at_least=1)
    ok = False
    if cts and rel and removes and tests:
        ok = True
        for ct in cts:
            # the test and the release come after the recreate and before the job is forgotten
            mine = [(sw, t_t) for (sw, t_t) in tests if ba.dominates(ct, sw) and any(ba.edge_dominates((sw, t_t), r) for r in rel)]
            ok = ok and bool(mine) and ba.path([ct], removes, avoid=frozenset(sw for sw, _ in mine)) is None
            ok = ok and all(ba.path([t_t], removes, avoid=frozenset(rel), incl=True) is None for _, t_t in mine)
    ctx.ob(rid, "%s|surplus-released-after-recreate" % bo.key, ok, where=ctx.where(bo, cts[0]) if cts else bo.span,
           detail="create_tokens(1) is followed by has_token() => release_except_mine() before the job is forgotten" if ok else
           "the surplus is not released after the child's token was recreated: two children reaped in one wake-up leave my_tokens == 2 and the `my_tokens == 1` assertions fire")


def const_value(body, rv):
    """The constant an rvalue denotes: ('bool', b) / ('int', k) for a literal, ('variant', adt, name) for a
    field-less enum variant (built in place or in a temporary that is moved here), else None."""
    ba = BA.of(body)
    for _ in range(6):
        if rv["k"] == "agg" and rv.get("agg") == "adt" and not rv["ops"] and rv.get("variant") is not None:
            return ("variant", rv["adt"], rv["variant"])
        if rv["k"] != "use":
            return None
        c = op_const(rv["op"])
        if c is not None:
            if "bool" in c:
                return ("bool", bool(c["bool"]))
            if "int" in c:
                return ("int", c["int"])
            return None
        p = op_place(rv["op"])
        if p is None or p["p"]:
            return None
        d = ba.single_def(p["l"])
        if d is None or d[0] != "stmt":
            return None
        rv = d[3]
    return None


def self_marks(body):
    """[(canonical field, constant)] fields of the receiver (`self`, parameter 1) that `body` sets to a constant."""
    ba = BA.of(body)
    out = []
    for i in sorted(ba.live):
        if body.is_cleanup(i):
            continue
        for s in body.blocks[i]["stmts"]:
            if s["s"] != "assign" or not s["place"]["p"]:
                continue
            fs = place_fields(s["place"])
            if len(fs) != 1 or 1 not in ba.ref_chain(s["place"]["l"]):
                continue
            v = const_value(body, s["rv"])
            if v is not None:
                out.append((fs[0], v))
    return out


def field_value_edges(body, field, val):
    """CFG edges [(switch_bb, target)] of `body` taken exactly when a place ending in `field` holds the constant
    `val`: the matching side of a bool test (through `!`), the arm of that variant of a `match` on the field."""
    ba = BA.of(body)
    out = []
    for sw in sorted(ba.live):
        t = body.blocks[sw]["term"]
        if t["t"] != "switch":
            continue
        if val[0] == "bool":
            bs = ba.bool_switch(sw)
            if bs and bs[2][0] == "place" and place_fields(bs[2][1])[-1:] == [field] and bs[0] != bs[1]:
                out.append((sw, bs[0] if val[1] else bs[1]))
        elif val[0] == "variant":
            es = ba.enum_switch(sw)
            if not es or place_fields(es[0])[-1:] != [field] or t.get("enum") not in (None, val[1]):
                continue
            dv = {n: v for v, n in (t.get("enum_variants") or [])}.get(val[2])
            if dv is None:
                continue
            place, arms, other = es
            tg = arms.get(dv, other)
            others = [x for v, x in arms.items() if v != dv] + ([other] if dv in arms and other in body.succ(sw) else [])
            if tg is not None and tg not in others:
                out.append((sw, tg))
    return out


def in_child_arm(st, bb):
    """In JobServerHandle::start: is block bb on the ForkResult::Child side of the fork result?"""
    ba = BA.of(st)
    for sw in sorted(ba.live):
        es = ba.enum_switch(sw)
        if not es:
            continue
        place, arms, other = es
        if "ForkResult" not in st.locals[place["l"]]:
            continue
        # Parent is variant 0, Child is variant 1 (nix::unistd::ForkResult { Parent{child}, Child })
        ch = arms.get(1, other)
        if ba.edge_dominates((sw, ch), bb) and ch != arms.get(0):
            return True
    return False


POLL_FN = r"futures_util::future::poll_fn::poll_fn"
POLL_CALL = r"futures_util::future::future::FutureExt::poll_unpin|.*future::future::Future::poll"


def future_names(S, l):
    """Callee paths of the calls that produced the future held in local `l` of S (through pins, refs, fuse);
    the foreground future of builder::wait_for stands for the wait_for call."""
    _, origins, _ = backward_direct(S, l, depth=200)
    names = set()
    todo = list(origins)
    seen_calls = set()
    while todo:
        o = todo.pop()
        if o[0] != "call" or o[1] in seen_calls:
            continue
        seen_calls.add(o[1])
        names.update(callee_paths(o[2]))
        if call_matches(o[2], r"builder::wait_for"):
            # the foreground future of wait_for decides what this await waits for
            _, org2, _ = backward_direct(S, op_local(o[2]["args"][0]), depth=200)
            todo.extend(org2)
    return names, origins


def select_arms(prog, S, pbb, origins):
    """An await of futures' `select!` (the awaited future is `poll_fn(closure)` where the closure holds one
    sub-closure per selected future; sub-closure k polls its captured future and wraps a Ready value into
    variant `_k` of the macro's result enum, on which the awaiting body then switches).
    Returns [(block entered when the arm's future completed, local of S holding that future)] or None when
    the await is not of that form. Nothing is read from names of locals: the arm <-> future correspondence is
    the value flow closure upvar -> polled receiver -> Poll::map(<variant constructor>) -> switch arm."""
    from core import closure_sites, upvar_index
    pf = [o for o in origins if o[0] == "call" and call_matches(o[2], POLL_FN)]
    if len(pf) != 1:
        return None
    _, org, _ = backward_direct(S, op_local(pf[0][2]["args"][0]), depth=40)
    cl = [o for o in org if o[0] == "agg" and o[2].get("agg") == "closure"]
    if len(cl) != 1:
        return None
    K = prog.bodies.get(strip_generics(cl[0][2]["def"]))
    if K is None:
        return None
    kops = cl[0][2]["ops"]
    kba = BA.of(K)
    variant_future = {}
    for (bb, j, dest, sk, ops) in closure_sites(K):
        B = prog.bodies.get(sk)
        if B is None or len(ops) != 1 or op_local(ops[0]) is None:
            continue
        # which upvar of K does the sub-closure capture?
        pl = kba.resolve_ref(op_local(ops[0]))
        uv = upvar_index(pl) if pl is not None else None
        if uv is None or uv[0] >= len(kops):
            continue
        bba = BA.of(B)
        for m in bba.calls(r"core::task::poll::Poll::map"):
            mt = B.blocks[m]["term"]
            c = op_const(mt["args"][1]) if len(mt["args"]) > 1 else None
            if not c or "fn" not in c:
                continue
            sl, morg, _ = backward_direct(B, op_local(mt["args"][0]), depth=40)
            polls = [o for o in morg if o[0] == "call" and call_matches(o[2], POLL_CALL)]
            if len(polls) != 1:
                continue
            rsl, _, _ = backward_direct(B, op_local(polls[0][2]["args"][0]), depth=40)
            if 1 not in rsl:
                continue        # the polled receiver is not the captured future
            variant_future[c["fn"].rsplit("::", 1)[-1]] = op_local(kops[uv[0]])
    if not variant_future:
        return None
    # the switch on the await's result
    ba = BA.of(S)
    dest = S.blocks[pbb]["term"]["dest"]["l"]
    # locals holding the await's value: `v = (poll_result as Ready).0` and whole-local moves of it
    vals = set()
    changed = True
    while changed:
        changed = False
        for blk in S.blocks:
            for s in blk["stmts"]:
                if s["s"] != "assign" or s["place"]["p"] or s["rv"]["k"] != "use" or s["place"]["l"] in vals:
                    continue
                p = op_place(s["rv"]["op"])
                if p is None:
                    continue
                if (p["l"] == dest and p["p"][:1] == ["as:Ready"] and len(p["p"]) == 2) or (p["l"] in vals and not p["p"]):
                    vals.add(s["place"]["l"])
                    changed = True
    sws = []
    for sw in sorted(ba.live):
        t = S.blocks[sw]["term"]
        if t["t"] != "switch" or not t.get("enum_variants"):
            continue
        es = ba.enum_switch(sw)
        if not es or es[0]["p"]:
            continue
        if es[0]["l"] in vals:
            sws.append((sw, t, es))
    if len(sws) != 1:
        return None
    sw, t, (place, arms, other) = sws[0]
    out = []
    for val, nm in t["enum_variants"]:
        if nm in variant_future and val in arms and variant_future[nm] is not None:
            out.append((arms[val], variant_future[nm]))
    return out if len(out) == len(variant_future) else None


def classify_waits(S, prog=None, depth=3):
    """Classify the awaits of the scheduler by what they wait for.
    Returns dict: 'gain' -> ready blocks of awaits completing an ensure_token_or_cheat (directly, as the
    foreground future of wait_for, or as an arm of a `select!`: then the block entered on that arm);
    'loss' -> ready blocks of awaits of wait_all (the process may come back with no token);
    'nested' -> [(poll block, ready block, body)] awaits of a local coroutine of the builder that is neither
    (part of the scheduling passes moved into an `async fn` awaited in place): token_points() summarises what it
    does to the process's token, the rules that look at Lock calls visit it as part of the scheduler."""
    ba = BA.of(S)
    gain, loss, other, nested = [], [], [], []

    def put(pbb, ready, names, callee=None):
        if any(n.endswith("JobServerHandle::ensure_token_or_cheat") for n in names):
            gain.append((pbb, ready))
        elif any(n.endswith("JobServerHandle::wait_all") for n in names):
            loss.append((pbb, ready))
        else:
            other.append((pbb, ready, sorted(names)))
            B = prog.bodies.get(callee) if (prog is not None and callee) else None
            if (B is not None and B.coroutine and B.key != S.key and B.key.startswith("builder::")
                    and not any(n.endswith("builder::wait_for") for n in names)):
                nested.append((pbb, ready, B))

    for (pbb, y, ready, callee) in ba.awaits():
        t = S.blocks[pbb]["term"]
        names, origins = future_names(S, op_local(t["args"][0]))
        arms = select_arms(prog, S, pbb, origins) if prog is not None else None
        if arms is not None:
            for blk, fl in arms:
                put(pbb, blk, future_names(S, fl)[0])
        else:
            put(pbb, ready, names, callee)
    return {"gain": gain, "loss": loss, "other": other, "nested": nested}


class TokenPoints:
    """What a body of the scheduler does to the process's job token, as points of its CFG:
    loss   [(name, block entered, site)] points after which the process may hold no token: the resume of wait_all,
           the return of release_mine, the return of a job start (which destroys the token); and the completion of
           an awaited nested coroutine that can end in such a state (name = the kind of loss inside it);
    gains  blocks entered when an ensure_token_or_cheat completed (or a nested coroutine that always ends with one);
    sinks  {'job-start': [blocks], 'release_mine': [blocks]} calls that assert on the token count; the poll of a
           nested coroutine that can reach such a call before any gain of its own counts as that call;
    nested [(poll, ready, TokenPoints)]."""

    def __init__(self, prog, B, depth=3):
        self.B = B
        ba = BA.of(B)
        start_key = anchors.job_start(prog).key
        cw = classify_waits(B, prog)
        self.gains = {r for _, r in cw["gain"] if r is not None}
        self.n_gain = len(self.gains)
        self.n_loss = len(cw["loss"])
        starts = ba.calls(re.escape(start_key))
        rms = ba.calls(r"jobserver::JobServerHandle::release_mine")
        self.loss = [("wait_all-resume", r, p) for p, r in cw["loss"] if r is not None]
        self.loss += [("release_mine-return", B.blocks[i]["term"].get("target"), i) for i in rms]
        self.loss += [("job-start-return", B.blocks[i]["term"].get("target"), i) for i in starts]
        self.sinks = {"job-start": list(starts), "release_mine": list(rms)}
        self.nested = []
        if depth > 0:
            for (pbb, ready, NB) in cw["nested"]:
                tp = TokenPoints(prog, NB, depth - 1)
                self.nested.append((pbb, ready, tp))
                ends = tp.ends()
                nba = BA.of(NB)
                if tp.gains and nba.path([0], ends, avoid=frozenset(tp.gains), incl=True) is None:
                    if ready is not None:
                        self.gains.add(ready)
                    continue
                for name in sorted({x[0] for x in tp.loss}):
                    pts = [x[1] for x in tp.loss if x[0] == name and x[1] is not None]
                    if pts and ready is not None and nba.path(pts, ends, avoid=frozenset(tp.gains), incl=True) is not None:
                        self.loss.append((name, ready, pbb))
                for kind, blocks in tp.sinks.items():
                    if blocks and nba.path([0], blocks, avoid=frozenset(tp.gains), incl=True) is not None:
                        self.sinks[kind].append(pbb)
        self.loss.sort(key=lambda x: (x[2], x[0]))

    def ends(self):
        return common.ok_returns(self.B) or BA.of(self.B).returns()

    def all_parts(self):
        out = [self]
        for _, _, tp in self.nested:
            out.extend(tp.all_parts())
        return out


def token_preconditions(ctx, rid, include_release_mine):
    """Every path from a point where the process may hold no token (resume of wait_all, return of
    release_mine, return of a job start which destroys the token) to the next job start
    (asserts my_tokens == 1) - and to release_mine (asserts >= 1) - passes a completed
    ensure_token_or_cheat. Evaluated in the scheduler and in every coroutine it awaits in place (TokenPoints)."""
    prog = ctx.prog
    S = anchors.scheduler(prog)
    top = TokenPoints(prog, S)
    parts = top.all_parts()
    ctx.floor(rid, "awaited ensure_token_or_cheat in the scheduler", sum(x.n_gain for x in parts), 2)
    ctx.floor(rid, "awaited wait_all in the scheduler", sum(x.n_loss for x in parts), 1)
    for tp in parts:
        B = tp.B
        ba = BA.of(B)
        sinks = [("job-start", tp.sinks["job-start"])]
        if include_release_mine:
            sinks.append(("release_mine", tp.sinks["release_mine"]))
        for k, (lname, lb, at) in common.ordinal_keys([(x[0], x) for x in tp.loss]):
            if lb is None:
                continue
            # a path that meets another loss point first is that point's instance, not this one's
            other_loss = {x[1] for x in tp.loss if x[1] is not None and x[1] != lb and x[0] != "job-start-return"}
            for sname, sbs in sinks:
                p = ba.path([lb], sbs, avoid=frozenset(tp.gains | other_loss), incl=True)
                ctx.ob(rid, "%s|%s->%s" % (B.key, k, sname), p is None, where=ctx.where(B, at),
                       detail=("after %s the process may hold no token, yet a path reaches %s (which asserts on the token count) without a completed ensure_token_or_cheat" % (lname, sname))
                       if p else "token re-acquired on every path from %s to %s" % (lname, sname),
                       witness={"path": p[:25] if p else None})


def token_read_guard(ctx, rid):
    prog = ctx.prog
    R = Roles.of(prog)
    bo = anchors.event_loop(prog)
    ba = BA.of(bo)
    # the increments of the held-token counter that answer a token-pipe read (what is left after the per-child-exit
    # re-creations, which R8.3 judges) and the select() the loop waits in (try_read's zero-timeout probe is no wait)
    in_create = {(u.bb, u.idx, u.which) for st_ in create_sites(prog, bo) for u in st_.upds}
    incs = [u for u in account_updates(R, bo) if u.which == "MY" and (u.bb, u.idx, u.which) not in in_create]
    sel = blocking_selects(bo)
    if not ctx.ob(rid, "%s|anchors" % bo.key, len(incs) == 1 and len(sel) == 1, where=bo.span, detail="token increment and select() located"):
        return
    ib = incs[0].bb
    guards = []
    for sw in sorted(ba.live):
        bs = ba.bool_switch(sw)
        if not bs:
            continue
        t_t, f_t, (kind, info) = bs
        no_token_edge = None
        if kind == "call" and call_matches(info[1], r"jobserver::ServerState::has_token"):
            no_token_edge = f_t
        elif kind == "binop" and common.reads_field(bo, {"k": "use", "op": info[1]["a"]}, R.my):
            op, k = info[1]["op"], const_int(info[1]["b"])
            if (op, k) in (("Ge", 1), ("Gt", 0), ("Ne", 0)):
                no_token_edge = f_t
            elif (op, k) in (("Lt", 1), ("Le", 0), ("Eq", 0)):
                no_token_edge = t_t
        if no_token_edge is None:
            continue
        if ba.dominates(sel[0], sw) and ba.edge_dominates((sw, no_token_edge), ib):
            guards.append(sw)
    ctx.ob(rid, "%s|token-read-guarded-by-no-token" % bo.key, bool(guards), where=ctx.where(bo, ib),
           detail="the token read is dominated by a 'holds no token' test made after select()" if guards else
           "a child exit handled in the same wake-up can recreate a token and the token pipe is still read: my_tokens becomes 2, "
           "one token too many is taken from the pool and the `my_tokens == 1` assertions fire")
