"""C08 - Job tokens are conserved and -j is respected (accounting discipline, not the arithmetic)."""
import re

import anchors
from core import (BA, call_matches, callee_paths, op_local, op_place, op_const, const_int, const_str, taint,
                  place_fields, rvalue_places, field_writes, field_mut_refs, field_reads)
from facts import strip_generics
from rules import common
from rules.C06 import backward_direct

EXPLANATION = (
    "Static accounting-discipline rules on the jobserver: the token counters are written only by the audited "
    "functions (who-may-write, no &mut escapes); pipe writes/reads are paired with counter updates (release shares "
    "exactly the non-cheat decrements; a token read increments once); fork is preceded by destroy_tokens(1) and each "
    "child exit either eats a cheat byte or recreates exactly one token; every path to a job start passes a completed "
    "token acquisition since the last point where the process may have given its token away; the token-pipe read is "
    "guarded by 'holds no token' within the same wake-up; tokens are returned on every exit path (Drop / "
    "force_return_tokens, no process::exit reachable from the scheduler in the parent); the own token is released "
    "only while children run. Does NOT decide the numeric invariant tokens - cheats = N over schedules."
)
ASSUMPTIONS = ["pipe reads/writes transfer exactly the bytes requested", "unwind (panic) edges excluded",
               "child side of fork (ForkResult::Child arm and the job closures) is a different process and excluded from parent-side rules"]

MY = r"jobserver::ServerState\.my_tokens"
CH = r"jobserver::ServerState\.cheats"

WRITERS_MY = {
    "<jobserver::ServerState as core::default::Default>::default": "initial value 1: every process owns one token at start",
    "jobserver::ServerState::create_tokens": "materialise n tokens (cheats absorb first)",
    "jobserver::ServerState::destroy_tokens": "destroy n owned tokens (before fork / when compensating a cheat)",
    "jobserver::ServerState::release": "give n tokens back to the pipe",
    "jobserver::JobServer::block_on": "token byte read from the pipe",
    "jobserver::JobServerHandle::ensure_token_or_cheat::{closure#0}": "cheat: synthesise a token while redo-log follows us",
}
WRITERS_CH = {
    "<jobserver::ServerState as core::default::Default>::default": "initial value 0",
    "jobserver::ServerState::create_tokens": "a created token cancels a cheat",
    "jobserver::ServerState::release": "a released token cancels a cheat",
    "jobserver::JobServerHandle::ensure_token_or_cheat::{closure#0}": "cheat taken",
}


def writers(prog, field_rx, adt="jobserver::ServerState"):
    out = {}
    for b in prog.bodies.values():
        w = field_writes(b, field_rx)
        if w:
            out[b.key] = [bb for bb, _, _ in w]
        if anchors.agg_sites(b, re.escape(adt)):
            out.setdefault(b.key, []).extend(bb for bb, _, _ in anchors.agg_sites(b, re.escape(adt)))
    return out


def run(ctx):
    prog = ctx.prog
    ctx.rule("R8.1", "who-may-write: ServerState.my_tokens / .cheats are assigned only by the audited accounting functions, never through an escaped &mut; the cheat arm adds the same amount to both")
    ctx.rule("R8.2", "pipe/counter pairing: token-pipe writes only in release (count = non-cheat decrements) and the self-test; token-pipe reads only in the event loop (one increment per byte) and the self-test; cheat pipe written only after destroy_tokens(cheats)")
    ctx.rule("R8.3", "fork pairing: destroy_tokens(1) dominates fork; per child exit: cheat byte read => no create_tokens, nothing read => create_tokens(1); both before the job is forgotten")
    ctx.rule("R8.4", "-j: every path to a job start passes a completed ensure_token_or_cheat since the last point where the process may hold no token")
    ctx.rule("R8.5", "the token-pipe read that increments my_tokens is guarded, after select() of the same wake-up, by a test that the process holds no token")
    ctx.rule("R8.6", "tokens are returned on exit: Drop for JobServer and force_return_tokens on the path after block_on; no process::exit reachable from the scheduler in the parent process")
    ctx.rule("R8.8", "the scheduling passes end holding a token: from every point where the own token was given away (wait_all resume, release_mine) a completed ensure_token_or_cheat lies on every path to the normal end of the passes")
    ctx.rule("R8.9", "JobServer::setup: the inherited token pipe is used only for -j0 (an explicit -j1 or -jN gets its own jobserver); a new jobserver is primed with max_jobs - 1 extra tokens")
    ctx.rule("R8.7", "wait_all releases the process's own token only while children run; the top-level self-test runs only when none remain")

    # ---- R8.1
    for fld, table, nm in ((MY, WRITERS_MY, "my_tokens"), (CH, WRITERS_CH, "cheats")):
        w = writers(prog, fld)
        found = {k for k in w if k in table}
        for k in sorted(w):
            ok, det = k in table, ("audited: " + table[k]) if k in table else "body writes ServerState.%s but is not one of the audited accounting functions" % nm
            if not ok and nm == "my_tokens" and "jobserver::ServerState::destroy_tokens" in table:
                # an audited accounting operation written out in place of the call: every write of the body is the
                # effect of destroy_tokens (guarded `my_tokens -= n`), which any body may already invoke by calling it
                b = prog.bodies[k]
                ds = set(destroy_sites(prog, b, inline_only=True))
                if ds and not anchors.agg_sites(b, r"jobserver::ServerState") and all(bb in ds for bb, _, _ in field_writes(b, fld)):
                    ok, det = True, "audited effect in place: " + table["jobserver::ServerState::destroy_tokens"] + " (my_tokens -= n under assert my_tokens >= n)"
                    if "jobserver::ServerState::destroy_tokens" not in prog.bodies:
                        found.add("jobserver::ServerState::destroy_tokens")
            ctx.ob("R8.1", "writer-of-%s|%s" % (nm, k), ok, where=ctx.where(prog.bodies[k], w[k][0]), detail=det)
        ctx.floor("R8.1", "writers of %s" % nm, len(found), len(table))
        refs = [(b.key, bb) for b in prog.bodies.values() for bb, _ in field_mut_refs(b, fld)]
        ctx.ob("R8.1", "no-&mut-of-%s" % nm, not refs, where=", ".join("%s bb%d" % r for r in refs[:3]),
               detail="no mutable borrow of the counter escapes" if not refs else "counter is mutably borrowed (writes through the reference are not audited)")
    eb = prog.one(r"jobserver::JobServerHandle::ensure_token_or_cheat::\{closure#0\}")
    wm = field_writes(eb, MY)
    wc = field_writes(eb, CH)
    same = False
    if len(wm) == 1 and len(wc) == 1:
        am = add_operand(eb, wm[0])
        ac = add_operand(eb, wc[0])
        same = am is not None and am == ac
    ctx.ob("R8.1", "cheat-arm|same-amount", same, where=ctx.where(eb, wm[0][0]) if wm else eb.span,
           detail="my_tokens and cheats are increased by the same operand" if same else "cheat arm does not add the same amount to my_tokens and cheats")

    # ---- R8.2
    # who performs pipe I/O. write_tokens is a wrapper of unistd::write used by release / do_force_return_tokens:
    # whether those two go through it or write themselves is the same effect, so they are audited writers too
    # (what release writes is judged by the pairing rule below, what do_force_return_tokens writes by the
    # cheat-pipe rule); when the wrapper does not exist nobody can call it.
    PIPE_WRITERS = {"jobserver::ServerState::release", "jobserver::JobServer::do_force_return_tokens"}
    who = {
        r"jobserver::write_tokens": (PIPE_WRITERS, "jobserver::write_tokens" in prog.bodies),
        r"jobserver::try_read": ({"jobserver::JobServer::block_on", "jobserver::AllJobsDone::test_tokens"}, True),
        r"nix::unistd::write": ({"jobserver::write_tokens", "jobserver::AllJobsDone::test_tokens"} | PIPE_WRITERS, True),
        r"nix::unistd::read": ({"jobserver::try_read", "builder::StdinLogReaderBuilder::start"}, True),
    }
    for rx, (allowed, must_exist) in who.items():
        callers = {b.key for b in anchors.bodies_calling(prog, rx) if b.key.startswith(("jobserver::", "builder::", "state::"))}
        ctx.ob("R8.2", "who-calls|%s" % rx, callers <= allowed and (bool(callers) or not must_exist), detail="callers: %s" % sorted(callers),
               where=", ".join(prog.bodies[c].span for c in sorted(callers - allowed)))
    rel = prog.one(r"jobserver::ServerState::release")
    rba = BA.of(rel)
    # every byte count release hands to the pipe (write_tokens(fd, n) or a write of a buffer built from n) is the
    # local incremented exactly on the non-cheat side; per released token my_tokens is decremented once
    wt = rba.calls(PIPE_WRITE)
    ok = False
    det = "write_tokens operand is not the count of non-cheat decrements"
    if wt:
        incs = set()
        per_write = True
        for wb in wt:
            mine = written_count_increments(rel, wb)
            per_write = per_write and bool(mine)
            incs |= mine
        chsw = positive_switches(rel, "jobserver::ServerState.cheats")
        decs_my = [bb for bb, _, s in field_writes(rel, MY)]
        decs_ch = [bb for bb, _, s in field_writes(rel, CH)]
        if len(chsw) == 1 and per_write and incs and decs_my and decs_ch:
            sw, t_t, f_t = chsw[0]
            ok = (all(rba.edge_dominates((sw, f_t), i) for i in incs)
                  and all(rba.edge_dominates((sw, t_t), i) for i in decs_ch)
                  and paired_per_pass(rba, decs_my, sorted(incs | set(decs_ch)), list(wt) + rba.returns()))
            det = "per released token: my_tokens -= 1 always; cheats -= 1 on the cheat side; shared count += 1 exactly on the other side"
    ctx.ob("R8.2", "release|shares-non-cheat-decrements", ok, where=rel.span, detail=det)
    bo = anchors.event_loop(prog)
    bba = BA.of(bo)
    incs = [(bb, j, s) for bb, j, s in field_writes(bo, MY)]
    treads = fd_calls(bo, r"jobserver::try_read", "jobserver::ServerParams.token_fds")
    ok = bool(incs) and bool(treads)
    det = "token read and my_tokens increment are not paired"
    for w in incs:
        ib = w[0]
        u = counter_update(bo, w)
        # on the `one byte read` edge of a test of a token-pipe read's result, and only once per read
        one = False
        for tr in treads:
            if not bba.dominates(tr, ib):
                continue
            res = taint(bo, seeds={bo.blocks[tr]["term"]["dest"]["l"]}, mode="direct")
            if any(bba.dominates(tr, e[0]) and bba.edge_dominates(e, ib) for e in common.eq_const_edges(bo, lambda l: l in res, 1)):
                one = True
        again = bba.path([ib], [x[0] for x in incs], avoid=frozenset(treads))
        ok = ok and one and u is not None and u[0] == "+" and const_int(u[1]) == 1 and again is None
    if ok:
        det = "my_tokens += 1 exactly in the arm where one byte was read from the token pipe"
    ctx.ob("R8.2", "block_on|token-read-increments-once", ok, where=ctx.where(bo, incs[0][0]) if incs else bo.span, detail=det)
    frt = prog.one(r"jobserver::JobServer::do_force_return_tokens")
    fba = BA.of(frt)
    wt = fd_calls(frt, PIPE_WRITE, "jobserver::ServerParams.cheat_fds")
    dt = destroy_sites(prog, frt)
    # (every pipe write of this function is such a cheat-pipe write: it returns real tokens only through release)
    ok = bool(wt) and bool(dt) and all(any(fba.dominates(d, x) for d in dt) for x in wt) and set(fba.calls(PIPE_WRITE)) == set(wt)
    ctx.ob("R8.2", "force_return|cheat-pipe-after-destroy", bool(ok), where=frt.span,
           detail="cheat pipe is written only after destroy_tokens(cheats)" if ok else "cheat byte written without destroying the cheated token")

    # the top-level self-test puts back exactly what it took out
    tt = prog.one(r"jobserver::AllJobsDone::test_tokens")
    tba = BA.of(tt)
    wr = fd_calls(tt, r"nix::unistd::write", "jobserver::ServerParams.token_fds")
    trs = fd_calls(tt, r"jobserver::try_read", "jobserver::ServerParams.token_fds")
    ok = False
    det = "write-back not recognised"
    if len(wr) == 1 and len(trs) == 1:
        sl, org, _ = backward_direct(tt, op_local(tt.blocks[wr[0]]["term"]["args"][1]), depth=60)
        idx = [o for o in org if o[0] == "call" and any("ops::index::Index" in p_ for p_ in callee_paths(o[2]))]
        if idx:
            buf = tba.base_local_of_ref(op_local(idx[0][2]["args"][0]))
            rng = op_local(idx[0][2]["args"][1])
            rsl, rorg, _ = backward_direct(tt, rng, depth=60)
            # the range end derives from the try_read of the token pipe whose buffer is the same array
            first = trs[0]
            same_buf = tba.base_local_of_ref(op_local(tt.blocks[first]["term"]["args"][1])) == buf
            cnt = taint(tt, seeds={tt.blocks[first]["term"]["dest"]["l"]}, mode="direct", through=re.compile(r"core::option::Option::unwrap_or"))
            ok = same_buf and bool(rsl & cnt)
            det = "write(token_fds.1, &buf[..n]) with buf and n from the same try_read of the token pipe" if ok else "the self-test does not write back the bytes it read"
    ctx.ob("R8.2", "test_tokens|writes-back-what-it-read", ok, where=tt.span, detail=det)

    # ---- R8.3
    st = prog.one(r"jobserver::JobServerHandle::start")
    sba = BA.of(st)
    forks = sba.calls(r"nix::unistd::fork")
    dts = destroy_sites(prog, st, amount=1)
    ok = bool(forks) and bool(dts) and all(any(sba.dominates(d, f) for d in dts) for f in forks)
    ctx.ob("R8.3", "start|destroy-before-fork", bool(ok), where=ctx.where(st, forks[0]) if forks else st.span,
           detail="destroy_tokens(1) dominates fork()" if ok else "a child is forked without destroying the parent's token")
    forkers = {b.key for b in anchors.bodies_calling(prog, r"nix::unistd::fork")}
    allowed = {"jobserver::JobServerHandle::start", "builder::StdinLogReaderBuilder::start", "state::LockManager::detect_broken_locks"}
    ctx.ob("R8.3", "who-forks", forkers <= allowed, detail="fork callers: %s" % sorted(forkers))
    # child-exit arm
    # Stated per child exit = per execution of the cheat-pipe read (the try_read whose fd operand is
    # ServerParams.cheat_fds): until the job is forgotten (wait_fds.remove) or the next cheat read,
    #   one byte read (the edge `count == 1` of a test of that read's result) => no create_tokens;
    #   any other outcome => create_tokens before the job is forgotten;
    # every create_tokens of the event loop is create_tokens(1) answering such a read.
    creads = fd_calls(bo, r"jobserver::try_read", "jobserver::ServerParams.cheat_fds")
    cts = bba.calls(r"jobserver::ServerState::create_tokens")
    removes = bba.calls(r"std::collections::hash::map::HashMap::remove")
    ok = False
    det = "child-exit arm not recognised"
    if creads and cts and removes:
        ok = True
        for ct in cts:
            if const_int(bo.blocks[ct]["term"]["args"][1]) != 1 or not any(bba.dominates(cr, ct) for cr in creads):
                ok = False
                det = "the event loop creates tokens other than the one token of an exited child"
        for cr in creads:
            res = taint(bo, seeds={bo.blocks[cr]["term"]["dest"]["l"]}, mode="direct")
            eat = [e for e in common.eq_const_edges(bo, lambda l: l in res, 1) if bba.dominates(cr, e[0])]
            if not eat:
                ok = False
                det = "child-exit arm not recognised (no test of the cheat-pipe read for one byte)"
                continue
            tgs = [tg for _, tg in eat]
            p = bba.path(tgs, cts, avoid=frozenset(removes) | {cr}, incl=True)
            # every other outcome of the read recreates the token before the job is forgotten
            r2 = bba.reach_from([cr], avoid=frozenset(cts) | frozenset(tgs) | {cr})
            leak = [x for x in removes if x in r2]
            if p is not None or leak:
                ok = False
                det = "child exit can %s" % ("recreate a token although a cheat byte was eaten" if p is not None else "forget the job without recreating its token")
        if ok:
            det = "cheat byte read => no create_tokens; otherwise exactly create_tokens(1); both before wait_fds.remove"
    ctx.ob("R8.3", "block_on|child-exit-token-recreated-xor-cheat-eaten", ok, where=ctx.where(bo, cts[0]) if cts else bo.span, detail=det)
    surplus_released(ctx, "R8.3")

    # ---- R8.4 / token preconditions
    token_preconditions(ctx, "R8.4", include_release_mine=False)

    # ---- R8.5
    token_read_guard(ctx, "R8.5")

    # ---- R8.8
    S = anchors.scheduler(prog)
    s_ba = BA.of(S)
    cw = classify_waits(S, prog)
    gains = {r for _, r in cw["gain"] if r is not None}
    ends = common.ok_returns(S) or s_ba.returns()
    pts = [("wait_all-resume", r, p) for p, r in cw["loss"] if r is not None]
    pts += [("release_mine-return", S.blocks[i]["term"].get("target"), i) for i in s_ba.calls(r"jobserver::JobServerHandle::release_mine")]
    for k, (nm, lb, at) in common.ordinal_keys([(x[0], x) for x in pts]):
        if lb is None:
            continue
        p = s_ba.path([lb], ends, avoid=frozenset(gains), incl=True)
        ctx.ob("R8.8", "%s|%s->end-of-passes" % (S.key, k), p is None, where=ctx.where(S, at),
               detail="a token is re-acquired on every path from here to the end of the scheduling passes" if p is None else
               "the process can finish its passes (and exit) holding no token although it gave its own away: its parent recreates one for it, so a token appears from nothing",
               witness={"path": p[:25] if p else None})

    # ---- R8.9
    su = prog.one(r"jobserver::JobServer::setup")
    uba = BA.of(su)
    # the points where the pipe parsed from MAKEFLAGS is *chosen* as this server's token pipe: `Some(..)` values
    # built from the parse_makeflags payload that flow into ServerParams.token_fds. Each must lie on the
    # `max_jobs == 0` side of a test of the function's argument (whatever the idiom: match arm, ==, !=, !).
    eq0 = common.eq_const_edges(su, lambda l: l is not None and common.copy_root(su, l) == 1, 0)
    inherited = taint(su, src_call=lambda t_: call_matches(t_, r"jobserver::parse_makeflags"), mode="direct")
    fidx = adt_field_index(prog, "jobserver::ServerParams", "token_fds")
    used = set()
    for _, _, s_ in anchors.agg_sites(su, r"jobserver::ServerParams"):
        if fidx is not None and fidx < len(s_["rv"]["ops"]) and op_local(s_["rv"]["ops"][fidx]) is not None:
            used |= backward_direct(su, op_local(s_["rv"]["ops"][fidx]), depth=200)[0]
    somes = sorted({i for i, _, s_ in anchors.agg_sites(su, r"core::option::Option")
                    if s_["rv"].get("variant") == "Some" and not s_["place"]["p"] and s_["place"]["l"] in used
                    and any(op_local(o) in inherited for o in s_["rv"]["ops"])})
    ok = bool(eq0) and bool(somes) and all(any(uba.edge_dominates(e, x) for e in eq0) for x in somes)
    ctx.ob("R8.9", "setup|inherited-pipe-only-for-j0", ok, where=ctx.where(su, somes[0]) if somes else su.span,
           detail="token_fds = Some(inherited pipe) only on the max_jobs == 0 arm" if ok else "an explicit -j1/-jN keeps using the parent's token pipe: the requested limit is ignored below it")
    ct = uba.calls(r"jobserver::ServerState::create_tokens")
    ok = False
    if ct:
        sl, org, ar = backward_direct(su, op_local(su.blocks[ct[0]]["term"]["args"][1]))
        subs = []
        for l in sl:
            for d in uba.defs.get(l, []):
                if d[0] == "stmt" and d[3]["k"] == "binop" and d[3]["op"].startswith("Sub") and const_int(d[3]["b"]) == 1:
                    subs.append(d)
        ok = bool(subs) and 1 in sl
    ctx.ob("R8.9", "setup|primed-with-max_jobs-1", ok, where=su.span, detail="create_tokens(realmax - 1) with realmax derived from max_jobs" if ok else "the new jobserver is not primed with max_jobs - 1 tokens")

    # ---- R8.6
    dj = prog.find(r"<jobserver::JobServer as core::ops::drop::Drop>::drop")
    ok = False
    if len(dj) == 1:
        d = dj[0]
        dba = BA.of(d)
        calls = dba.calls(r"jobserver::JobServer::do_force_return_tokens")
        sws = common.field_switches(d, "jobserver::JobServer.dropped")
        if calls and len(sws) == 1:
            sw, t_t, f_t = sws[0]
            p = dba.path([f_t], dba.returns(), avoid=frozenset(calls), incl=True)
            ok = p is None
    ctx.ob("R8.6", "Drop-for-JobServer|returns-tokens-unless-done", ok, where=dj[0].span if dj else "",
           detail="drop() calls do_force_return_tokens unless already done" if ok else "JobServer can be dropped without returning its tokens")
    # the bodies that drive a JobServer (call block_on), found by that role: closure ordinals under the two
    # commands change when an unrelated closure is added before them. Both commands must have one.
    drivers = anchors.bodies_calling(prog, r"jobserver::JobServer::block_on")
    for parent in ("@bin::ifchange::run", "@bin::run_redo"):
        if not any(b.key == parent or b.key.startswith(parent + "::") for b in drivers):
            ctx.ob("R8.6", "%s|force_return_tokens-after-block_on" % parent, False, where="",
                   detail="no body under %s calls JobServer::block_on: the command's token return path was not found" % parent)
    for b in drivers:
        ba = BA.of(b)
        bos = ba.calls(r"jobserver::JobServer::block_on")
        frs = ba.calls(r"jobserver::JobServer::force_return_tokens")
        ok = bool(bos) and bool(frs) and ba.path(bos, ba.returns(), avoid=frozenset(frs)) is None
        ctx.ob("R8.6", "%s|force_return_tokens-after-block_on" % b.key, bool(ok), where=b.span,
               detail="every return after block_on passes force_return_tokens" if ok else "a path after block_on returns without force_return_tokens (only Drop remains)")
    S = anchors.scheduler(prog)
    fcl = {cl.key for _, _, cl in anchors.fork_closures(prog)}
    reach = ctx.cg.reachable([S.key, bo.key], stop=frozenset(fcl))
    bad = []
    for k in sorted(reach):
        if k == "<indirect>":
            continue
        b = prog.bodies[k]
        ba = BA.of(b)
        for i in ba.calls(r"std::process::exit"):
            if b.key == st.key and in_child_arm(st, i):
                continue
            bad.append((k, i))
    ctx.ob("R8.6", "no-process-exit-under-scheduler", not bad, where=", ".join(ctx.where(prog.bodies[k], i) for k, i in bad[:3]),
           detail="no process::exit reachable from builder::run / block_on in the parent (%d bodies searched)" % len(reach) if not bad else
           "process::exit reachable while the JobServer is alive: its destructor does not run and tokens are not returned: %s" % [k for k, _ in bad])

    # ---- R8.7
    poll = prog.one(r"<jobserver::AllJobsDone as core::future::future::Future>::poll")
    pba = BA.of(poll)
    # releases of one token that may be the process's last one: release_mine / release(fds, 1), except where the
    # process is known to hold at least two (the surplus loop `while my_tokens >= 2 { release(fds, 1) }`)
    plenty = ge_edges(poll, "jobserver::ServerState.my_tokens", at_least=2)
    rm = [r for r in release_sites(poll, "one") if not any(pba.edge_dominates(e, r) for e in plenty)]
    running = pba.switches_on_call(r"jobserver::ServerState::is_running")
    ok = False
    if rm and running:
        sw, t_t, f_t, _ = running[0]
        ok = all(pba.edge_dominates((sw, t_t), r) for r in rm)
    ctx.ob("R8.7", "AllJobsDone::poll|release_mine-only-while-running", ok, where=poll.span,
           detail="release_mine() is dominated by is_running() == true" if ok else "own token can be released although no child runs (a terminating redo would exit without a token)")
    tt = pba.calls(r"jobserver::AllJobsDone::test_tokens")
    ok = False
    if tt and running:
        sw, t_t, f_t, _ = running[0]
        ok = all(pba.edge_dominates((sw, f_t), r) for r in tt)
    ctx.ob("R8.7", "AllJobsDone::poll|self-test-only-when-idle", ok, where=poll.span,
           detail="test_tokens() is dominated by is_running() == false" if ok else "token self-test may run while children still hold tokens")


PIPE_WRITE = r"jobserver::write_tokens|nix::unistd::write"


def written_count_increments(body, wb):
    """Blocks holding a `+ 1` on a local from which the amount written by the pipe write at block wb is
    computed: the count operand of write_tokens(fd, n), or the buffer of write(fd, &buf) (derived flow through
    the calls that build the buffer, e.g. repeat(b).take(n).collect())."""
    ba = BA.of(body)
    t = body.blocks[wb]["term"]
    if len(t["args"]) < 2 or op_local(t["args"][1]) is None:
        return set()
    seen, st, out = set(), [op_local(t["args"][1])], set()
    while st and len(seen) < 80:
        x = st.pop()
        if x in seen or x is None:
            continue
        seen.add(x)
        for d in ba.defs.get(x, []):
            if d[0] == "stmt":
                rv = d[3]
                if rv["k"] == "binop" and rv["op"].startswith("Add") and const_int(rv["b"]) == 1:
                    out.add(d[1])
                st.extend(p["l"] for p in rvalue_places(rv))
            elif d[0] == "call":
                st.extend(op_local(a) for a in d[2]["args"])
    return out


def positive_switches(body, field):
    """[(switch_bb, positive_target, non_positive_target)] for bool switches testing `field > 0` in any
    spelling (`> 0`, `>= 1`, `<= 0`, `< 1`, operands either way round, through `!`)."""
    ba = BA.of(body)
    out = []
    for i in sorted(ba.live):
        bs = ba.bool_switch(i)
        if not bs:
            continue
        t_t, f_t, (kind, info) = bs
        if kind != "binop" or t_t == f_t:
            continue
        rv = info[1]
        op, a, b = rv["op"], rv["a"], rv["b"]
        if const_int(a) is not None and const_int(b) is None:
            a, b = b, a
            op = {"Lt": "Gt", "Gt": "Lt", "Le": "Ge", "Ge": "Le"}.get(op, op)
        k = const_int(b)
        if k is None or not common.reads_field(body, {"k": "use", "op": a}, field):
            continue
        if (op, k) in (("Gt", 0), ("Ge", 1)):
            out.append((i, t_t, f_t))
        elif (op, k) in (("Le", 0), ("Lt", 1)):
            out.append((i, f_t, t_t))
    return out


def paired_per_pass(ba, A, B, exits):
    """Along every path from the entry to a block of `exits`, blocks of A and blocks of B strictly alternate
    and are equal in number (each A event is paired with exactly one B event, in either fixed order)."""
    A, B = set(A), set(B)
    if not A or not B or A & B:
        return False
    if ba.path(sorted(A), A, avoid=frozenset(B)) is not None or ba.path(sorted(B), B, avoid=frozenset(A)) is not None:
        return False
    a_first = ba.path([0], A, avoid=frozenset(B), incl=True) is not None
    b_first = ba.path([0], B, avoid=frozenset(A), incl=True) is not None
    if a_first == b_first:
        return False
    first, second = (A, B) if a_first else (B, A)
    return ba.path(sorted(first), exits, avoid=frozenset(second)) is None


def counter_update(body, w):
    """For a field write w = (bb, idx, stmt) of the form `X.f = X.f (+|-) k` (directly or through the
    checked-arithmetic temporary): ('+'|'-', operand k). None for any other assignment."""
    bb, j, s = w
    ba = BA.of(body)
    fld = place_fields(s["place"])[-1]
    rv = s["rv"]
    b = None
    if rv["k"] == "binop":
        b = rv
    elif rv["k"] == "use":
        p = op_place(rv["op"])
        d = ba.single_def(p["l"]) if p is not None else None
        if d and d[0] == "stmt" and d[3]["k"] == "binop":
            b = d[3]
    if b is None or not b["op"].startswith(("Add", "Sub")):
        return None
    if not common.reads_field(body, {"k": "use", "op": b["a"]}, fld):
        return None
    return ("+" if b["op"].startswith("Add") else "-", b["b"])


def same_amount(body, o1, o2):
    """Two operands denote the same amount: equal integer constants or copies of one local."""
    k1, k2 = const_int(o1), const_int(o2)
    if k1 is not None or k2 is not None:
        return k1 == k2
    l1, l2 = op_local(o1), op_local(o2)
    return l1 is not None and l2 is not None and common.copy_root(body, l1) == common.copy_root(body, l2)


def panics_straight(body, bb):
    """Block bb leads without branching to a call of a panic entry point."""
    cur = bb
    for _ in range(8):
        t = body.blocks[cur]["term"]
        if t["t"] == "call":
            if any(re.match(r"core::panicking::|std::rt::begin_panic|std::panicking::", p) for p in callee_paths(t)):
                return True
            if "target" not in t:
                return False
            cur = t["target"]
        elif t["t"] == "goto":
            cur = t["target"]
        else:
            return False
    return False


def ge_edges(body, field, amount=None, at_least=None):
    """Edges [(switch_bb, target)] on which `<place under field> >= amount` is known to hold (amount an
    operand compared by same_amount) or, with at_least=k, on which the field is known to be >= k."""
    ba = BA.of(body)
    out = []
    for i in sorted(ba.live):
        bs = ba.bool_switch(i)
        if not bs:
            continue
        t_t, f_t, (kind, info) = bs
        if kind != "binop" or t_t == f_t:
            continue
        rv = info[1]
        op = rv["op"]
        a, b = rv["a"], rv["b"]
        if common.reads_field(body, {"k": "use", "op": b}, field) and not common.reads_field(body, {"k": "use", "op": a}, field):
            a, b = b, a
            op = {"Lt": "Gt", "Gt": "Lt", "Le": "Ge", "Ge": "Le"}.get(op, op)
        elif not common.reads_field(body, {"k": "use", "op": a}, field):
            continue
        # now: field <op> b
        if amount is not None:
            if not same_amount(body, b, amount):
                continue
            if op == "Ge":
                out.append((i, t_t))
            elif op == "Lt":
                out.append((i, f_t))
        else:
            k = const_int(b)
            if k is None:
                continue
            if (op == "Ge" and k >= at_least) or (op == "Gt" and k >= at_least - 1) or (op == "Eq" and k >= at_least):
                out.append((i, t_t))
            elif (op == "Lt" and k >= at_least) or (op == "Le" and k >= at_least - 1):
                out.append((i, f_t))
    return out


def destroy_sites(prog, body, amount=None, inline_only=False):
    """Blocks of `body` where n owned tokens are destroyed: calls of ServerState::destroy_tokens, or its
    effect written out in place (`my_tokens -= n` on the `my_tokens >= n` side of an assertion of the same n:
    what destroy_tokens does). amount: only sites destroying exactly that constant number."""
    ba = BA.of(body)
    out = []
    for i in ([] if inline_only else ba.calls(r"jobserver::ServerState::destroy_tokens")):
        if amount is None or const_int(body.blocks[i]["term"]["args"][1]) == amount:
            out.append(i)
    for w in field_writes(body, MY):
        u = counter_update(body, w)
        if u is None or u[0] != "-":
            continue
        if amount is not None and const_int(u[1]) != amount:
            continue
        guards = [e for e in ge_edges(body, "jobserver::ServerState.my_tokens", amount=u[1])
                  if ba.edge_dominates(e, w[0]) and any(panics_straight(body, s) for s in body.succ(e[0]) if s != e[1])]
        if guards:
            out.append(w[0])
    return sorted(set(out))


def release_sites(body, kind):
    """Blocks of `body` that give tokens back through ServerState::release, by what they release:
    'surplus'  everything but the own token: release_except_mine(fds), or release(fds, n) with n computed as
               `my_tokens - 1`;
    'one'      one token: release_mine(fds), or release(fds, 1)."""
    ba = BA.of(body)
    out = []
    if kind == "surplus":
        out += ba.calls(r"jobserver::ServerState::release_except_mine")
    else:
        out += ba.calls(r"jobserver::ServerState::release_mine")
    for i in ba.calls(r"jobserver::ServerState::release"):
        args = body.blocks[i]["term"]["args"]
        if len(args) < 3:
            continue
        n = args[2]
        if const_int(n) is not None:
            if kind == "one" and const_int(n) == 1:
                out.append(i)
            continue
        l = common.copy_root(body, op_local(n))
        d = ba.single_def(l) if l is not None else None
        rv = d[3] if d and d[0] == "stmt" else None
        if rv is not None and rv["k"] == "use" and op_place(rv["op"]) is not None and op_place(rv["op"])["p"]:
            # `.0` of the checked-arithmetic pair
            d2 = ba.single_def(op_place(rv["op"])["l"])
            rv = d2[3] if d2 and d2[0] == "stmt" else None
        if (kind == "surplus" and rv is not None and rv["k"] == "binop" and rv["op"].startswith("Sub") and const_int(rv["b"]) == 1
                and common.reads_field(body, {"k": "use", "op": rv["a"]}, "jobserver::ServerState.my_tokens")):
            out.append(i)
    return sorted(set(out))


def fd_calls(body, rx, field, arg=0):
    """Blocks of `body` calling rx with an fd operand (argument `arg`) read from a place under `field`
    (e.g. the token pipe: 'jobserver::ServerParams.token_fds'), through copies into locals."""
    ba = BA.of(body)
    return [i for i in ba.calls(rx)
            if len(body.blocks[i]["term"]["args"]) > arg
            and common.reads_field(body, {"k": "use", "op": body.blocks[i]["term"]["args"][arg]}, field)]


def adt_field_index(prog, adt, field):
    """Position of `field` among the fields of struct `adt` (= operand position in its aggregate), or None."""
    a = prog.adts.get(adt)
    if not a or len(a["variants"]) != 1:
        return None
    names = [f["name"] for f in a["variants"][0]["fields"]]
    return names.index(field) if field in names else None


def surplus_released(ctx, rid):
    """After a child's token is recreated the surplus goes back to the pipe before the next event is
    handled: create_tokens(1) -> has_token() -> release_except_mine, so that a wake-up that reaps
    several children cannot leave my_tokens > 1."""
    prog = ctx.prog
    bo = anchors.event_loop(prog)
    ba = BA.of(bo)
    cts = ba.calls(r"jobserver::ServerState::create_tokens")
    rel = release_sites(bo, "surplus")
    removes = ba.calls(r"std::collections::hash::map::HashMap::remove")
    # "holds a token" tests: has_token() or a comparison my_tokens >= 1 in any spelling -> (switch, token side)
    tests = [(sw, t_t) for (sw, t_t, f_t, c) in ba.switches_on_call(r"jobserver::ServerState::has_token")]
    tests += ge_edges(bo, "jobserver::ServerState.my_tokens", at_least=1)
    ok = False
    if cts and rel and removes and tests:
        ok = True
        for ct in cts:
            # the test and the release come after the recreate and before the job is forgotten
            mine = [(sw, t_t) for (sw, t_t) in tests if ba.dominates(ct, sw) and any(ba.edge_dominates((sw, t_t), r) for r in rel)]
            ok = ok and bool(mine) and ba.path([ct], removes, avoid=frozenset(sw for sw, _ in mine)) is None
            ok = ok and all(ba.path([t_t], removes, avoid=frozenset(rel), incl=True) is None for _, t_t in mine)
    ctx.ob(rid, "%s|surplus-released-after-recreate" % bo.key, ok, where=ctx.where(bo, cts[0]) if cts else bo.span,
           detail="create_tokens(1) is followed by has_token() => release_except_mine() before the job is forgotten" if ok else
           "the surplus is not released after the child's token was recreated: two children reaped in one wake-up leave my_tokens == 2 and the `my_tokens == 1` assertions fire")


def in_child_arm(st, bb):
    """In JobServerHandle::start: is block bb on the ForkResult::Child side of the fork result?"""
    ba = BA.of(st)
    for sw in sorted(ba.live):
        es = ba.enum_switch(sw)
        if not es:
            continue
        place, arms, other = es
        if "ForkResult" not in st.locals[place["l"]]:
            continue
        # Parent is variant 0, Child is variant 1 (nix::unistd::ForkResult { Parent{child}, Child })
        ch = arms.get(1, other)
        if ba.edge_dominates((sw, ch), bb) and ch != arms.get(0):
            return True
    return False


def add_operand(body, w):
    """For a field write `X.f = tmp.0` where tmp = AddWithOverflow(X.f, k): return ('int', k) or
    ('local', l) for the addend."""
    bb, j, s = w
    ba = BA.of(body)
    rv = s["rv"]
    p = op_place(rv.get("op")) if rv["k"] == "use" else None
    if rv["k"] == "binop":
        b = rv
    elif p is not None:
        d = ba.single_def(p["l"])
        if not d or d[0] != "stmt" or d[3]["k"] != "binop":
            return None
        b = d[3]
    else:
        return None
    if not b["op"].startswith(("Add", "Sub")):
        return None
    k = const_int(b["b"])
    if k is not None:
        return ("int", k)
    l = op_local(b["b"])
    if l is not None:
        # normalise through copies
        sl, _, _ = backward_direct(body, l)
        named = sorted(x for x in sl if body.local_name(x) != "_%d" % x)
        return ("local", named[0] if named else l)
    return None


POLL_FN = r"futures_util::future::poll_fn::poll_fn"
POLL_CALL = r"futures_util::future::future::FutureExt::poll_unpin|.*future::future::Future::poll"


def future_names(S, l):
    """Callee paths of the calls that produced the future held in local `l` of S (through pins, refs, fuse);
    the foreground future of builder::wait_for stands for the wait_for call."""
    _, origins, _ = backward_direct(S, l, depth=200)
    names = set()
    todo = list(origins)
    seen_calls = set()
    while todo:
        o = todo.pop()
        if o[0] != "call" or o[1] in seen_calls:
            continue
        seen_calls.add(o[1])
        names.update(callee_paths(o[2]))
        if call_matches(o[2], r"builder::wait_for"):
            # the foreground future of wait_for decides what this await waits for
            _, org2, _ = backward_direct(S, op_local(o[2]["args"][0]), depth=200)
            todo.extend(org2)
    return names, origins


def select_arms(prog, S, pbb, origins):
    """An await of futures' `select!` (the awaited future is `poll_fn(closure)` where the closure holds one
    sub-closure per selected future; sub-closure k polls its captured future and wraps a Ready value into
    variant `_k` of the macro's result enum, on which the awaiting body then switches).
    Returns [(block entered when the arm's future completed, local of S holding that future)] or None when
    the await is not of that form. Nothing is read from names of locals: the arm <-> future correspondence is
    the value flow closure upvar -> polled receiver -> Poll::map(<variant constructor>) -> switch arm."""
    from core import closure_sites, upvar_index
    pf = [o for o in origins if o[0] == "call" and call_matches(o[2], POLL_FN)]
    if len(pf) != 1:
        return None
    _, org, _ = backward_direct(S, op_local(pf[0][2]["args"][0]), depth=40)
    cl = [o for o in org if o[0] == "agg" and o[2].get("agg") == "closure"]
    if len(cl) != 1:
        return None
    K = prog.bodies.get(strip_generics(cl[0][2]["def"]))
    if K is None:
        return None
    kops = cl[0][2]["ops"]
    kba = BA.of(K)
    variant_future = {}
    for (bb, j, dest, sk, ops) in closure_sites(K):
        B = prog.bodies.get(sk)
        if B is None or len(ops) != 1 or op_local(ops[0]) is None:
            continue
        # which upvar of K does the sub-closure capture?
        pl = kba.resolve_ref(op_local(ops[0]))
        uv = upvar_index(pl) if pl is not None else None
        if uv is None or uv[0] >= len(kops):
            continue
        bba = BA.of(B)
        for m in bba.calls(r"core::task::poll::Poll::map"):
            mt = B.blocks[m]["term"]
            c = op_const(mt["args"][1]) if len(mt["args"]) > 1 else None
            if not c or "fn" not in c:
                continue
            sl, morg, _ = backward_direct(B, op_local(mt["args"][0]), depth=40)
            polls = [o for o in morg if o[0] == "call" and call_matches(o[2], POLL_CALL)]
            if len(polls) != 1:
                continue
            rsl, _, _ = backward_direct(B, op_local(polls[0][2]["args"][0]), depth=40)
            if 1 not in rsl:
                continue        # the polled receiver is not the captured future
            variant_future[c["fn"].rsplit("::", 1)[-1]] = op_local(kops[uv[0]])
    if not variant_future:
        return None
    # the switch on the await's result
    ba = BA.of(S)
    dest = S.blocks[pbb]["term"]["dest"]["l"]
    # locals holding the await's value: `v = (poll_result as Ready).0` and whole-local moves of it
    vals = set()
    changed = True
    while changed:
        changed = False
        for blk in S.blocks:
            for s in blk["stmts"]:
                if s["s"] != "assign" or s["place"]["p"] or s["rv"]["k"] != "use" or s["place"]["l"] in vals:
                    continue
                p = op_place(s["rv"]["op"])
                if p is None:
                    continue
                if (p["l"] == dest and p["p"][:1] == ["as:Ready"] and len(p["p"]) == 2) or (p["l"] in vals and not p["p"]):
                    vals.add(s["place"]["l"])
                    changed = True
    sws = []
    for sw in sorted(ba.live):
        t = S.blocks[sw]["term"]
        if t["t"] != "switch" or not t.get("enum_variants"):
            continue
        es = ba.enum_switch(sw)
        if not es or es[0]["p"]:
            continue
        if es[0]["l"] in vals:
            sws.append((sw, t, es))
    if len(sws) != 1:
        return None
    sw, t, (place, arms, other) = sws[0]
    out = []
    for val, nm in t["enum_variants"]:
        if nm in variant_future and val in arms and variant_future[nm] is not None:
            out.append((arms[val], variant_future[nm]))
    return out if len(out) == len(variant_future) else None


def classify_waits(S, prog=None):
    """Classify the awaits of the scheduler by what they wait for.
    Returns dict: 'gain' -> ready blocks of awaits completing an ensure_token_or_cheat (directly, as the
    foreground future of wait_for, or as an arm of a `select!`: then the block entered on that arm);
    'loss' -> ready blocks of awaits of wait_all (the process may come back with no token)."""
    ba = BA.of(S)
    gain, loss, other = [], [], []

    def put(pbb, ready, names):
        if any(n.endswith("JobServerHandle::ensure_token_or_cheat") for n in names):
            gain.append((pbb, ready))
        elif any(n.endswith("JobServerHandle::wait_all") for n in names):
            loss.append((pbb, ready))
        else:
            other.append((pbb, ready, sorted(names)))

    for (pbb, y, ready, callee) in ba.awaits():
        t = S.blocks[pbb]["term"]
        names, origins = future_names(S, op_local(t["args"][0]))
        arms = select_arms(prog, S, pbb, origins) if prog is not None else None
        if arms is not None:
            for blk, fl in arms:
                put(pbb, blk, future_names(S, fl)[0])
        else:
            put(pbb, ready, names)
    return {"gain": gain, "loss": loss, "other": other}


def token_preconditions(ctx, rid, include_release_mine):
    """Every path from a point where the process may hold no token (resume of wait_all, return of
    release_mine, return of a job start which destroys the token) to the next job start
    (asserts my_tokens == 1) - and to release_mine (asserts >= 1) - passes a completed
    ensure_token_or_cheat."""
    prog = ctx.prog
    S = anchors.scheduler(prog)
    ba = BA.of(S)
    start_key = anchors.job_start(prog).key
    cw = classify_waits(S, prog)
    gains = {r for _, r in cw["gain"] if r is not None}
    ctx.floor(rid, "awaited ensure_token_or_cheat in the scheduler", len(gains), 2)
    ctx.floor(rid, "awaited wait_all in the scheduler", len(cw["loss"]), 1)
    starts = ba.calls(re.escape(start_key))
    rms = ba.calls(r"jobserver::JobServerHandle::release_mine")
    loss_points = [("wait_all-resume", r, p) for p, r in cw["loss"] if r is not None]
    loss_points += [("release_mine-return", S.blocks[i]["term"].get("target"), i) for i in rms]
    loss_points += [("job-start-return", S.blocks[i]["term"].get("target"), i) for i in starts]
    sinks = [("job-start", starts)]
    if include_release_mine:
        sinks.append(("release_mine", rms))
    for k, (lname, lb, at) in common.ordinal_keys([(x[0], x) for x in loss_points]):
        if lb is None:
            continue
        # a path that meets another loss point first is that point's instance, not this one's
        other_loss = {x[1] for x in loss_points if x[1] is not None and x[1] != lb and x[0] != "job-start-return"}
        for sname, sbs in sinks:
            p = ba.path([lb], sbs, avoid=frozenset(gains | other_loss), incl=True)
            ctx.ob(rid, "%s|%s->%s" % (S.key, k, sname), p is None, where=ctx.where(S, at),
                   detail=("after %s the process may hold no token, yet a path reaches %s (which asserts on the token count) without a completed ensure_token_or_cheat" % (lname, sname))
                   if p else "token re-acquired on every path from %s to %s" % (lname, sname),
                   witness={"path": p[:25] if p else None})


def token_read_guard(ctx, rid):
    prog = ctx.prog
    bo = anchors.event_loop(prog)
    ba = BA.of(bo)
    incs = field_writes(bo, MY)
    sel = [i for i in ba.calls(r"nix::sys::select::select")]
    if not ctx.ob(rid, "%s|anchors" % bo.key, len(incs) == 1 and len(sel) == 1, where=bo.span, detail="token increment and select() located"):
        return
    ib = incs[0][0]
    guards = []
    for sw in sorted(ba.live):
        bs = ba.bool_switch(sw)
        if not bs:
            continue
        t_t, f_t, (kind, info) = bs
        no_token_edge = None
        if kind == "call" and call_matches(info[1], r"jobserver::ServerState::has_token"):
            no_token_edge = f_t
        elif kind == "binop" and common.reads_field(bo, {"k": "use", "op": info[1]["a"]}, "jobserver::ServerState.my_tokens"):
            op, k = info[1]["op"], const_int(info[1]["b"])
            if (op, k) in (("Ge", 1), ("Gt", 0), ("Ne", 0)):
                no_token_edge = f_t
            elif (op, k) in (("Lt", 1), ("Le", 0), ("Eq", 0)):
                no_token_edge = t_t
        if no_token_edge is None:
            continue
        if ba.dominates(sel[0], sw) and ba.edge_dominates((sw, no_token_edge), ib):
            guards.append(sw)
    ctx.ob(rid, "%s|token-read-guarded-by-no-token" % bo.key, bool(guards), where=ctx.where(bo, ib),
           detail="the token read is dominated by a 'holds no token' test made after select()" if guards else
           "a child exit handled in the same wake-up can recreate a token and the token pipe is still read: my_tokens becomes 2, "
           "one token too many is taken from the pool and the `my_tokens == 1` assertions fire")
