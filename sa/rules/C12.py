"""C12 - Dependency cycles end in an error, never in a hang."""
import re

import anchors
from core import (BA, call_matches, callee_paths, op_local, op_place, op_const, const_int, const_str, place_fields, taint,
                  str_consts, upvar_index)
from rules import common, dirt
from rules.C06 import backward_direct, env_setters

EXPLANATION = (
    "Static must-pass-through / value-flow / effect rules: every fcntl lock acquisition (try_lock, wait_lock) first "
    "passes Lock::check, which consults the inherited cycle set with the lock's own id and returns CyclicDependency on "
    "membership; the .do child adds its own lock id to the inherited set before exec; nothing on the way to a nested "
    "redo clears that variable; the scheduler checks before the blocking wait; the recorded-graph walk carries a visited "
    "set; CyclicDependency maps to exit 208. Does NOT decide bounded-time termination, nor cycles closed through a "
    "different top-level invocation."
)
ASSUMPTIONS = ["the environment variable is inherited across exec unchanged by the .do script", "unwind edges excluded"]


def _cycle_var_names(b):
    return {s for (_, _, s, named) in str_consts(b) if named and "ENV_CYCLES" in named}


def _family(prog, b, depth=2):
    """b, its closures, and the cycles:: helpers it calls (with their closures)."""
    out = {b.key: b}
    work = [(b, depth)]
    while work:
        x, d = work.pop()
        for k, c in prog.bodies.items():
            if k.startswith(x.key + "::{") and k not in out:
                out[k] = c
                work.append((c, d))
        if d > 0:
            for i in BA.of(x).all_calls():
                for p_ in callee_paths(x.blocks[i]["term"]):
                    cb = prog.bodies.get(p_)
                    if cb is not None and p_.startswith("cycles::") and p_ not in out:
                        out[p_] = cb
                        work.append((cb, d - 1))
    return list(out.values())


def _sep_of(x, t, n):
    """The separator operand of a split/join call as a string (a char constant, a string literal, or a local
    that is a plain copy / reference of one)."""
    a = t["args"][n] if len(t.get("args", [])) > n else None
    if a is None:
        return None
    ba = BA.of(x)
    for _ in range(6):
        v = const_int(a)
        if v is not None:
            return chr(v)
        sv = const_str(a)
        if sv is not None:
            return sv
        l = op_local(a)
        if l is None:
            return None
        d = ba.single_def(l)
        if d is None or d[0] != "stmt":
            return None
        rv = d[3]
        if rv["k"] == "use":
            a = rv["op"]
        elif rv["k"] == "ref" and rv["place"]["p"] in ([], ["deref"]):
            a = {"copy": {"l": rv["place"]["l"], "p": []}}
        else:
            return None
    return None


def _cycle_representation(prog, b):
    rep = {"split": set(), "join": set(), "raw": [], "set": False}
    for x in _family(prog, b):
        ba = BA.of(x)
        for i in ba.all_calls():
            t = x.blocks[i]["term"]
            ps = callee_paths(t)
            if any(re.fullmatch(r"core::str::<impl str>::(split|rsplit|split_terminator)", p_) for p_ in ps):
                rep["split"].add(_sep_of(x, t, 1))
            elif any(re.fullmatch(r"alloc::slice::<impl \[T\]>::join|alloc::str::<impl \[S\]>::join", p_) for p_ in ps):
                rep["join"].add(_sep_of(x, t, 1))
            elif any(re.fullmatch(r"alloc::string::String::(push|push_str)", p_) for p_ in ps):
                # a join written as a loop: the separator pushed between the items (a constant char / short literal)
                sp = _sep_of(x, t, 1)
                if sp is not None and len(sp) <= 2:
                    rep["join"].add(sp)
            elif any(re.fullmatch(r"core::str::<impl str>::(contains|find|rfind|starts_with|ends_with|matches|match_indices)", p_) for p_ in ps):
                # only a test on the variable's own text counts (not, say, an assertion about the id)
                envs = {x.blocks[j]["term"]["dest"]["l"] for j in ba.calls(r"std::env::(var|var_os)")}
                if envs:
                    tn = taint(x, seeds=envs, mode="derived")
                    r0 = op_local(t["args"][0]) if t.get("args") else None
                    if r0 is not None and (r0 in tn or any(y in tn for y in ba.ref_chain(r0))):
                        rep["raw"].append(common.short(ps[0]))
            elif any(re.fullmatch(r"std::collections::hash::set::HashSet::(contains|insert)|alloc::collections::btree::set::BTreeSet::(contains|insert)", p_) for p_ in ps):
                rep["set"] = True
    return rep


def _rep_s(rep):
    return "split%s join%s%s%s" % (sorted(x or "?" for x in rep["split"]), sorted(x or "?" for x in rep["join"]), " raw-string test " + ",".join(rep["raw"]) if rep["raw"] else "", "" if rep["set"] else " no set membership")


def _reads_cycle_var(prog, b, depth=1):
    """Does `b` read the cycle variable: an env::var / var_os call on the ENV_CYCLES constant here, or in a
    cycles:: helper it calls?"""
    ba = BA.of(b)
    for i in ba.calls(r"std::env::(var|var_os)"):
        c = op_const(b.blocks[i]["term"]["args"][0]) if b.blocks[i]["term"].get("args") else None
        if c is not None and ("ENV_CYCLES" in (c.get("named") or "") or c.get("str") == "REDO_CYCLES"):
            return True
    if depth > 0:
        for i in ba.all_calls():
            for p_ in callee_paths(b.blocks[i]["term"]):
                cb = prog.bodies.get(p_)
                if cb is not None and p_.startswith("cycles::") and cb.key != b.key and _reads_cycle_var(prog, cb, depth - 1):
                    return True
    return False


def run(ctx):
    prog = ctx.prog
    ctx.rule("R12.1", "Lock::try_lock and Lock::wait_lock pass Lock::check before fcntl; check calls cycles::check with the lock's id; cycles::check returns CyclicDependency on membership")
    ctx.rule("R12.2", "the .do child closure calls cycles::add(lock id) before execvp; add and get use the same variable")
    ctx.rule("R12.3", "nothing reachable from the child closures or redo-unlocked removes or clears the cycle variable")
    ctx.rule("R12.4", "in the scheduler's blocking path Lock::check precedes wait_lock")
    ctx.rule("R12.5", "recorded-graph walk: visited-set test first, own id inserted before recursing, recursion receives the extended set")
    ctx.rule("R12.6", "CyclicDependency maps to exit status 208")
    ctx.rule("R12.8", "every lock held by the forking process is visible to the child's cycle check (own job and sibling jobs)")
    ctx.rule("R12.7", "the shortest cycle (a target asking for itself) is refused by add_dep with CyclicDependency, not by an assertion")

    for m in ("try_lock", "wait_lock"):
        b = prog.one(r"state::Lock::" + m)
        ba = BA.of(b)
        fc = ba.calls(r"nix::fcntl::fcntl")
        ck = ba.calls(r"state::Lock::check")
        common.mpt(ctx, "R12.1", "Lock::%s|check-before-fcntl" % m, b, [0], fc, ck, "Lock::check precedes fcntl", "a lock is requested from the kernel without the cycle check")
        # the check's error is propagated (the `?` on check leads to return)
        tr = [(br, brk, cont, src) for (br, brk, cont, src) in ba.try_sites() if src and src[0] in ck]
        ctx.ob("R12.1", "Lock::%s|check-error-propagates" % m, bool(tr) and all(ba.path([brk], fc, incl=True) is None for (_, brk, _, _) in tr), where=b.span,
               detail="a failed check returns before fcntl")
    ck = prog.one(r"state::Lock::check")
    cba = BA.of(ck)
    cc = cba.calls(r"cycles::check")
    ok = False
    if cc:
        sl, org, _ = backward_direct(ck, op_local(ck.blocks[cc[0]]["term"]["args"][0]), depth=80)
        ok = any(common.reads_field(ck, {"k": "use", "op": {"copy": {"l": l, "p": []}}}, "state::Lock.fid") for l in sl) or \
            any(o[0] == "call" and any(common.reads_field(ck, {"k": "use", "op": a}, "state::Lock.fid") for a in o[2]["args"] if op_local(a) is not None) for o in org)
    ctx.ob("R12.1", "Lock::check|cycles::check(self.fid)", ok and cba.path([0], common.ok_returns(ck), avoid=frozenset(cc), incl=True) is None, where=ck.span,
           detail="check consults the inherited set with the lock's own id on every Ok path")
    cyc = prog.one(r"cycles::check")
    yba = BA.of(cyc)
    cont = yba.switches_on_call(r"std::collections::hash::set::HashSet::contains")
    ok = False
    if cont:
        sw, t_t, f_t, _ = cont[0]
        errs = common.blocks_with_agg(cyc, r"error::RedoErrorKind", "CyclicDependency")
        ok = bool(errs) and yba.path([t_t], yba.returns(), avoid=frozenset(errs), incl=True) is None and _reads_cycle_var(prog, cyc)
    ctx.ob("R12.1", "cycles::check|member=>CyclicDependency", ok, where=cyc.span, detail="membership in cycles::get() returns CyclicDependency")

    # ---- R12.2: every forked child that runs while its parent keeps the target's lock gets that lock's id
    fcs = anchors.fork_closures(prog)
    SS = anchors.start_self(prog)
    ctx.floor("R12.2", "closures handed to JobServerHandle::start", len(fcs), 2)
    for parent, cbb, cl in fcs:
        lba = BA.of(cl)
        ex = lba.calls(r"nix::unistd::execvp")
        ad = lba.calls(r"cycles::add")
        # the id may be skipped only where an ancestor has provably exported it already: on the
        # `env.unlocked` side (this process was started by redo-unlocked for exactly this target), provided the
        # redo-unlocked child closure itself adds the id (checked as its own instance)
        unlocked_side = [t_t for (sw_, t_t, f_t) in common.field_switches(cl, "env::Env.unlocked")]
        others_add = all(bool(BA.of(c2).calls(r"cycles::add")) for (_, _, c2) in fcs if c2.key != cl.key and "unlocked" in c2.key)
        # (feasible paths: when the child's steps are methods spliced back in, an error exit of one step joins the
        # normal exit before the caller's `?`, and plain block paths would run on from a failed step to the exec)
        from core import FAL as _FAL
        fal = _FAL.of(cl)
        p_strict = fal.path([0], ex, avoid=frozenset(ad), incl=True) if ex else [0]
        p_relaxed = fal.path([0], ex, avoid=frozenset(ad) | frozenset(unlocked_side), incl=True) if ex else [0]
        ok_add = bool(ad) and (p_strict is None or (p_relaxed is None and others_add and bool(unlocked_side)))
        ctx.ob("R12.2", "%s|cycles::add-before-exec" % cl.key, ok_add, where=ctx.where(cl, ex[0]) if ex else cl.span,
               detail=("cycles::add precedes execvp on every path" if p_strict is None else "cycles::add is skipped only on the env.unlocked side, where redo-unlocked's own child closure has already exported the id") if ok_add else
               "the child can be exec'd without the lock id of the target its parent keeps locked: a cycle through it is not detected and the chain blocks in F_SETLKW for ever",
               witness={"path": p_strict[:15] if p_strict else None})
        ok = False
        if ad:
            sl, org, _ = backward_direct(cl, op_local(cl.blocks[ad[0]]["term"]["args"][0]), depth=80)
            # (a) file_id() of the captured lock, called in the child
            for o in [o for o in org if o[0] == "call" and call_matches(o[2], r"state::Lock::file_id")]:
                chain_places = []
                for l in lba.ref_chain(op_local(o[2]["args"][0]), depth=24):
                    d = lba.single_def(l)
                    if d and d[0] == "stmt" and d[3]["k"] in ("ref", "use"):
                        chain_places.extend(p for p in __import__("core").rvalue_places(d[3]) if p is not None)
                ups_ = [upvar_index(p) for p in chain_places if upvar_index(p)]
                lock_field = False
                for p in chain_places:
                    for e in p["p"]:
                        if isinstance(e, str) and e.startswith("f:") and not e.startswith("f:upvar."):
                            adt, _, fname = e[2:].rpartition(".")
                            a_ = prog.adts.get(adt)
                            for v_ in (a_ or {}).get("variants", []):
                                for fl in v_["fields"]:
                                    if fl["name"] == fname and re.sub(r"'[a-z_]+ ", "", fl["ty"]) in ("state::Lock", "&state::Lock", "&mut state::Lock"):
                                        lock_field = True
                for u in ups_:
                    pl = _upvar_parent_local(parent, cl, u[0])
                    if pl is None:
                        continue
                    if parent.locals[pl] in ("state::Lock", "&state::Lock"):
                        ok = True
                    elif lock_field:
                        # the lock travels inside a struct the closure captured (`child.lock`)
                        ok = True
            # (b) a captured value that the parent computed with Lock::file_id()
            ups = set()
            for l in sl:
                for d in lba.defs.get(l, []):
                    if d[0] == "stmt":
                        for p in __import__("core").rvalue_places(d[3]):
                            u = upvar_index(p)
                            if u:
                                ups.add(u[0])
                    elif d[0] == "call":
                        for a in d[2]["args"]:
                            p = op_place(a)
                            u = upvar_index(p) if p else None
                            if u:
                                ups.add(u[0])
            for ui in ups:
                pl = _upvar_parent_local(parent, cl, ui)
                if pl is None:
                    continue
                pba = BA.of(parent)
                for x in [pl] + pba.ref_chain(pl):
                    s2, o2, _ = backward_direct(parent, x, depth=40)
                    if any(o[0] == "call" and call_matches(o[2], r"state::Lock::file_id") for o in o2):
                        ok = True
        ctx.ob("R12.2", "%s|adds-own-lock-id" % cl.key, ok, where=ctx.where(cl, ad[0]) if ad else cl.span,
               detail="the id added is file_id() of the job's lock" if ok else "the id added is not the job's own lock id")
    fid = prog.one(r"state::Lock::file_id")
    ok = any(place_fields(p)[-1:] == ["state::Lock.fid"] for blk in fid.blocks for s in blk["stmts"] if s["s"] == "assign" for p in __import__("core").rvalue_places(s["rv"]))
    ctx.ob("R12.2", "Lock::file_id|returns-fid", ok, where=fid.span, detail="file_id() returns the id the lock was created with")
    # the reader of the inherited set (cycles::get, or cycles::check / cycles::add themselves when get is folded into them)
    # and the writer (cycles::add) must name the same variable
    add_b = prog.one(r"cycles::add")
    readers = prog.find(r"cycles::get") or [prog.one(r"cycles::check")]
    names = {"get": set(), "add": _cycle_var_names(add_b)}
    for b in readers:
        names["get"] |= _cycle_var_names(b)
    ok = bool(names["get"]) and names["get"] == names["add"] and bool(BA.of(add_b).calls(r"std::env::set_var")) and _reads_cycle_var(prog, add_b)
    # ... and the same representation: writer and reader split the variable at the same separator into a set, the
    # writer joins with that separator, and neither tests membership on the raw string
    chk_b = prog.one(r"cycles::check")
    rep_a, rep_c = _cycle_representation(prog, add_b), _cycle_representation(prog, chk_b)
    ok_rep = bool(rep_a["split"]) and rep_a["split"] == rep_c["split"] and rep_a["join"] == rep_a["split"] and not rep_a["raw"] and not rep_c["raw"] \
        and rep_a["set"] and rep_c["set"]
    ctx.ob("R12.2", "cycles::add/check|same-representation", ok_rep, where=add_b.span,
           detail="both split REDO_CYCLES at %s into a set; add joins with the same separator" % sorted(rep_a["split"]) if ok_rep else
           "writer and reader of REDO_CYCLES do not agree on its representation (add: %s, check: %s): an id that is a substring of another, or an id written in another form, is not found and the cycle becomes a wait for a lock an ancestor holds" % (_rep_s(rep_a), _rep_s(rep_c)))
    ctx.ob("R12.2", "cycles::add/get|same-variable", ok, where=add_b.span, detail="add() extends get() and writes it back to the same variable (%s)" % sorted(names["add"] | names["get"]))

    # ---- R12.3
    roots = [cl.key for _, _, cl in fcs] + ["@bin::unlocked::run"]
    reach = ctx.cg.reachable(roots, indirect=False)
    bad = []
    for k in sorted(reach):
        b = prog.bodies.get(k)
        if b is None:
            continue
        ba = BA.of(b)
        for i in ba.calls(r"std::env::remove_var|std::process::Command::env_remove|std::process::Command::env_clear"):
            t = b.blocks[i]["term"]
            if call_matches(t, r"std::process::Command::env_clear"):
                bad.append((k, i))
                continue
            a = t["args"][-1] if call_matches(t, r"std::env::remove_var") else t["args"][1]
            s = const_str(a)
            if s is None or s == "REDO_CYCLES":
                if s == "REDO_CYCLES" or s is None and not _const_arg_known(b, a):
                    bad.append((k, i))
        for (bb, i) in [(b, i) for (b2, i) in env_setters(prog, "REDO_CYCLES") if b2.key == k and k != "cycles::add" for b in [b2]]:
            bad.append((k, i))
    ctx.ob("R12.3", "cycle-variable-not-cleared", not bad, where=", ".join(ctx.where(prog.bodies[k], i) for k, i in bad[:3]),
           detail="no remove/clear of REDO_CYCLES reachable from the child closures or redo-unlocked (%d bodies)" % len(reach) if not bad else "the cycle set is dropped on the way to a nested redo")

    # ---- R12.4
    S = anchors.scheduler(prog)
    sba = BA.of(S)
    wl = sba.calls(r"state::Lock::wait_lock")
    chk = sba.calls(r"state::Lock::check")
    for k, w in common.ordinal_keys([("wait_lock", w) for w in wl]):
        ok = any(sba.dominates(c, w) for c in chk)
        ctx.ob("R12.4", "%s|%s|check-dominates" % (S.key, k), ok, where=ctx.where(S, w), detail="Lock::check dominates the blocking wait")

    dirt.visited_set(ctx, "R12.5")

    self_dependency_rule(ctx, "R12.7")
    sibling_locks_rule(ctx, "R12.8")

    ec = prog.one(r"error::RedoErrorKind::exit_code")
    eba = BA.of(ec)
    ok = False
    dv = {v["name"]: v["discr"] for v in prog.adts["error::RedoErrorKind"]["variants"]}
    for sw in sorted(eba.live):
        es = eba.enum_switch(sw)
        if es:
            tg = es[1].get(dv["CyclicDependency"])
            if tg is not None:
                r = eba.reach_incl([tg])
                vals = [c.get("int") for (bb, c) in common.ret_const_assigns(ec) if bb in r]
                ok = vals == [208]
    ctx.ob("R12.6", "exit_code|CyclicDependency=>208", ok, where=ec.span, detail="the CyclicDependency arm returns 208")


def _upvar_parent_local(parent, cl, idx):
    """Local of `parent` captured as upvar #idx of closure `cl` (through a `&x` temporary)."""
    from core import closure_sites
    for (bb, j, dest, k, ops) in closure_sites(parent, cl.key):
        if idx < len(ops):
            l = op_local(ops[idx])
            if l is None:
                return None
            pl = BA.of(parent).resolve_ref(l)
            if pl is not None and not pl["p"]:
                return pl["l"]
            return l
    return None


def sibling_locks_rule(ctx, rid):
    """R12.8: a job's child inherits the ids of *every* lock its forking process holds - not only
    the job's own - or else the process never starts a job while other jobs (whose futures own
    locks) are outstanding."""
    prog = ctx.prog
    S = anchors.scheduler(prog)
    ba = BA.of(S)
    pushes = ba.calls(common.PUSH)
    starts = ba.calls(re.escape(anchors.job_start(prog).key))
    drains = set(common.drain_ready_blocks(S))
    overlapped = ba.path(pushes, starts, avoid=frozenset(drains)) if pushes and starts else None
    # does any fork closure export all held locks (a loop over the lock registry feeding cycles::add)?
    exports_all = False
    for parent, cbb, cl in anchors.fork_closures(prog):
        cba = BA.of(cl)
        adds = cba.calls(r"cycles::add")
        if any(cba.path([a], [a]) for a in adds) or cba.calls(r"state::LockManager::held_ids|state::Lock::held"):
            exports_all = True
    ok = overlapped is None or exports_all
    ctx.ob(rid, "%s|sibling-job-locks-in-cycle-set" % S.key, ok, where=ctx.where(S, starts[0]) if starts else S.span,
           detail="jobs never overlap, or every held lock id is exported to the child" if ok else
           ("at -j>1 the scheduler starts a job while it still holds the locks of other running jobs, but a child's REDO_CYCLES only gets its own job's lock id: "
            "when two members of one cycle are named on the same command line (`redo -j2 a b` with a <-> b) each chain blocks on the lock of the other's ancestor for ever"),
           witness={"path": overlapped[:20] if overlapped else None})


def self_dependency_rule(ctx, rid):
    prog = ctx.prog
    ad = prog.one(r"state::File::add_dep")
    ba = BA.of(ad)
    found = None
    for sw in sorted(ba.live):
        bs = ba.bool_switch(sw)
        if not bs:
            continue
        t_t, f_t, (kind, info) = bs
        if kind == "binop" and info[1]["op"] in ("Eq", "Ne"):
            a_id = common.reads_field(ad, {"k": "use", "op": info[1]["a"]}, "state::File.id")
            b_id = common.reads_field(ad, {"k": "use", "op": info[1]["b"]}, "state::File.id")
            if a_id and b_id:
                eq_t = t_t if info[1]["op"] == "Eq" else f_t
                # the *decision*: a later debug_assert_ne! restating it (one side only panics) decides nothing,
                # and behind the decision its equal side cannot execute
                if found is not None and not all(ba.path([x], ba.returns(), incl=True) is not None for x in (t_t, f_t)):
                    continue
                found = (sw, eq_t)
    if not ctx.ob(rid, "add_dep|self-id-test", found is not None, where=ad.span, detail="comparison of the target's id with the dependency's id located" if found else
                  "add_dep does not compare the two ids: a self-dependency is recorded and the target waits on its own lock"):
        return
    sw, eq_t = found
    errs = common.blocks_with_agg(ad, r"error::RedoErrorKind", "CyclicDependency")
    panics = [i for i in ba.all_calls() if any(p.startswith("core::panicking::") for p in callee_paths(ad.blocks[i]["term"]))]
    writes = ba.calls(r"state::ProcessTransaction::write")
    p1 = ba.path([eq_t], panics, incl=True)
    p2 = ba.path([eq_t], ba.returns(), avoid=frozenset(errs), incl=True)
    p3 = ba.path([eq_t], writes, incl=True)
    ok = p1 is None and p2 is None and p3 is None and bool(errs)
    ctx.ob(rid, "add_dep|self-dependency=>CyclicDependency", ok, where=ctx.where(ad, sw),
           detail="equal ids return CyclicDependency without recording the edge" if ok else
           ("equal ids reach a panic: redo-ifchange aborts (exit 101) instead of reporting a cyclic dependency (208)" if p1 else "equal ids are not refused with CyclicDependency"))


def _const_arg_known(b, a):
    l = op_local(a)
    if l is None:
        return True
    d = BA.of(b).single_def(l)
    if d and d[0] == "stmt":
        cs = __import__("core").rvalue_consts(d[3])
        return any("str" in c and c["str"] != "REDO_CYCLES" for c in cs)
    return False
