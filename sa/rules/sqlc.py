"""Tolerant tokenizer for the SQL string literals of the state layer (AGREE rules only:
statement kind, table, columns, predicates; never 'text must equal')."""
import re


def norm(sql):
    return re.sub(r"\s+", " ", sql.strip()).lower()


def kind(sql):
    s = norm(sql)
    for k in ("insert or replace into", "insert into", "update", "delete from", "select", "create table", "pragma", "begin", "commit", "rollback"):
        if s.startswith(k):
            return k
    m = re.match(r"(insert or [a-z]+ into|replace into)\b", s)
    if m:
        return m.group(1)
    return s.split(" ")[0] if s else ""


def table(sql):
    s = norm(sql)
    m = re.match(r"(?:insert or [a-z]+ into|replace into|insert into|update|delete from|create table)\s+([a-z_]+)", s)
    if m:
        return m.group(1)
    m = re.search(r"\bfrom\s+([a-z_]+)", s)
    return m.group(1) if m else None


def set_columns(sql):
    s = norm(sql)
    m = re.search(r"\bset\s+(.*?)(?:\bwhere\b|$)", s)
    if not m:
        return []
    return [c.split("=")[0].strip() for c in m.group(1).split(",")]


def where_columns(sql):
    s = norm(sql)
    m = re.search(r"\bwhere\s+(.*)$", s)
    if not m:
        return []
    return [re.split(r"\s*=\s*", c.strip())[0] for c in re.split(r"\band\b", m.group(1))]


def where_literals(sql):
    """{column: literal} for `col=<literal>` predicates (non-parameter)."""
    s = norm(sql)
    m = re.search(r"\bwhere\s+(.*)$", s)
    out = {}
    if m:
        for c in re.split(r"\band\b", m.group(1)):
            kv = re.split(r"\s*=\s*", c.strip())
            if len(kv) == 2 and kv[1] != "?":
                out[kv[0]] = kv[1]
    return out


def insert_columns(sql):
    s = norm(sql)
    m = re.search(r"into\s+[a-z_]+\s*\(([^)]*)\)", s)
    return [c.strip() for c in m.group(1).split(",")] if m else []


def create_columns(sql):
    s = norm(sql)
    m = re.search(r"create table\s+[a-z_]+\s*\((.*)\)\s*$", s)
    if not m:
        return []
    cols = []
    depth = 0
    cur = ""
    for ch in m.group(1):
        if ch == "(":
            depth += 1
        if ch == ")":
            depth -= 1
        if ch == "," and depth == 0:
            cols.append(cur.strip())
            cur = ""
        else:
            cur += ch
    cols.append(cur.strip())
    return [c.split(" ")[0] for c in cols if c and not c.startswith("primary key")]
