"""C13 - .do rule selection order and script arguments (structural part)."""
import re

import anchors
from core import (BA, FAL, FAXM, call_matches, callee_paths, op_local, op_place, op_const, const_int, const_str, place_fields, taint,
                  str_consts, upvar_index, closure_sites)
from facts import strip_generics
from rules import common
from rules.C06 import backward_direct, env_setters

EXPLANATION = (
    "Static agreement / value-flow rules: the builder and redo-whichdo share one candidate enumerator "
    "(paths::possible_do_files over the absolute target path) and nothing else constructs DoFile values; in both "
    "consumers the first existing candidate wins, whichdo prints each candidate before testing it and find_do_file "
    "records an edge on both sides of the test, so the printed list, the recorded edges and the candidates considered "
    "are one sequence; $1 is built from base_name+ext, $2 from base_name only, $3 from the temp name relative to the "
    ".do directory; the child changes into the .do directory and exports REDO_PWD / REDO_TARGET from the same fields. "
    "Does NOT decide the candidate ORDER FUNCTION itself or the $1/$2 split as functions of arbitrary names "
    "(value-level string semantics: needs enumeration against a reference, another technique family)."
)
ASSUMPTIONS = ["unwind edges excluded"]


def run(ctx):
    prog = ctx.prog
    ctx.rule("R13.1", "one enumerator: find_do_file and redo-whichdo both iterate paths::possible_do_files over an absolute path; DoFile values are constructed only in module paths")
    ctx.rule("R13.2", "first existing candidate wins in both consumers; whichdo prints a candidate before testing it")
    ctx.rule("R13.3", "argv = [sh -e, do_file, $1, $2, $3] with $1 from base_name+ext, $2 from base_name and not ext, $3 = relpath(tmp_name, do_dir); the #! rewrite keeps argv[2..]")
    ctx.rule("R13.4", "the child closure chdir()s to df.do_dir (when non-empty) and sets REDO_PWD / REDO_TARGET from do_dir / base_name+ext before execvp")
    ctx.rule("R13.5", "rebuild on candidate change: higher-priority candidates are recorded as Created edges, the chosen one as a Modified edge (= R2.5)")

    F = prog.one(r"paths::find_do_file")
    W = prog.one(r"@bin::whichdo::run")
    for b in (F, W):
        ba = BA.of(b)
        pdf = ba.calls(r"paths::possible_do_files")
        ok = len(pdf) == 1
        if ok:
            sl, org, _ = backward_direct(b, op_local(b.blocks[pdf[0]]["term"]["args"][0]))
            ok = any(o[0] == "call" and call_matches(o[2], r"helpers::abs_path|std::path::Path::join|std::fs::canonicalize|std::path::Path::canonicalize") for o in org)
        ctx.ob("R13.1", "%s|iterates-possible_do_files(abs_path)" % b.key, ok, where=b.span, detail="candidates come from possible_do_files(abs_path(..))")
    # ---- R13.9 (F-AB): the two consumers agree on *which directory* a spelling means
    ctx.rule("R13.9", "redo-whichdo resolves symbolic links in the directory part of its argument with the normaliser the builder's record lookup uses (state::relpath -> realdirpath) before enumerating candidates: for `link/../x` both must look in the directory the kernel would")
    wba = BA.of(W)
    pdfw = wba.calls(r"paths::possible_do_files")
    if pdfw:
        from core import taint as _taint
        rt = _taint(W, src_call=lambda t_: call_matches(t_, r"state::relpath|state::realdirpath|std::fs::canonicalize|std::path::Path::canonicalize"), mode="derived")
        a0 = op_local(W.blocks[pdfw[0]]["term"]["args"][0])
        ok = a0 is not None and (a0 in rt or any(x in rt for x in wba.ref_chain(a0)))
        # .. on *every* way the value can be produced (seed C13-12: canonicalize() with a lexical fall-back for a directory
        # that does not exist yet, where the builder still resolves the part that exists): each definition of the operand
        # goes back to the normaliser, none to the merely absolute spelling
        SRC = r"state::relpath|state::realdirpath|std::fs::canonicalize|std::path::Path::canonicalize"
        from core import rvalue_places as _rvp

        def must_derive(l, depth=10, seen=None):
            seen = seen if seen is not None else set()
            if l is None or depth < 0 or l in seen:
                return False
            seen = seen | {l}
            ds = [d for d in wba.defs.get(l, []) if d[0] in ("stmt", "call")]
            if not ds:
                return False
            for d in ds:
                if d[0] == "call":
                    t_ = d[2]
                    if call_matches(t_, SRC):
                        continue
                    if not any(must_derive(op_local(a_), depth - 1, seen) for a_ in t_["args"] if op_local(a_) is not None):
                        return False
                else:
                    pls = [pl for pl in _rvp(d[3]) if pl is not None]
                    if not pls or not any(must_derive(pl["l"], depth - 1, seen) for pl in pls):
                        return False
            return True
        ok = ok and must_derive(a0)
        ctx.ob("R13.9", "%s|enumerated-path-is-symlink-resolved" % W.key, ok, where=ctx.where(W, pdfw[0]),
               detail="the path handed to possible_do_files derives from state::relpath (directory part canonicalised)" if ok else
               "redo-whichdo cleans its argument only lexically: for link/../foo.x (link -> deep/er) it lists ./foo.x.do .. ./default.do while redo builds deep/foo.x with deep/default.do")
    makers = [b.key for b in anchors.bodies_constructing(prog, r"paths::DoFile")]
    ctx.ob("R13.1", "who-constructs-DoFile", bool(makers) and all(k.startswith(("paths::", "<paths::")) for k in makers), detail="DoFile constructed in: %s" % makers)
    callers = sorted(c for c in ctx.cg.callers_of("paths::possible_do_files") if c != "<indirect>")
    ctx.ob("R13.1", "who-enumerates", set(callers) == {F.key, W.key}, detail="possible_do_files callers: %s" % callers)
    SS = anchors.start_self(prog)
    ctx.ob("R13.1", "builder-uses-find_do_file", bool(BA.of(SS).calls(r"paths::find_do_file")) and ctx.cg.callers_of(F.key) == [SS.key], detail="find_do_file callers: %s" % ctx.cg.callers_of(F.key))

    wba = BA.of(W)
    ex = wba.switches_on_call(r"std::path::Path::exists")
    if not ex:
        # the test may sit in a helper that hands its answer back (`print_candidate(..) -> bool`)
        ex = common.switches_on_call_value(W, r"std::path::Path::exists")
    pr = wba.calls(r"std::io::stdio::_print")
    nexts = wba.calls(r".*::iterator::Iterator>?::next")
    if ctx.ob("R13.2", "%s|anchors" % W.key, len(ex) == 1 and bool(pr) and bool(nexts), where=W.span, detail="exists test, print and loop located"):
        sw, t_t, f_t, cbb = ex[0]
        # (dominance over *feasible* paths: when printing sits in a helper that can fail, the helper's error return
        # joins its normal return before the caller's `?` splits them again; no execution goes helper-Err -> Continue)
        wfa = FAL.of(W)
        ctx.ob("R13.2", "%s|print-before-test" % W.key, all(wfa.dominates(p, cbb) for p in pr), where=ctx.where(W, pr[0]), detail="each candidate is printed before its existence test")
        common.not_reach_fl(ctx, "R13.2", "%s|first-existing-ends-listing" % W.key, W, [t_t], nexts, "an existing candidate ends the listing", "whichdo keeps listing after the first existing candidate")
        oks = common.ok_returns(W)
        # (the outcome may travel to the `Ok(())` through a value - `return Ok(Found)` in a helper, matched by the caller:
        # what is required is that an Ok return is reached only through the exists side, on the paths that can execute)
        ctx.ob("R13.2", "%s|existing=>Ok" % W.key, any(wfa.edge_dominates((sw, t_t), o) for o in oks), where=ctx.where(W, sw), detail="the existing side returns Ok")
        p = wfa.path([f_t], oks, avoid=frozenset(nexts), incl=True)
        ctx.ob("R13.2", "%s|missing=>continue" % W.key, p is None, where=ctx.where(W, sw), detail="a missing candidate continues the loop")
        # printed path and tested path are the same join: the tested path is the value (a call result, today
        # `do_dir.join(do_file)`) the operand of exists() goes back to by direct steps, whatever it is called
        a_ex, _, _ = backward_direct(W, op_local(W.blocks[cbb]["term"]["args"][0]))
        roots = {root[1] for (root, fields) in common.operand_origin_paths(W, W.blocks[cbb]["term"]["args"][0]) if root[0] == "def"}
        tnt = taint(W, seeds=roots or a_ex, mode="derived")
        arg = op_local(W.blocks[pr[0]]["term"]["args"][0])
        ctx.ob("R13.2", "%s|prints-the-tested-path" % W.key, arg in tnt, where=ctx.where(W, pr[0]), detail="the printed line derives from the path that is tested")
    # (find_do_file's side is R2.5, evaluated under C02 and repeated here as R13.5)
    # Stated on values and feasible paths, not on the number of add_dep call sites: each candidate's edge mode is
    # *chosen* by the existence test (a `DepMode::Modified` value is built only on the exists side, `Created` only on
    # the missing side, and nothing else ever reaches add_dep's mode operand); whether the two modes are two literal
    # calls or one call fed by a local makes no difference.
    fba = BA.of(F)
    ffa = FAL.of(F)
    exf = common.decisive_switches_on_call(F, r"std::path::Path::exists")
    adds = fba.calls(r"state::File::add_dep")
    ok = False
    created_adds = []
    if len(exf) == 1 and adds:
        sw, t_t, f_t, cbb = exf[0]
        modes = {a: _mode_origins(F, a) for a in adds}
        somes = common.blocks_with_agg(F, r"core::option::Option", "Some")
        all_o = [o for a in adds for o in modes[a]]
        resolved = all(modes[a] and all(v in ("Modified", "Created") for (v, _) in modes[a]) for a in adds)
        sided = all(ffa.edge_dominates((sw, t_t) if v == "Modified" else (sw, f_t), bb) for (v, bb) in all_o)
        both = {v for (v, _) in all_o} == {"Modified", "Created"}
        created_adds = [a for a in adds if any(v == "Created" for (v, _) in modes[a])]
        ok = resolved and sided and both and any(ffa.edge_dominates((sw, t_t), s_) for s_ in somes)
    ctx.ob("R13.5", "%s|chosen=Modified,earlier=Created,first-wins" % F.key, ok, where=F.span, detail="existing candidate: Modified edge + return; missing: Created edge + continue")
    if len(exf) == 1 and adds:
        sw, t_t, f_t, cbb = exf[0]
        nxt = fba.calls(r".*::iterator::Iterator>?::next")
        common.mpt_fl(ctx, "R13.5", "%s|every-missing-candidate-recorded" % F.key, F, [f_t], nxt + common.ok_returns(F), created_adds,
                     "every candidate found missing gets its Created edge before the search goes on", "a missing higher-priority candidate can be skipped without a Created edge: creating it later does not rebuild the target")
    P = prog.one(r"paths::possible_do_files")
    pba = BA.of(P)
    np_ = pba.calls(r"helpers::normpath")
    ok = False
    if np_:
        a = op_local(P.blocks[np_[0]]["term"]["args"][0])
        sl, org, _ = backward_direct(P, a, depth=40)
        ok = 1 in sl or any(o[0] == "call" and any(op_local(x) == 1 or 1 in pba.ref_chain(op_local(x)) for x in o[2]["args"] if op_local(x) is not None) for o in org)
        aggs = [i for i, _, st in anchors.agg_sites(P, r"paths::PossibleDoFiles|paths::DoFilesState")]
        ok = ok and all(pba.dominates(np_[0], i) for i in aggs) and bool(aggs)
    ctx.ob("R13.1", "possible_do_files|cleans-the-path-first", ok, where=P.span,
           detail="the enumerator starts from helpers::normpath(p)" if ok else "the enumerator walks the raw spelling: `sub/../thing` visits sub/ which is not an ancestor of the target")

    # ---- R13.3
    sba = BA.of(SS)
    fld = lambda f: (lambda p: ("paths::DoFile." + f) in place_fields(p))
    t_base = taint(SS, src_place=fld("base_name"), mode="derived")
    t_ext = taint(SS, src_place=fld("ext"), mode="derived")
    t_dofile = taint(SS, src_place=fld("do_file"), mode="derived")
    t_dodir = taint(SS, src_place=fld("do_dir"), mode="derived")
    # the argv vector literal: the array/vec literal whose last element is the `$3` value (it goes back, by direct steps,
    # to the result of state::relpath). Today that is the six-element `[sh, -e, do_file, $1, $2, $3]`; a tree that builds
    # the interpreter prefix separately has the four-element `[do_file, $1, $2, $3]` and a two-element `[sh, -e]`.
    arr = None
    arrays = []
    for i in sorted(sba.live):
        for s in SS.blocks[i]["stmts"]:
            if s["s"] == "assign" and s["rv"]["k"] == "agg" and s["rv"].get("agg") == "array":
                arrays.append((i, s["rv"]["ops"], s["place"]["l"]))
    for cand in arrays:
        ops = cand[1]
        if len(ops) < 4 or op_local(ops[-1]) is None:
            continue
        _, org_, _ = backward_direct(SS, op_local(ops[-1]), depth=200)
        if any(o[0] == "call" and call_matches(o[2], r"state::relpath") for o in org_):
            arr = cand
    if arr is None or len(arr[1]) not in (4, 6):
        # navigational: the argv vector is built in another shape (pushes, a helper): cannot decide R13.3
        raise __import__("facts").AnchorError("six-element argv literal not found in %s" % SS.key)
    prefix_arr = None
    if ctx.ob("R13.3", "%s|argv-literal" % SS.key, arr is not None, where=SS.span, detail="argv literal located (%d elements)" % len(arr[1])):
        bb, ops, _ = arr
        L = [op_local(o) for o in ops]
        if len(L) == 6:
            c0 = _str_origin(SS, L[0])
            c1 = _str_origin(SS, L[1])
            pbb = bb
        else:
            c0 = c1 = None
            pbb = bb
            for cand in arrays:
                if len(cand[1]) == 2 and all(op_local(o) is not None for o in cand[1]) and _str_origin(SS, op_local(cand[1][0])) == "sh":
                    prefix_arr = cand
                    c0 = "sh"
                    c1 = _str_origin(SS, op_local(cand[1][1]))
                    pbb = cand[0]
            L = [None, None] + L
        # the option word may be chosen among several literals (a match on verbose / xtrace): each of them must keep `e`
        opt_l = L[1] if len(arr[1]) == 6 else (op_local(prefix_arr[1][1]) if prefix_arr else None)
        opts = _str_origins(SS, opt_l) if opt_l is not None else []
        all_e = bool(opts) and all(re.fullmatch(r"-[A-Za-z]*e[A-Za-z]*", o_) for o_ in opts)
        ctx.ob("R13.3", "%s|argv[0..2]=sh,-e" % SS.key, c0 == "sh" and all_e and (c1 == "-e" or len(opts) > 1), where=ctx.where(SS, pbb), detail="argv[0]=%r argv[1] in %r" % (c0, opts))
        ctx.ob("R13.3", "%s|argv[2]=do_file" % SS.key, L[2] in t_dofile and L[2] not in t_base, where=ctx.where(SS, bb), detail="argv[2] derives from df.do_file")
        ctx.ob("R13.3", "%s|$1=base_name+ext" % SS.key, L[3] in t_base and L[3] in t_ext and L[3] not in t_dodir, where=ctx.where(SS, bb), detail="$1 derives from df.base_name and df.ext (relative to the .do directory)")
        ctx.ob("R13.3", "%s|$2=base_name-without-ext" % SS.key, L[4] in t_base and L[4] not in t_ext, where=ctx.where(SS, bb), detail="$2 derives from df.base_name and not from df.ext" if L[4] in t_base and L[4] not in t_ext else "$2 includes the matched extension (or is not the base name)")
        sl, org, _ = backward_direct(SS, L[5], depth=200)
        rp = [o for o in org if o[0] == "call" and call_matches(o[2], r"state::relpath")]
        ok = False
        if rp:
            t = rp[0][2]
            a0, a1 = op_local(t["args"][0]), op_local(t["args"][1])
            ok = a0 in t_base and a0 in t_dodir and a0 in t_ext and (a1 in t_dodir or any(x in t_dodir for x in sba.ref_chain(a1))) and a1 not in t_base
            tmp_lit = any(s == ".redo.tmp" for (_, _, s, _) in str_consts(SS))
            ok = ok and tmp_lit
        ctx.ob("R13.3", "%s|$3=relpath(tmp_name,do_dir)" % SS.key, ok, where=ctx.where(SS, bb), detail="$3 = relpath(do_dir/(base_name+ext+'.redo.tmp'), do_dir)")
        if len(ops) == 6:
            sk = sba.calls(r"core::iter::traits::iterator::Iterator::skip")
            ok = any(const_int(SS.blocks[i]["term"]["args"][1]) == 2 for i in sk)
            ctx.ob("R13.3", "%s|shebang-keeps-argv[2..]" % SS.key, ok, where=SS.span, detail="the #! rewrite replaces only `sh -e` (skip(2))")
        else:
            # the script arguments are a vector of their own, appended to whichever prefix was chosen: nothing may take
            # elements away from it on its way into the final argv
            script_t = taint(SS, seeds={arr[2]}, mode="derived")
            cut = [i for i in sba.calls(r".*::(skip|skip_while|take|take_while|step_by|truncate|drain|split_off|pop|remove|swap_remove|retain|clear|filter|nth)$")
                   if any(op_local(a) in script_t for a in SS.blocks[i]["term"]["args"] if op_local(a) is not None)]
            ctx.ob("R13.3", "%s|shebang-keeps-argv[2..]" % SS.key, not cut and prefix_arr is not None, where=ctx.where(SS, cut[0]) if cut else SS.span,
                   detail="the script arguments [do_file, $1, $2, $3] are appended whole to the interpreter prefix" if not cut else "an element of the script-argument vector is dropped on its way into argv")
    # the argv that reaches execvp is this vector
    fcs = [cl for parent, cbb, cl in anchors.fork_closures(prog) if parent.key == SS.key]
    if ctx.ob("R13.4", "do-child-closure", len(fcs) == 1, where=SS.span, detail="%d .do child closures" % len(fcs)):
        cl = fcs[0]
        cba = BA.of(cl)
        ex = cba.calls(r"nix::unistd::execvp")
        # the captured DoFile: the closure variable(s) bound, at the construction site in start_self, to a
        # local of type DoFile (whatever the variable is called, however many reborrows lie in between)
        # ... to the value find_do_file returned (followed by direct flow: through `?`, the Some payload, moves, and a
        # struct the DoFile was put into, e.g. a prepared-command record captured as a whole; the field test below
        # then selects the DoFile's own fields inside whatever was captured)
        df_t = taint(SS, seeds={SS.blocks[i]["term"]["dest"]["l"] for i in sba.calls(r"paths::find_do_file")}, mode="direct")
        df_up = common.upvars_bound_to(SS, cl.key, common.in_set(SS, df_t))

        def from_df(o, field):
            return any(root[0] == "upvar" and root[1] in df_up and field in fields for (root, fields) in common.operand_origin_paths(cl, o))
        # (dominance over feasible paths: setup steps moved into helpers that return a Result are followed by the caller's `?`,
        # whose failure arm is the only continuation of the helper's failure return)
        cfa = FAXM.of(cl)
        cd_all = cba.calls(r"std::env::set_current_dir")
        cd = [i for i in cd_all if from_df(cl.blocks[i]["term"]["args"][0], "paths::DoFile.do_dir")]
        emp = [e for e in cba.switches_on_call(r"std::ffi::os_str::OsStr::is_empty") if from_df(cl.blocks[e[3]]["term"]["args"][0], "paths::DoFile.do_dir")]
        ok = False
        if cd and ex and emp:
            ok = any(all(cfa.edge_dominates((sw, f_t), c) for c in cd) and cfa.path([f_t], ex, avoid=frozenset(cd), incl=True) is None
                     and all(cfa.dominates(sw, e) for e in ex) for (sw, t_t, f_t, _) in emp)
        ctx.ob("R13.4", "%s|chdir(do_dir)-before-exec" % cl.key, ok, where=ctx.where(cl, cd[0]) if cd else cl.span, detail="set_current_dir(df.do_dir) on the non-empty side precedes execvp")
        if not cd:
            cd = cd_all
        # a failed chdir aborts the child
        if cd:
            # the failure side of the chdir, in whichever idiom consumes its Result (`if ..is_err()`, `?`, `map_err(..)?`, match)
            fails = common.failure_continuations(cl, cd[0])
            ok = bool(fails) and all(cfa.path([f_], ex, incl=True) is None for f_ in fails)
            ctx.ob("R13.4", "%s|failed-chdir-aborts" % cl.key, ok, where=ctx.where(cl, cd[0]), detail="a failed chdir never reaches execvp")
        for var, fields in (("REDO_PWD", ["paths::DoFile.do_dir"]), ("REDO_TARGET", ["paths::DoFile.base_name", "paths::DoFile.ext"])):
            st = [i for (b, i) in env_setters(prog, var) if b.key == cl.key]
            ok = len(st) == 1 and all(cfa.dominates(st[0], e) for e in ex)
            if ok:
                v = op_local(cl.blocks[st[0]]["term"]["args"][1])
                tv = {f: taint(cl, src_place=(lambda ff: (lambda p: ff in place_fields(p)))(f), mode="derived") for f in fields}
                ok = all(v in tv[f] for f in fields)
            ctx.ob("R13.4", "%s|%s-from-%s" % (cl.key, var, "+".join(f.split(".")[-1] for f in fields)), ok, where=ctx.where(cl, st[0]) if st else cl.span, detail="%s is exported from %s before execvp" % (var, fields))
        # execvp's argv derives from the captured argv
        if ex:
            a = op_local(cl.blocks[ex[0]]["term"]["args"][1])
            # the captured argv: the closure variable bound to a start_self local derived from the argv literal
            argv_t = taint(SS, seeds={arr[2]}, mode="derived") if arr is not None else set()
            if prefix_arr is not None:
                # both halves must arrive: the captured vector derives from the script arguments *and* from the prefix
                argv_t = argv_t & taint(SS, seeds={prefix_arr[2]}, mode="derived")
            argv_up = common.upvars_bound_to(SS, cl.key, lambda l: l in argv_t)
            tv = taint(cl, src_place=lambda p: (upvar_index(p) or (None, None))[0] in argv_up, mode="derived")
            ctx.ob("R13.4", "%s|exec-argv-is-built-argv" % cl.key, a in tv, where=ctx.where(cl, ex[0]), detail="execvp receives the argv built in start_self")


def _mode_origins(body, call_bb):
    """[(variant name | None, block)] where the DepMode value handed to the add_dep call at `call_bb` is chosen: the
    call itself for a constant operand, else the blocks building the value (followed through locals that are
    assigned on several paths and through Option/Result wrappers); None for an origin that is not a literal variant."""
    a = body.blocks[call_bb]["term"]["args"][2]
    c = op_const(a)
    if c is not None:
        return [(c.get("variant"), call_bb)]
    l = op_local(a)
    if l is None or op_place(a)["p"]:
        return [(None, call_bb)]
    out = []
    for kind, bb, rv in common.value_origins(body, l):
        if kind == "agg" and rv.get("adt") == "state::DepMode":
            out.append((rv.get("variant"), bb))
        else:
            out.append((None, bb if bb is not None else call_bb))
    return out


def _str_origins(body, l):
    """Every string literal a local OsString may have been built from (`OsString::from(x)` with x chosen by a match
    among several literals gives them all), sorted."""
    sl, org, _ = backward_direct(body, l, depth=40)
    ba = BA.of(body)
    out = set()
    for x in sl:
        for d in ba.defs.get(x, []):
            if d[0] == "stmt":
                for c in __import__("core").rvalue_consts(d[3]):
                    if "str" in c:
                        out.add(c["str"])
            if d[0] == "call":
                for a in d[2]["args"]:
                    s = const_str(a)
                    if s is not None:
                        out.add(s)
    return sorted(out)


def _str_origin(body, l):
    """String literal a local OsString was built from (OsString::from("...")); the first in sorted order when several."""
    sl, org, _ = backward_direct(body, l, depth=40)
    ba = BA.of(body)
    for x in sorted(sl):
        for d in ba.defs.get(x, []):
            if d[0] == "stmt":
                for c in __import__("core").rvalue_consts(d[3]):
                    if "str" in c:
                        return c["str"]
            if d[0] == "call":
                for a in d[2]["args"]:
                    s = const_str(a)
                    if s is not None:
                        return s
    return None
