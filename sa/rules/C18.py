"""C18 - Build output is logged completely, once, and under the right target (structural part)."""
import re

import anchors
from core import (BA, call_matches, callee_paths, op_local, op_place, op_const, const_int, const_str, place_fields, taint, str_consts,
                  decode_bytestr, decode_fmt_template, upvar_index, closure_sites, rvalue_places)
from rules import common
from rules.C06 import backward_direct

EXPLANATION = (
    "Static writer/reader agreement and attribution rules: Meta's Display emits PREFIX kind ':' pid ':' timestamp SEP "
    "text (piece order and argument order read from the format_args! template and argument array in MIR) and "
    "Meta::parse consumes the same PREFIX, splits at the first SEP, then ':'-separated kind, pid (pid_t), timestamp "
    "(f64) in that order, both through the same two constants; every `kind` handed to logs::meta is a literal without "
    "':' '@' or newline, or a parsed record's kind; meta refuses newlines in the text unconditionally; the child's "
    "stderr goes to logname(env, sf.id()) - the same function of the same id the parent pre-creates and redo-log "
    "reads; the log is replaced before the 'do' record and the 'done' record follows the save with rv in its text. "
    "Does NOT decide exactly-once / in-order delivery under concurrent writers, nor the f64 timestamp round trip "
    "(timestamps are written with 4 decimals)."
)
ASSUMPTIONS = ["pipes and O_APPEND-less file writes of single lines are not interleaved by the kernel within a line (not checked)", "unwind edges excluded"]


def fmt_info(body):
    """(pieces, arg_sources): template pieces of the body's single format_args! and, per argument in
    order, a description of what it reads (field name or constant name)."""
    tmpl = None
    for blk in body.blocks:
        for s in blk["stmts"]:
            if s["s"] == "assign":
                for c in __import__("core").rvalue_consts(s["rv"]):
                    if c.get("pretty", "").startswith('b"') and s.get("macro", "").startswith("desugar:FormatLiteral"):
                        tmpl = decode_fmt_template(decode_bytestr(c["pretty"]))
    arr = None
    for blk in body.blocks:
        for s in blk["stmts"]:
            if s["s"] == "assign" and s["rv"]["k"] == "agg" and s["rv"].get("agg") == "array" and s.get("macro", "").startswith("desugar:FormatLiteral"):
                arr = s["rv"]["ops"]
    srcs = []
    ba = BA.of(body)
    # args tuple: `args = (&a, &b, ..)`; element k of the Argument array is new_*(&*args.k)
    tup = None
    for blk in body.blocks:
        for s in blk["stmts"]:
            if s["s"] == "assign" and s["rv"]["k"] == "agg" and s["rv"].get("agg") == "tuple" and s.get("macro", "").startswith("desugar:FormatLiteral") and len(s["rv"]["ops"]) >= 1:
                tup = (s["place"]["l"], s["rv"]["ops"])
    if arr and tup:
        for o in arr:
            d = ba.single_def(op_local(o))
            desc = []
            if d and d[0] == "call" and d[2]["args"]:
                r = ba.single_def(op_local(d[2]["args"][0]))
                if r and r[0] == "stmt" and r[3]["k"] == "ref" and r[3]["place"]["l"] == tup[0]:
                    idx = [int(e.split(".")[-1]) for e in r[3]["place"]["p"] if e.startswith("f:tuple.")]
                    if idx:
                        src = tup[1][idx[0]]
                        sd = ba.single_def(op_local(src))
                        if sd and sd[0] == "stmt" and sd[3]["k"] == "ref":
                            pl = sd[3]["place"]
                            fs = [f for f in place_fields(pl) if f.startswith("logs::Meta")]
                            if fs:
                                desc.append(fs[-1].split(".")[-1])
                            else:
                                # reference to a local holding a named constant
                                cd = ba.single_def(pl["l"])
                                if cd and cd[0] == "stmt":
                                    for c in __import__("core").rvalue_consts(cd[3]):
                                        if "named" in c:
                                            desc.append(c["named"].split("::")[-1])
            srcs.append(desc)
    return tmpl, srcs


def run(ctx):
    prog = ctx.prog
    ctx.rule("R18.1", "writer/reader agreement: Display emits PREFIX kind ':' pid ':' ts SEP text; parse consumes PREFIX, splits at the first SEP, then kind, pid: pid_t, ts: f64 in that order; both use the same constants; no other literal '@@REDO' exists")
    ctx.rule("R18.2", "every kind passed to logs::meta is a literal free of ':' '@' newline, or the kind of a parsed record; meta asserts (not debug_asserts) that the text has no newline before writing")
    ctx.rule("R18.3", "attribution: the child redirects stderr to File::create(logname(env, sf.id())) before execvp; the parent pre-creates and redo-log reads logname(env, id) of the same record")
    ctx.rule("R18.4", "the per-target log is replaced (persist) before the 'do' record; the 'done' record is written on every path of record_new_state after save, with rv in its text")
    ctx.rule("R18.6", "redo-log assembles partial lines: a fragment without a trailing newline is appended to the pending head (never replaces it), and a completed line is emitted together with that head")
    ctx.rule("R18.5", "redo-log holds the log lock (LOG_LOCK_MAGIC + fid, shared) while reading and releases it around recursion")

    D = prog.one(r"<logs::Meta<'a> as core::fmt::Display>::fmt|<logs::Meta as core::fmt::Display>::fmt")
    tmpl, srcs = fmt_info(D)
    ok = tmpl is not None and len(srcs) == 6
    if ctx.ob("R18.1", "Display|template-found", ok, where=D.span, detail="template %s args %s" % (tmpl, srcs)):
        shape = [x[0] if x[0] == "arg" else x[1] for x in tmpl]
        want = ["arg", "arg", ":", "arg", ":", "arg", "arg", "arg"]
        ctx.ob("R18.1", "Display|piece-order", shape == want, where=D.span, detail="pieces: %s" % shape)
        names = [s[0] if s else "?" for s in srcs]
        ctx.ob("R18.1", "Display|argument-order", names == ["PREFIX", "kind", "pid", "timestamp", "SEP", "text"], where=D.span, detail="arguments: %s" % names)
    P = prog.one(r"logs::Meta::parse")
    pba = BA.of(P)
    # the record prefix is consumed through the PREFIX constant (starts_with + split_at, or strip_prefix), the text is
    # cut at the SEP constant, the metadata is split on ':' - in this order
    sw = [i for i in pba.calls(r"core::str::<impl str>::(starts_with|strip_prefix)") if (_named_arg(P, i, 1) or "").endswith("::PREFIX")]
    # (cut at the *first* SEP: find + split_at, split_once, splitn; never the r* family, which cuts at the last one)
    fd = [i for i in pba.calls(r"core::str::<impl str>::(find|split_once|splitn)") if any((_named_arg(P, i, k) or "").endswith("::SEP") for k in (1, 2))]
    sp = pba.calls(r"core::str::<impl str>::split")
    perr = common.error_blocks(P)
    ok = (bool(sw) and bool(fd) and bool(sp) and all(any(common.dominates_nonerror(P, a, f, perr) for a in sw) for f in fd)
          and all(any(common.dominates_nonerror(P, f, x, perr) for f in fd) for x in sp))
    ctx.ob("R18.1", "parse|uses-PREFIX-and-SEP-constants", ok, where=P.span, detail="parse: starts_with/strip_prefix(PREFIX), then find/split_once(SEP), then split(':')")
    splitc = [(op_const(P.blocks[i]["term"]["args"][1]) or {}).get("int") for i in sp]
    ctx.ob("R18.1", "parse|field-separator-colon", splitc == [ord(":")], where=P.span, detail="split on %s" % [chr(c) if c else c for c in splitc])
    # the three words, in iterator order, become kind / pid / timestamp of the returned record; the 2nd is converted
    # with parse::<pid_t>, the 3rd with parse::<f64> (conversion located by value flow: in parse itself or in a closure
    # handed to a combinator that is fed by that word)
    nx = [i for i in pba.calls(r".*::iterator::Iterator>?::next") if sp and any(pba.base_local_of_ref(op_local(P.blocks[i]["term"]["args"][0])) == P.blocks[x]["term"]["dest"]["l"] for x in sp)]
    chain = len(nx) == 3 and pba.dominates(nx[0], nx[1]) and pba.dominates(nx[1], nx[2])
    T = [taint(P, seeds={P.blocks[i]["term"]["dest"]["l"]}, mode="derived") for i in nx] if chain else []
    metas = [st for (bb, j, st) in anchors.agg_sites(P, r"logs::Meta")]
    convs = _conv_sites(prog, P)

    def field_from(st, field, k):
        o = st["rv"]["ops"][st["rv"]["fields"].index(field)] if field in st["rv"].get("fields", []) else None
        l = op_local(o) if o is not None else None
        return l is not None and l in T[k] and not any(l in T[j] for j in range(3) if j != k)

    def converted(st, field, k, ty):
        o = st["rv"]["ops"][st["rv"]["fields"].index(field)] if field in st["rv"].get("fields", []) else None
        l = op_local(o) if o is not None else None
        for (pos, cty) in convs:
            t = P.blocks[pos]["term"]
            fed = any(op_local(a) in T[k] or any(x in T[k] for x in pba.ref_chain(op_local(a))) for a in t["args"] if op_local(a) is not None)
            if cty == ty and fed and t["dest"]["l"] in T[k] and l in T[k]:
                return True
        return False
    tys = sorted(ty for _, ty in convs)
    ok = chain and bool(metas) and len(convs) == 2 and all(converted(st, "pid", 1, "i32") and converted(st, "timestamp", 2, "f64") for st in metas)
    ctx.ob("R18.1", "parse|pid-then-timestamp-types", ok, where=P.span, detail="word#1 -> parse::<i32> -> Meta.pid, word#2 -> parse::<f64> -> Meta.timestamp (conversions found: %s)" % tys)
    ok = chain and bool(metas) and all(field_from(st, "kind", 0) and field_from(st, "pid", 1) and field_from(st, "timestamp", 2) for st in metas)
    ctx.ob("R18.1", "parse|three-fields-in-order", ok, where=P.span, detail="words.next() x3 in order: kind, then pid, then timestamp of the returned Meta")
    lits = []
    for b in prog.bodies.values():
        for (bb, _, s, nm) in str_consts(b):
            if s.startswith("@@REDO") and not (nm or "").endswith("PREFIX"):
                lits.append((b.key, s))
    lits = [(k, s) for k, s in lits if not k.startswith("logs::tests")]
    ctx.ob("R18.1", "no-other-@@REDO-literal", not lits, detail="no second spelling of the record prefix" if not lits else "other @@REDO literals: %s" % lits[:3])

    # ---- R18.2
    n = 0
    M = prog.one(r"logs::meta")
    for b in prog.bodies.values():
        ba = BA.of(b)
        for k, i in common.ordinal_keys([("meta", i) for i in ba.calls(r"logs::meta")]):
            t = b.blocks[i]["term"]
            if t.get("macro") in ("log_err", "log_warn", "log_debug", "log_debug2", "log_debug3") or (t.get("macro") or "").startswith("log_"):
                s = _kind_literal(b, t["args"][0])
                n += 1
                ctx.ob("R18.2", "%s|%s(macro %s)|kind" % (b.key, k, t.get("macro")), s is not None and not re.search(r"[:@\n]", s), where=ctx.where(b, i), detail="kind literal %r" % s)
                continue
            s = _kind_literal(b, t["args"][0])
            n += 1
            if s is not None:
                ctx.ob("R18.2", "%s|%s|kind" % (b.key, k), not re.search(r"[:@\n]", s) and s != "", where=ctx.where(b, i), detail="kind literal %r" % s)
            else:
                sl, org, _ = backward_direct(b, op_local(t["args"][0]), depth=60)
                okk = any(o[0] == "call" and call_matches(o[2], r"logs::Meta::kind") for o in org)
                ctx.ob("R18.2", "%s|%s|kind" % (b.key, k), okk, where=ctx.where(b, i), detail="kind is Meta::kind() of a parsed record" if okk else "kind is neither a literal nor a parsed record's kind")
    ctx.floor("R18.2", "logs::meta call sites", n, 15)
    mba = BA.of(M)
    cont = mba.switches_on_call(r"core::str::<impl str>::contains")
    wr = mba.calls(r"logs::write")
    ok = False
    for (sw, t_t, f_t, cbb) in cont:
        t = M.blocks[cbb]["term"]
        if (op_const(t["args"][1]) or {}).get("int") == 10 and not (t.get("macro") or "").startswith("debug_assert") and not mba.config_guards(cbb):
            recv = mba.ref_chain(op_local(t["args"][0]))
            if 2 in recv or any(l == 2 for l in backward_direct(M, op_local(t["args"][0]))[0]):
                if wr and all(mba.edge_dominates((sw, f_t), w) for w in wr):
                    ok = True
    ctx.ob("R18.2", "meta|newline-in-text-refused-unconditionally", ok, where=M.span, detail="assert!(!s.contains('\\n')) dominates the write" if ok else "a text containing a newline can be written as a record (splitting it in two)")

    # ---- R18.3
    SS = anchors.start_self(prog)
    sba = BA.of(SS)
    fcs = [cl for parent, cbb, cl in anchors.fork_closures(prog) if parent.key == SS.key]
    if ctx.ob("R18.3", "do-child-closure", len(fcs) == 1, where=SS.span, detail="%d .do child closures" % len(fcs)):
        cl = fcs[0]
        cba = BA.of(cl)
        ex = cba.calls(r"nix::unistd::execvp")
        cr = cba.calls(r"std::fs::File::create")
        d2 = [i for i in cba.calls(r"nix::unistd::dup2") if const_int(cl.blocks[i]["term"]["args"][1]) == 2]
        ln = cba.calls(r"state::logname")
        ok = False
        if cr and d2 and ln and ex:
            sl, org, _ = backward_direct(cl, op_local(cl.blocks[cr[0]]["term"]["args"][0]), depth=60)
            from_ln = any(o[0] == "call" and call_matches(o[2], r"state::logname") for o in org)
            fd = op_local(cl.blocks[d2[0]]["term"]["args"][0])
            ft = taint(cl, seeds={cl.blocks[cr[0]]["term"]["dest"]["l"]}, mode="derived")
            # FLOW(File::id(the job's own record) => logname's id), wherever the id is computed: in the child on the
            # captured record, or in the parent with the number captured (no variable name is consulted)
            id_ok = _id_of_job_record(SS, cl, op_local(cl.blocks[ln[0]]["term"]["args"][1]))
            ok = from_ln and fd in ft and id_ok and cba.dominates(cr[0], d2[0]) and all(cba.path([d2[0]], [e]) for e in ex)
        ctx.ob("R18.3", "%s|stderr->logname(env,sf.id())" % cl.key, ok, where=ctx.where(cl, cr[0]) if cr else cl.span,
               detail="File::create(logname(env, sf.id())) is dup2'ed onto fd 2 before execvp" if ok else "the child's stderr is not redirected to the log of the job's own record")
        # same inode / log enabled side
        lg = cba.switches_on_call(r"env::OptionalBool::unwrap_or")
        ok = bool(lg) and cr and any(cba.edge_dominates((sw, t_t), cr[0]) for (sw, t_t, f_t, c) in lg)
        ctx.ob("R18.3", "%s|only-when-logging-enabled" % cl.key, bool(ok), where=cl.span, detail="redirection happens on the log-enabled side")
    per = sba.calls(r"tempfile::file::NamedTempFile::persist|tempfile::NamedTempFile::persist")
    ok = False
    if per:
        sl, org, _ = backward_direct(SS, op_local(SS.blocks[per[0]]["term"]["args"][1]), depth=60)
        lnc = [o for o in org if o[0] == "call" and call_matches(o[2], r"state::logname")]
        if lnc:
            s2, o2, _ = backward_direct(SS, op_local(lnc[0][2]["args"][1]))
            ok = any(o[0] == "call" and call_matches(o[2], r"state::File::id") for o in o2)
    ctx.ob("R18.3", "%s|parent-precreates-logname(env,sf.id())" % SS.key, ok, where=ctx.where(SS, per[0]) if per else SS.span, detail="the parent persists the fresh log under logname(env, sf.id())")
    CL = prog.one(r"@bin::log::LogState::catlog")
    lba = BA.of(CL)
    lns = lba.calls(r"state::logname")
    ok = False
    if lns:
        sl, org, _ = backward_direct(CL, op_local(CL.blocks[lns[0]]["term"]["args"][1]), depth=80)
        ok = any(o[0] == "call" and call_matches(o[2], r"state::File::id") for o in org) and bool(lba.calls(r"state::File::from_name"))
    ctx.ob("R18.3", "%s|reader-uses-logname(env,from_name(t).id())" % CL.key, ok, where=ctx.where(CL, lns[0]) if lns else CL.span, detail="redo-log opens logname(env, id) of the record looked up by name")
    lnb = prog.one(r"state::logname")
    ok = any("log." in s for (_, _, s, _) in str_consts(lnb)) and any(s == ".redo" for (_, _, s, _) in str_consts(lnb))
    ctx.ob("R18.3", "logname|function-of-base-and-id", ok, where=lnb.span, detail="logname = base/.redo/log.<id>")

    # ---- R18.4
    do_meta = [i for i in sba.calls(r"logs::meta") if _kind_literal(SS, SS.blocks[i]["term"]["args"][0]) == "do"]
    forks = sba.calls(anchors.FORK_START)
    if ctx.ob("R18.4", "%s|do-record" % SS.key, len(do_meta) == 1, where=SS.span, detail="%d 'do' records" % len(do_meta)):
        # MPT(entry -> 'do' record, persist | logging-disabled edge) over the non-error paths: a path that goes through
        # the residual arm of a `?` is on its way to return Err (directly, or - when the pre-creation is a helper that
        # was inlined - through the helper's own Result and the caller's `?`), it never writes the record
        # (common.error_blocks)
        lgsw = [(sw, t_t, f_t) for (sw, t_t, f_t, c) in sba.switches_on_call(r"env::OptionalBool::unwrap_or") if per and sba.edge_dominates((sw, t_t), per[0])]
        residuals = common.error_blocks(SS)
        ok = bool(lgsw) and sba.path([0], do_meta, avoid=frozenset(per) | residuals, cut_edges=frozenset((sw, f_t) for (sw, t_t, f_t) in lgsw), incl=True) is None
        ctx.ob("R18.4", "%s|log-replaced-before-do-record" % SS.key, ok, where=ctx.where(SS, do_meta[0]), detail="on the logging side persist() precedes the 'do' record")
        ctx.ob("R18.4", "%s|do-record-before-fork" % SS.key, all(sba.dominates(do_meta[0], f) for f in forks), where=ctx.where(SS, do_meta[0]), detail="the 'do' record precedes the fork")
    R = anchors.record_new_state(prog)
    rba = BA.of(R)
    done = [i for i in rba.calls(r"logs::meta") if _kind_literal(R, R.blocks[i]["term"]["args"][0]) == "done"]
    saves = rba.calls(r"state::File::save")
    if ctx.ob("R18.4", "%s|done-record" % R.key, len(done) == 1, where=R.span, detail="%d 'done' records" % len(done)):
        common.mpt(ctx, "R18.4", "%s|done-on-every-path" % R.key, R, [0], rba.returns(), done, "the 'done' record is written on every path", "a path returns without the 'done' record")
        ctx.ob("R18.4", "%s|done-after-save" % R.key, all(rba.dominates(s, done[0]) for s in saves) and bool(saves), where=ctx.where(R, done[0]), detail="'done' follows save")
        # rv = the value the function returns (the locals `_0` is copied from), whatever its parameter position
        # (a local, or a field of a state struct: `self.rv`; followed back from `_0` through plain copies)
        rvs, rv_places = _return_sources(R)
        rvs = {l for l in rvs if R.locals[l] == "i32"}
        tl = taint(R, seeds=rvs, src_place=(lambda p: any(p["l"] == q["l"] and place_fields(p) == place_fields(q) for q in rv_places)) if rv_places else None,
                   mode="derived") if (rvs or rv_places) else set()
        a = op_local(R.blocks[done[0]]["term"]["args"][1])
        tmpl = [s for (_, _, s, nm) in str_consts(R) if nm == "format_args" and s.strip() == "{} {}"]
        ctx.ob("R18.4", "%s|done-text=rv+target" % R.key, a in tl and bool(tmpl), where=ctx.where(R, done[0]), detail="the text is format!(\"{} {}\", rv, target)")

    # ---- R18.6
    ew = [(sw, t_t, f_t, c) for (sw, t_t, f_t, c) in lba.switches_on_call(r"core::str::<impl str>::ends_with") if (op_const(CL.blocks[c]["term"]["args"][1]) or {}).get("int") == 10]
    reads = lba.calls(r".*BufRead>?::read_(line|until)|std::io::BufRead::read_(line|until)")
    # the *decision* on the trailing newline: an ends_with test one side of which cannot continue (neither returns nor
    # reads on: the panic side of an assert!/debug_assert! restating the invariant) decides nothing
    cont = set(lba.returns()) | set(reads)
    ew = [(sw, t_t, f_t, c) for (sw, t_t, f_t, c) in ew if all(lba.path([x], cont, incl=True) is not None for x in (t_t, f_t))]
    ps_ = lba.calls(r"alloc::string::String::push_str")
    if ctx.ob("R18.6", "%s|newline-test" % CL.key, len(ew) == 1 and bool(reads) and bool(ps_), where=CL.span, detail="ends_with('\\n') test, read_line and push_str located"):
        sw, t_t, f_t, c = ew[0]
        frag_side = [x for x in ps_ if lba.edge_dominates((sw, f_t), x)]
        common.mpt(ctx, "R18.6", "%s|fragment-appended" % CL.key, CL, [f_t], reads, frag_side, "a fragment without newline is appended (push_str) before the next read",
                   "a fragment without a trailing newline is not appended to the pending head: a line written in three or more pieces loses its beginning")
        if frag_side:
            head = lba.base_local_of_ref(op_local(CL.blocks[frag_side[0]]["term"]["args"][0]))
            plain = [d for d in lba.defs.get(head, []) if d[0] == "stmt" and not (d[3]["k"] == "use" and op_const(d[3]["op"]))]
            ctx.ob("R18.6", "%s|head-never-overwritten" % CL.key, not plain, where=CL.span, detail="the pending head is only created empty, appended to, or swapped out" if not plain else "the pending head is overwritten by assignment")
            full_side = [x for x in ps_ if lba.edge_dominates((sw, t_t), x) and lba.base_local_of_ref(op_local(CL.blocks[x]["term"]["args"][0])) == head]
            # the head's contents leave it for the line that is handled next: mem::swap(&mut line, &mut head),
            # line = mem::take(&mut head) / mem::replace(&mut head, String::new()) - in every form an operand is the head
            swaps = [x for x in lba.calls(r"core::mem::(swap|take|replace)") if lba.edge_dominates((sw, t_t), x)
                     and any(op_local(a) is not None and lba.base_local_of_ref(op_local(a)) == head
                             for a in (CL.blocks[x]["term"]["args"] if call_matches(CL.blocks[x]["term"], r"core::mem::swap") else CL.blocks[x]["term"]["args"][:1]))]
            ctx.ob("R18.6", "%s|completed-line-includes-head" % CL.key, bool(full_side) and bool(swaps), where=CL.span, detail="on a completed line the head gets the rest appended and is swapped out for printing")

    # ---- R18.5
    nl = lba.calls(r"state::ProcessState::new_lock")
    ok = False
    if nl:
        sl, org, ar = backward_direct(CL, op_local(CL.blocks[nl[0]]["term"]["args"][1]), depth=80)
        named = set()
        for l in sl:
            for d in lba.defs.get(l, []):
                if d[0] == "stmt":
                    for c in __import__("core").rvalue_consts(d[3]):
                        if "named" in c:
                            named.add(c["named"])
        ok = any("LOG_LOCK_MAGIC" in x for x in named) and bool(ar)
    ctx.ob("R18.5", "%s|log-lock-id=fid+LOG_LOCK_MAGIC" % CL.key, ok, where=ctx.where(CL, nl[0]) if nl else CL.span, detail="the reader's lock id is fid + LOG_LOCK_MAGIC")
    wl = lba.calls(r"state::Lock::wait_lock")
    shared = 0
    for w in wl:
        a = CL.blocks[w]["term"]["args"][1]
        v = (op_const(a) or {}).get("variant")
        if v is None and op_local(a) is not None:
            d = lba.single_def(op_local(a))
            if d and d[0] == "stmt" and d[3]["k"] == "agg":
                v = d[3].get("variant")
        if v == "Shared":
            shared += 1
    ctx.ob("R18.5", "%s|shared-lock" % CL.key, shared == len(wl) and shared >= 1, where=CL.span, detail="%d/%d waits are LockType::Shared" % (shared, len(wl)))
    rec = lba.calls(re.escape(CL.key))
    un = lba.calls(r"state::Lock::unlock")
    ctx.floor("R18.5", "recursive catlog calls", len(rec), 2)
    for k, r in common.ordinal_keys([("recursion", r) for r in rec]):
        # on the lock-holding side an unlock precedes the recursion and a wait_lock follows it
        before = any(lba.path([u], [r]) and not lba.path([u], [r], avoid=frozenset(wl) - {wl[0]} if wl else frozenset()) is None for u in un)
        after = any(lba.path([r], [w]) for w in wl[1:])
        ctx.ob("R18.5", "%s|%s|released-around-recursion" % (CL.key, k), bool(before and after), where=ctx.where(CL, r), detail="unlock before and wait_lock after the recursive call (typestate checked under C09 R9.1)")


def _return_sources(R):
    """What the body returns, as storage: (locals, projected places) the return place is copied from, followed back
    through whole-local copies. `_0 = rv` gives the local `rv` (and what it is plainly copied from); `_0 = self.rv` /
    `tmp = self.rv; _0 = tmp` give the place `self.rv`."""
    ba = BA.of(R)
    seeds, places, seen = set(), [], set()
    todo = [0]
    while todo:
        l = todo.pop()
        if l in seen:
            continue
        seen.add(l)
        for d in ba.defs.get(l, []):
            if d[0] == "stmt" and d[3]["k"] == "use":
                p = op_place(d[3]["op"])
                if p is None:
                    continue
                if not p["p"]:
                    seeds.add(p["l"])
                    todo.append(p["l"])
                elif place_fields(p):
                    places.append(p)
    return seeds, places


def _named_arg(b, bb, idx):
    """Name of the named constant passed as argument idx of the call in bb (directly or through a copy/ref chain)."""
    t = b.blocks[bb]["term"]
    if idx >= len(t["args"]):
        return None
    a = t["args"][idx]
    c = op_const(a)
    if c is not None:
        return c.get("named")
    ba = BA.of(b)
    for x in ba.ref_chain(op_local(a)):
        d = ba.single_def(x)
        if d and d[0] == "stmt":
            for c in __import__("core").rvalue_consts(d[3]):
                if "named" in c:
                    return c["named"]
    return None


_STR_PARSE = r"core::str::<impl str>::parse"


def _conv_sites(prog, P):
    """[(pos_bb, type)] `str::parse::<type>` conversions performed on behalf of P: a call in P itself (pos = its
    block), or a call inside a closure built in P that converts the closure's own parameter, located at the call of P
    that receives the closure value (`opt.and_then(|w| w.parse::<T>())`)."""
    pba = BA.of(P)
    out = []
    for i in pba.calls(_STR_PARSE):
        g = [x["ty"] for x in P.blocks[i]["term"].get("gargs", []) if "ty" in x]
        out.append((i, g[0] if g else "?"))
    for (bb, j, dest, k, ops) in closure_sites(P):
        cb = prog.bodies.get(k)
        if cb is None or bb not in pba.live or P.is_cleanup(bb):
            continue
        cba = BA.of(cb)
        params = set(range(2, cb.arg_count + 1))
        tl = taint(cb, seeds=params, mode="direct") if params else set()
        for ci in cba.calls(_STR_PARSE):
            a = op_local(cb.blocks[ci]["term"]["args"][0])
            if a is None or not (a in tl or any(x in tl for x in cba.ref_chain(a))):
                out.append((bb, "?"))       # converts something else than what it is handed: not attributable
                continue
            g = [x["ty"] for x in cb.blocks[ci]["term"].get("gargs", []) if "ty" in x]
            users = [u for u in pba.all_calls() if any(op_local(x) is not None and dest in pba.ref_chain(op_local(x)) for x in P.blocks[u]["term"]["args"])]
            for u in users:
                out.append((u, g[0] if g else "?"))
    return out


def _kind_literal(b, a):
    s = const_str(a)
    if s is not None:
        return s
    l = op_local(a)
    if l is None:
        return None
    ba = BA.of(b)
    for x in ba.ref_chain(l):
        d = ba.single_def(x)
        if d and d[0] == "stmt":
            for c in __import__("core").rvalue_consts(d[3]):
                if "str" in c:
                    return c["str"]
    return None


def _is_job_record(SS, l):
    """Parent local `l` is (a reference to / a move of) the record moved out of `BuildJob.sf`."""
    if l is None:
        return False
    sl, org, ar = backward_direct(SS, l)
    ba = BA.of(SS)
    for x in sl:
        for d in ba.defs.get(x, []):
            if d[0] == "stmt" and any("builder::BuildJob.sf" in place_fields(p) for p in rvalue_places(d[3])):
                return True
    return False


def _upvars_read(cl, locals_):
    """Upvar indices read by the definitions of `locals_` in closure body cl."""
    ba = BA.of(cl)
    out = set()
    for x in locals_:
        for d in ba.defs.get(x, []):
            if d[0] == "stmt":
                for p in rvalue_places(d[3]):
                    u = upvar_index(p)
                    if u:
                        out.add(u[0])
    return out


def _id_of_job_record(SS, cl, id_local):
    """FLOW(File::id(job record) => id_local in the child closure), direct strength and no arithmetic, across the
    capture: either the closure calls File::id on a captured record that is the job's own, or it captured the
    number and the parent computed it as File::id of the job's own record."""
    if id_local is None:
        return False
    caps = closure_sites(SS, cl.key)
    if len(caps) != 1:
        return False
    ops = caps[0][4]

    def parent_local(u):
        return op_local(ops[u]) if 0 <= u < len(ops) else None
    sl, org, ar = backward_direct(cl, id_local)
    if ar or any(o[0] != "call" or not call_matches(o[2], r"state::File::id") for o in org):
        return False
    if org:
        # computed in the child: every File::id receiver is a captured job record
        for o in org:
            us = _upvars_read(cl, BA.of(cl).ref_chain(op_local(o[2]["args"][0])))
            if not us or not all(_is_job_record(SS, parent_local(u)) for u in us):
                return False
        return True
    # computed in the parent: the captured number is File::id(job record) - captured on its own, or as a field of a
    # struct the parent built for the child (the field is followed to the operand it was initialised with)
    roots = common.origin_paths(cl, id_local)
    if not roots or any(r[0] != "upvar" for (r, _) in roots):
        return False
    for (r, fields) in roots:
        pl = parent_local(r[1])
        sf_ = common.struct_fields_of(SS, pl) if pl is not None else None
        if sf_ is not None and fields:
            cand = [o for (fn, o) in sf_ if fn in fields]
            if len(cand) != 1:
                return False
            pl = op_local(cand[0])
        psl, porg, par = backward_direct(SS, pl)
        if par or not porg:
            return False
        for o in porg:
            if not (o[0] == "call" and call_matches(o[2], r"state::File::id") and _is_job_record(SS, op_local(o[2]["args"][0]))):
                return False
    return True


def _recv_upvar(cl, t):
    ba = BA.of(cl)
    for l in ba.ref_chain(op_local(t["args"][0])):
        d = ba.single_def(l)
        if d and d[0] == "stmt":
            for p in __import__("core").rvalue_places(d[3]):
                u = upvar_index(p)
                if u:
                    return u[1]
    return None
