"""C04 - Targets are replaced atomically and only by complete, unambiguous output."""
import re

import anchors
from core import (BA, FAL, call_matches, callee_paths, op_local, op_place, op_const, const_int, place_fields, rvalue_places,
                  taint, upvar_index, closure_sites)
from facts import strip_generics
from rules import common
from rules.C06 import backward_direct

EXPLANATION = (
    "Static who-may-mutate, value-flow and dominance rules on the parent side of a build: the only filesystem "
    "mutations whose path is the target itself are the destination of one fs::rename and one unlink, both dominated by "
    "`rv == EXIT_SUCCESS` evaluated after the direct-modification (206) and double-output (207) tests; no "
    "create/write/copy ever takes the target path (stdout is copied to the temp path); on every rv != 0 path the temp "
    "file is removed and the record marked failed; a stale temp file is removed before the fork; stdout is captured "
    "in an unnamed temp file. Assumes POSIX rename(2) atomicity; does NOT decide byte-level equality or signal timing."
)
ASSUMPTIONS = ["rename(2) replaces the destination atomically", "`expect()` panics on I/O faults in record_new_state are a fault-sequence question (inventoried in C09), not judged here",
               "the .do script itself writing $1 is detected after the fact (206), not prevented"]

MUTATORS = re.compile(
    r"std::fs::(rename|write|copy|remove_file|remove_dir|remove_dir_all|create_dir|create_dir_all|set_permissions|hard_link|soft_link)"
    r"|std::fs::File::(create|create_new|set_len|set_permissions)|std::fs::OpenOptions::open|std::os::unix::fs::symlink"
    r"|nix::unistd::(unlink|truncate|ftruncate|symlinkat|linkat|mkdir)|helpers::unlink(_output)?|std::io::copy::copy"
    r"|tempfile::(file::)?NamedTempFile(<.*>)?::persist|tempfile::Builder::tempfile_in|tempfile::Builder::tempfile|tempfile::(file::)?tempfile")


UNLINK = r"helpers::unlink(_output)?|nix::unistd::unlink|std::fs::remove_file"


def is_mutator_call(t):
    ps = callee_paths(t)
    if not any(MUTATORS.fullmatch(p) for p in ps):
        return False
    if any(p == "std::io::copy::copy" for p in ps):
        # only a copy *into a file* mutates the filesystem (redo-stamp copies stdin into a hasher)
        return "std::fs::File" in (t.get("arg_tys") or ["", ""])[1]
    return True


def run(ctx):
    prog = ctx.prog
    ctx.rule("R4.1", "who-may-mutate: parent-side filesystem mutators whose path operand is the target itself are exactly one fs::rename destination and one unlink; no create/write/copy takes the target path")
    ctx.rule("R4.2", "the rename and the unlink of the target are dominated by `rv == EXIT_SUCCESS`, itself evaluated after the 206 (direct modification) and 207 (stdout and $3) assignments; rv's other source is the awaited job status")
    ctx.rule("R4.3", "every path through record_new_state passes the final `rv != EXIT_SUCCESS` test whose true side removes the temp file and marks the record failed; save follows on all paths")
    ctx.rule("R4.4", "start_self removes a stale temp file before the fork; the temp name is built from the .do directory and base name")
    ctx.rule("R4.5", "stdout is captured in an unnamed temp file that the child dup2()s onto fd 1 and the parent passes to record_new_state")

    R = anchors.record_new_state(prog)
    rba = BA.of(R)
    SS = anchors.start_self(prog)
    J = anchors.job_start(prog)
    RR = anchors.result_recorder(prog)
    fcl = {cl.key for _, _, cl in anchors.fork_closures(prog)}
    reach = ctx.cg.reachable([J.key, RR.key], stop=frozenset(fcl), indirect=False)
    roles = recorder_roles(prog, R, SS, J, RR)
    ctx.ob("R4.1", "%s|target-and-temp-path-reach-the-recorder" % R.key, bool(roles["t"]) and bool(roles["tmp"]), where=R.span,
           detail="record_new_state receives the target path as %s and the temp path as %s" % (sorted(roles["t"]), sorted(roles["tmp"])) if roles["t"] and roles["tmp"] else
           "cannot follow the target path / temp path from start_self through the recorder coroutine into record_new_state")
    # target-path sources per body
    n_mut = 0
    target_mut = []
    for k in sorted(reach):
        b = prog.bodies.get(k)
        if b is None:
            continue
        ba = BA.of(b)
        if k in ("helpers::unlink", "helpers::unlink_output"):
            continue  # the wrappers themselves; their call sites are the mutators
        muts = [i for i in ba.all_calls() if is_mutator_call(b.blocks[i]["term"])]
        if not muts:
            continue
        tnt = target_taint(prog, b, R, SS, J, RR, roles)
        for i in muts:
            t = b.blocks[i]["term"]
            n_mut += 1
            hit = [n for n, a in enumerate(t["args"]) if op_local(a) is not None and (op_local(a) in tnt or any(x in tnt for x in ba.ref_chain(op_local(a))))]
            if hit:
                target_mut.append((b, i, common.short(callee_paths(t)[0]), hit))
    ctx.floor("R4.1", "parent-side filesystem mutator call sites examined", n_mut, 8)
    allowed = {("std::fs::rename", (1,)), ("helpers::unlink", (0,))}
    target_mut = [(b, i, "helpers::unlink" if re.fullmatch(UNLINK, name) else name, hit) for (b, i, name, hit) in target_mut]
    seen = {}
    for b, i, name, hit in target_mut:
        key = (name, tuple(hit))
        seen[key] = seen.get(key, 0) + 1
        ctx.ob("R4.1", "%s|%s|arg%s" % (b.key, name, ",".join(map(str, hit))), key in allowed and b.key == R.key and seen[key] == 1, where=ctx.where(b, i),
               detail="allowed: %s of the target path" % ("rename destination" if name.endswith("rename") else "unlink") if key in allowed and b.key == R.key and seen[key] == 1 else
               "%s takes the target path itself (operand %s): the target can be modified in place / outside the atomic rename" % (name, hit))
    ctx.ob("R4.1", "rename-and-unlink-of-target-present", ("std::fs::rename", (1,)) in seen and ("helpers::unlink", (0,)) in seen, where=R.span,
           detail="the target is replaced by rename(tmp, t) and removed by unlink(t) when no output was produced")
    # rename source is the temp path (param), copy destination derives from File::create(tmp)
    ren = rba.calls(r"std::fs::rename")
    tmp_t = common.role_ftaint(R, roles["tmp"])
    if ren:
        a0 = op_local(R.blocks[ren[0]]["term"]["args"][0])
        ok = a0 in tmp_t or any(x in tmp_t for x in rba.ref_chain(a0))
        ctx.ob("R4.1", "%s|rename-source-is-tmp" % R.key, ok, where=ctx.where(R, ren[0]), detail="rename(tmp_name, t)" if ok else "rename source is not the temp path")
    cp = rba.calls(r"std::io::copy::copy")
    cr = rba.calls(r"std::fs::File::create")
    ok = False
    if cp and cr:
        a = op_local(R.blocks[cr[0]]["term"]["args"][0])
        from_tmp = a in tmp_t or any(x in tmp_t for x in rba.ref_chain(a))
        dst = op_local(R.blocks[cp[0]]["term"]["args"][1])
        d_t = taint(R, seeds={R.blocks[cr[0]]["term"]["dest"]["l"]}, mode="direct")
        ok = from_tmp and (dst in d_t or any(x in d_t for x in rba.ref_chain(dst)))
    ctx.ob("R4.1", "%s|stdout-copied-to-tmp" % R.key, ok, where=ctx.where(R, cp[0]) if cp else R.span,
           detail="io::copy writes to File::create(tmp_name)" if ok else "stdout is copied somewhere other than the temp path")

    # ---- R4.2
    eqs = common.cmp_const_switches(R, 0)
    unl_t = [i for (b, i, name, hit) in target_mut if b.key == R.key and name == "helpers::unlink"]
    succ = [(sw, eq_t, ne_t) for (sw, ne_t, eq_t, x) in eqs if ren and rba.edge_dominates((sw, eq_t), ren[0])]
    if ctx.ob("R4.2", "%s|success-test" % R.key, len(succ) == 1, where=R.span, detail="%d `rv == EXIT_SUCCESS` tests dominate the rename" % len(succ)):
        sw, eq_t, ne_t = succ[0]
        ok = all(rba.edge_dominates((sw, eq_t), u) for u in unl_t) and bool(unl_t)
        ctx.ob("R4.2", "%s|unlink-target-under-success" % R.key, ok, where=ctx.where(R, unl_t[0]) if unl_t else R.span, detail="unlink(t) only when rv == EXIT_SUCCESS")
        a206 = const_assign_blocks(R, 206)
        a207 = const_assign_blocks(R, 207)
        ok = bool(a206) and bool(a207) and all(rba.dominates(x, sw) or rba.path([x], [sw], incl=True) is not None for x in a206 + a207) and \
            all(rba.path([eq_t], [x], incl=True) is None for x in a206 + a207)
        ctx.ob("R4.2", "%s|206/207-decided-before-success-test" % R.key, ok, where=ctx.where(R, sw),
               detail="rv := 206 / 207 happen before, never after, the success test" if ok else "the success test is evaluated before the direct-modification / double-output checks")
        # the tests guarding 206/207
        # (over feasible paths: the verdict may travel from the test to the `rv := 206` assignment as a value, e.g.
        # `Some(Mistake::ModifiedTarget)` returned by a detector and matched later; the test is then the bool switch
        # whose true side is the only way to reach the assignment on paths that can execute)
        rfa = FAL.of(R)
        mod_sw = [s for s in sorted(rba.live) if rba.bool_switch(s) and any(rfa.edge_dominates((s, rba.bool_switch(s)[0]), x) for x in a206)]
        ok = bool(mod_sw) and all(rba.dominates(m, sw) for m in mod_sw)
        ctx.ob("R4.2", "%s|direct-modification-test-dominates" % R.key, ok, where=R.span, detail="the `modified` test dominates the success test")
        # rv's sources: the parameter (job status) and constants
        rvl = None
        for (_, _, _, x) in eqs:
            rvl = x
        sl, org, _ = backward_direct(R, rvl)
        ok = any(1 <= l <= R.arg_count and R.locals[l] == "i32" for l in sl)
        ctx.ob("R4.2", "%s|rv-from-job-status" % R.key, ok, where=R.span, detail="rv is the status parameter, overridden only by error constants")
        # ---- R4.10 (F-U): once the status has been set to a failure inside the success region, the target is out of reach
        ctx.rule("R4.10", "no mutation of the target (rename over it, unlink of it) is reachable from a point where the job's status has been set to a failure: a step of the success path that fails (e.g. the copy of stdout into the temp file) must not fall through into `no output: remove the target`")
        rvar = common.int_root(R, rvl) if rvl is not None else None
        fam = common.status_family(R, rvar) if rvar is not None else set()
        fails_at = common.status_failure_blocks(R, fam, 0) if fam else {}
        muts = sorted(set(ren) | set(unl_t))
        ctx.floor("R4.10", "failure assignments to the status in record_new_state", len(fails_at), 1)
        for a in sorted(fails_at):
            pth = common.status_path(R, fam, 0, a, muts) if muts else None
            ctx.ob("R4.10", "%s|status:=%s|target-untouched-afterwards" % (R.key, "+".join(sorted(str(c_) for c_ in fails_at[a]))),
                   pth is None, where=ctx.where(R, a),
                   detail="after this failure is decided neither the rename nor the unlink of the target can execute" if pth is None else
                   "a failed build still replaces or deletes the previous target: status set to a failure at %s, target mutated at %s" % (R.line(a), R.line(pth[-1])), witness=pth)
    # in the recorder coroutine rv comes from the awaited Job
    rrba = BA.of(RR)
    rn = rrba.calls(re.escape(R.key))
    if rn:
        t = RR.blocks[rn[0]]["term"]
        sl, org, _ = backward_direct(RR, op_local(t["args"][-1]))
        ok = any(o[0] == "call" and any("future::future::Future" in p and p.endswith("poll") for p in callee_paths(o[2])) for o in org)
        ctx.ob("R4.2", "%s|status-from-awaited-job" % RR.key, ok, where=ctx.where(RR, rn[0]), detail="record_new_state receives the awaited job's exit status")

    # ---- R4.3
    nes = [(sw, ne_t, eq_t) for (sw, ne_t, eq_t, x) in eqs]
    fails = rba.calls(r"state::File::set_failed")
    final = [(sw, ne_t) for (sw, ne_t, eq_t) in nes if fails and rba.edge_dominates((sw, ne_t), fails[0])]
    if ctx.ob("R4.3", "%s|final-status-test" % R.key, len(final) == 1, where=R.span, detail="%d `rv != EXIT_SUCCESS` tests dominate set_failed" % len(final)):
        sw, ne_t = final[0]
        common.mpt(ctx, "R4.3", "%s|final-test-on-every-path" % R.key, R, [0], rba.returns(), [sw], "every path passes the final status test", "a path returns without the final status test")
        unl_tmp = [i for i in rba.calls_deep(UNLINK, prog) if rba.edge_dominates((sw, ne_t), i)]
        saves = rba.calls(r"state::File::save")
        common.mpt(ctx, "R4.3", "%s|failure=>tmp-removed" % R.key, R, [ne_t], saves, unl_tmp, "on failure the temp output is removed", "a failed build leaves its temp output behind")
        if unl_tmp:
            a = op_local(R.blocks[unl_tmp[0]]["term"]["args"][0])
            ok = a in tmp_t or any(x in tmp_t for x in rba.ref_chain(a))
            ctx.ob("R4.3", "%s|failure-unlink-is-tmp" % R.key, ok, where=ctx.where(R, unl_tmp[0]), detail="the failure side unlinks tmp_name")
        common.mpt(ctx, "R4.3", "%s|failure=>set_failed" % R.key, R, [ne_t], saves, fails, "on failure the record is marked failed before save", "a failed build is saved without set_failed")
        common.mpt(ctx, "R4.3", "%s|save-on-all-paths" % R.key, R, [sw], rba.returns(), saves, "save follows on all paths", "a path skips save", incl=False)

    # ---- R4.4
    sba = BA.of(SS)
    forks = sba.calls(anchors.FORK_START)
    unl = sba.calls_deep(UNLINK, prog)
    common.mpt_fl(ctx, "R4.4", "%s|stale-tmp-removed-before-fork" % SS.key, SS, [0], forks, unl, "helpers::unlink(tmp_name) precedes the fork", "a stale $3 from a killed run survives into the new build (and is taken for output)")
    if unl:
        a = op_local(SS.blocks[unl[0]]["term"]["args"][0])
        sl, org, _ = backward_direct(SS, a, depth=200)
        from_dodir = any(o[0] == "call" and call_matches(o[2], r"std::path::Path::join") for o in org)
        df_t = taint(SS, src_place=lambda p: "paths::DoFile.base_name" in place_fields(p), mode="derived")
        dd_t = taint(SS, src_place=lambda p: "paths::DoFile.do_dir" in place_fields(p), mode="derived")
        ok = from_dodir and (a in df_t or any(x in df_t for x in sba.ref_chain(a))) and (a in dd_t or any(x in dd_t for x in sba.ref_chain(a)))
        ctx.ob("R4.4", "%s|tmp-name=do_dir.join(base_name+ext+suffix)" % SS.key, ok, where=ctx.where(SS, unl[0]), detail="tmp_name derives from df.do_dir and df.base_name" if ok else "the removed path is not the temp name beside the target")
        # the same tmp_name value is what the recorder coroutine receives and hands to record_new_state (followed
        # forward from where the removed path is computed: captured as it is, or inside a bundle, see recorder_roles)
        ok = bool(roles["_upp_tmp"]) and bool(roles["tmp"])
        ctx.ob("R4.4", "%s|same-tmp-recorded" % SS.key, ok, where=SS.span, detail="the temp name removed before the fork is the one record_new_state renames from")

    # ---- R4.5
    tf = sba.calls(r"tempfile::(file::)?tempfile")
    ok = False
    if tf:
        of_t = taint(SS, seeds={SS.blocks[tf[0]]["term"]["dest"]["l"]}, mode="direct", through=re.compile(r"core::cell::Cell::(new|take)"))
        cs_child = [(cl, closure_sites(SS, cl.key)) for _, _, cl in anchors.fork_closures(prog) if strip_generics(cl.parent or "") == SS.key]
        cs_rec = closure_sites(SS, RR.key)
        child_gets = any(any(op_local(o) in of_t or any(x in of_t for x in sba.ref_chain(op_local(o))) for o in site[4] if op_local(o) is not None) for cl, sites in cs_child for site in sites)
        rec_gets = any(any(op_local(o) in of_t for o in site[4] if op_local(o) is not None) for site in cs_rec)
        ok = child_gets and rec_gets
        # in the child: dup2(fd, 1)
        dup_ok = False
        for cl, sites in cs_child:
            cba = BA.of(cl)
            for i in cba.calls(r"nix::unistd::dup2"):
                if const_int(cl.blocks[i]["term"]["args"][1]) == 1:
                    dup_ok = True
        ok = ok and dup_ok
    ctx.ob("R4.5", "%s|stdout-is-unnamed-tempfile" % SS.key, ok, where=ctx.where(SS, tf[0]) if tf else SS.span,
           detail="tempfile::tempfile() flows to the child's dup2(_, 1) and to record_new_state" if ok else "stdout capture is not an unnamed temp file shared by child and recorder")


def const_assign_blocks(body, value):
    out = []
    ba = BA.of(body)
    for i in sorted(ba.live):
        for s in body.blocks[i]["stmts"]:
            if s["s"] == "assign" and s["rv"]["k"] == "use" and const_int(s["rv"]["op"]) == value and not s["place"]["p"]:
                out.append(i)
    return out


def tmp_name_seeds(prog, SS):
    """start_self locals at which the temp-output path is computed: what the unlink that precedes the fork removes
    (role query: `helpers::unlink(x)` on every path to the fork), followed back to its origin."""
    sba = BA.of(SS)
    forks = sba.calls(anchors.FORK_START)
    seeds = set()
    for u in sba.calls_deep(UNLINK, prog):
        if not forks or not any(sba.dominates(u, f) for f in forks):
            continue
        a = op_local(SS.blocks[u]["term"]["args"][0])
        if a is None:
            continue
        seeds |= set(sba.ref_chain(a)) | backward_direct(SS, a, depth=40)[0]
    return {l for l in seeds if l > SS.arg_count}


def tmp_name_sources(prog, SS):
    """start_self locals holding the temp-output path: the seeds above and, forward again, every direct alias."""
    seeds = tmp_name_seeds(prog, SS)
    return taint(SS, seeds=seeds, mode="direct") if seeds else set()


def recorder_roles(prog, R, SS, J, RR):
    """Which parameters (or fields of a parameter struct) of record_new_state carry which value, decided by
    following the values themselves: start_self local -> variable captured by the recorder coroutine -> operand
    of the record_new_state call -> parameter. No parameter positions, no variable names.
      't'        the target path (BuildJob.t)
      'tmp'      the temp-output path start_self removes before the fork
      'before_t' the stat BuildJob::start takes before the verdict and hands to start_self
    Each value is {(param_no, field_path)}: field_path is () for the whole parameter, else the 'Type.field' names
    leading to the value inside a bundle (a struct built at the call site, or built in start_self and handed through
    the coroutine as one captured variable); empty when the chain is broken.
    The flow is followed field-sensitively (core.FieldTaint) in all three bodies, so that bundling several of these
    values into one struct / tuple on the way (`DoCommand { df, tmp_name, argv }`, `DoOutput { before_t, out_file,
    tmp_name, argv }`, `(cmd, out_file)`) does not make one stand for the others.
    '_up_<role>' = captured-variable indices of the coroutine holding the value, '_upp_<role>' = the same with the
    field path inside the captured variable."""
    from core import FieldTaint
    sba, jba, rrba = BA.of(SS), BA.of(J), BA.of(RR)
    src = {}
    src["t"] = FieldTaint(SS, src_place=lambda p: place_fields(p)[-1:] == ["builder::BuildJob.t"])
    tseeds = tmp_name_seeds(prog, SS)
    src["tmp"] = FieldTaint(SS, seeds=tseeds) if tseeds else None
    # before_t: the pre-verdict stat in the dispatcher -> start_self parameter
    P1 = set()
    stats = pre_verdict_stats(prog, J)
    if stats:
        tl = taint(J, seeds={J.blocks[i]["term"]["dest"]["l"] for i in stats}, mode="direct")
        per_site = [common.call_arg_roles(J, c, common.in_set(J, tl)) for c in jba.calls(re.escape(SS.key))]
        if per_site and all(per_site):
            P1 = set.intersection(*per_site)
    src["before_t"] = FieldTaint(SS, seeds={n for (n, pref) in P1 if not pref}, seed_paths=[(n, tuple(pref)) for (n, pref) in P1 if pref]) if P1 else None
    out = {"_ss_params_before_t": P1}
    rn = rrba.calls(re.escape(R.key))
    sites = closure_sites(SS, RR.key)
    for role, ft in src.items():
        upp = set()
        if ft is not None:
            for (bb, j, dest, k, ops) in sites:
                for n, o in enumerate(ops):
                    for path in ft.operand_paths(o):
                        upp.add((n, tuple(path)))
        out["_upp_" + role] = upp
        out["_up_" + role] = {n for (n, _) in upp}
        roles = None
        if upp:
            frr = FieldTaint(RR, seed_paths=[(-(1000 + n), path) for (n, path) in upp])
            for c in rn:
                r = {(k + 1, tuple(path)) for k, a in enumerate(RR.blocks[c]["term"]["args"]) for path in frr.operand_paths(a)}
                roles = r if roles is None else (roles & r)
        out[role] = roles or set()
    return out


def pre_verdict_stats(prog, J):
    """Calls in the dispatcher that stat (lstat) the target itself: `symlink_metadata`, directly or through a
    local wrapper (today builder::try_stat), on a path that is a direct alias of BuildJob.t."""
    jba = BA.of(J)
    t_t = taint(J, src_place=lambda p: place_fields(p)[-1:] == ["builder::BuildJob.t"], mode="direct", through=re.compile(r"std::path::Path::new"))
    ok = common.in_set(J, t_t)
    out = []
    for i in jba.calls_deep(r"std::path::Path::symlink_metadata|std::fs::symlink_metadata", prog):
        t = J.blocks[i]["term"]
        if any(ok(op_local(a)) or bool(backward_direct(J, op_local(a))[0] & t_t) for a in t["args"] if op_local(a) is not None):
            out.append(i)
    return out


def target_taint(prog, b, R, SS, J, RR, roles=None):
    """Locals of `b` that are (direct aliases of) the target path."""
    if roles is None:
        roles = recorder_roles(prog, R, SS, J, RR)
    if b.key == R.key:
        # field-sensitive: record_new_state may pack its parameters into a struct of its own (`StateRecorder { t,
        # tmp_name, .. }`) and work on `self.t` / `self.tmp_name`; the target path is then one field, not the struct
        return common.role_ftaint(b, roles["t"])
    if b.key in (SS.key, J.key) or b.key == "builder::BuildJob::start_deps_unlocked":
        return taint(b, src_place=lambda p: place_fields(p)[-1:] == ["builder::BuildJob.t"], mode="direct")
    if b.key == RR.key:
        from core import FieldTaint
        return FieldTaint(b, seed_paths=[(-(1000 + n), path) for (n, path) in roles["_upp_t"]]).whole_locals() if roles["_upp_t"] else set()
    return set()
