"""C03 - Checksum cut-off: redo-stamp stops and forwards change exactly (mechanism rules)."""
import re

import anchors
from core import BA, FAL, call_matches, callee_paths, op_local, op_place, op_const, const_int, place_fields, field_writes
from rules import common, dirt
from rules.C06 import backward_direct
from rules.C01 import primary_target_rule

EXPLANATION = (
    "Static branch-exclusivity and dominance rules: redo-stamp marks 'changed' (+ new checksum) on the changed side and "
    "'checked' on the unchanged side, exclusively, then saves and commits; record_new_state's stamp refresh after a "
    "stamped build never marks the target changed; in the dirtiness routine a checksummed file yields NeedTargets, "
    "never Dirty, after the stamp read; BuildJob::start sends NeedTargets to redo-unlocked (or builds when no_oob) and "
    "redo-ifchange collapses NeedTargets([self]) to Dirty; redo-unlocked re-runs the decision for the primary target "
    "and stops at the first failing phase. Does NOT decide 'exactly' over graphs and run-id histories."
)
ASSUMPTIONS = ["sha1 collisions ignored", "unwind edges excluded"]


def run(ctx):
    prog = ctx.prog
    ctx.rule("R3.1", "redo-stamp: changed => set_changed + set_checksum(csum); unchanged => set_checked and neither; both sides save then commit; set_generated precedes the test")
    ctx.rule("R3.2", "record_new_state: if the target was stamped in this run (is_checked or is_changed) the stamp is refreshed with read_stamp only; otherwise checksum cleared, update_stamp, set_changed")
    ctx.rule("R3.3", "dirtiness routine: Dirty after the stamp read only when checksum().is_empty(); otherwise NeedTargets carrying the file")
    ctx.rule("R3.4", "BuildJob::start: NeedTargets => start_deps_unlocked unless no_oob (then start_self); should_build collapses NeedTargets([self]) to Dirty")
    ctx.rule("R3.5", "redo-unlocked re-runs the decision for the primary target")
    ctx.rule("R3.7", "REDO_NO_OOB is consumed by Env::inherit (reset before every Ok return): builds nested below an out-of-band rebuild use the normal cut-off again")
    ctx.rule("R3.8", "an uncertain (NeedTargets) verdict of a dependency is accumulated, for plain and for checksummed parents alike; Clean only if nothing uncertain was collected")
    ctx.rule("R3.6", "redo-unlocked: a non-success status of either phase ends the process with that status before the next phase")

    # (a closure the command builds and runs itself - e.g. the body handed to a shared "open transaction, look up the
    # parent target, run, commit" helper - is part of the command)
    St = common.splice_local_closures(prog, prog.one(r"@bin::stamp::run"))
    sba = BA.of(St)
    ne = sba.switches_on_call(r".*core::cmp::PartialEq.*::(ne|eq)|core::cmp::impls::<impl .*>::(ne|eq)")
    chg = None
    for (sw, t_t, f_t, cbb) in ne:
        t = St.blocks[cbb]["term"]
        sl, org, _ = backward_direct(St, op_local(t["args"][1]))
        if any(o[0] == "call" and call_matches(o[2], r"state::File::checksum") for o in org) or any(
                o[0] == "call" and call_matches(o[2], r"state::File::checksum") for o in backward_direct(St, op_local(t["args"][0]))[1]):
            is_ne = any(p.endswith("::ne") for p in callee_paths(t))
            chg = (sw, t_t, f_t) if is_ne else (sw, f_t, t_t)
    if chg is None:
        # `changed` is a bool local tested later
        for sw in sorted(sba.live):
            bs = sba.bool_switch(sw)
            if bs and bs[2][0] == "call" and any(p.endswith("::ne") or p.endswith("::eq") for p in callee_paths(bs[2][1][1])):
                pass
    # the switch that guards set_changed: take the bool switch dominating set_changed but not set_checked
    setc = sba.calls(r"state::File::set_changed")
    setk = sba.calls(r"state::File::set_checked")
    setsum = sba.calls(r"state::File::set_checksum")
    saves = sba.calls(r"state::File::save")
    commits = sba.calls(r"state::ProcessTransaction::commit")
    gens = sba.calls(r"state::File::set_generated")
    # the branch(es) that separate the two markings: a switch one edge of which lies on every feasible path to
    # set_changed and another on every feasible path to set_checked. The outcome of the comparison may be carried to
    # the markings in a bool, in a two-variant enum (`match verdict`), .. : then both the comparison's own branch and
    # the dispatch on the carried value separate them (feasible paths, core.FA: the carried value decides the dispatch)
    from core import FA
    sfa = FA.of(St)
    seps = []
    if len(setc) == 1 and len(setk) == 1:
        for sw in sorted(sba.live):
            if St.blocks[sw]["term"]["t"] != "switch" or St.is_cleanup(sw):
                continue
            tg = sorted(set(St.succ(sw)))
            for a in tg:
                for b in tg:
                    if a != b and sfa.edge_dominates((sw, a), setc[0]) and sfa.edge_dominates((sw, b), setk[0]):
                        seps.append((sw, a, b))
    if ctx.ob("R3.1", "%s|changed-switch" % St.key, bool(seps) and len(setc) == 1 and len(setk) == 1 and len(setsum) == 1, where=St.span,
              detail="switch separating set_changed from set_checked located" if seps else "no branch separates set_changed from set_checked: both or neither are applied"):
        # the condition derives from comparing the new sum with f.checksum(): one of the separating branches is on the
        # result of an (in)equality call one operand of which goes back to File::checksum()
        derives = False
        for (sw, c_t, u_t) in seps:
            bs = sba.bool_switch(sw)
            if not bs or bs[2][0] != "call":
                continue
            t = bs[2][1][1]
            if not any(p_.endswith("::ne") or p_.endswith("::eq") for p_ in callee_paths(t)):
                continue
            for a in t["args"]:
                if op_local(a) is None:
                    continue
                if any(o[0] == "call" and call_matches(o[2], r"state::File::checksum") for o in backward_direct(St, op_local(a))[1]):
                    derives = True
        sw = seps[-1][0]
        ctx.ob("R3.1", "%s|condition-compares-checksum" % St.key, derives, where=ctx.where(St, sw), detail="the branch condition compares the new sum with File::checksum()")
        ok = True
        for (s_, c_t, u_t) in seps:
            cside = sfa.reach_incl([c_t], avoid=frozenset(saves))
            uside = sfa.reach_incl([u_t], avoid=frozenset(saves))
            ok = ok and (setc[0] in cside and setsum[0] in cside and setk[0] not in cside) and (setk[0] in uside and setc[0] not in uside and setsum[0] not in uside)
        ctx.ob("R3.1", "%s|exclusive-marking" % St.key, ok, where=ctx.where(St, sw),
               detail="changed side: set_changed+set_checksum, no set_checked; unchanged side: set_checked only" if ok else "changed/checked marking is not exclusive")
        common.mpt(ctx, "R3.1", "%s|save-then-commit" % St.key, St, [s_ for (s_, _, _) in seps], sba.returns() and common.ok_returns(St), saves, "both sides reach save", "a side skips save", incl=False)
        common.mpt(ctx, "R3.1", "%s|commit-after-save" % St.key, St, saves, common.ok_returns(St), commits, "commit follows save before Ok", "Ok is returned without committing", incl=False)
        # set_generated lies on every path to either marking (it precedes the changed/unchanged dispatch)
        pg = sba.path([0], setc + setk, avoid=frozenset(gens), incl=True) if gens else [0]
        ctx.ob("R3.1", "%s|set_generated-first" % St.key, bool(gens) and pg is None, where=ctx.where(St, sw), detail="set_generated precedes the changed/unchanged branch")
        # the new checksum stored is the computed one
        t = St.blocks[setsum[0]]["term"]
        sl, org, _ = backward_direct(St, op_local(t["args"][1]))
        ok = any(o[0] == "call" and call_matches(o[2], r"alloc::fmt::format|core::hint::must_use|.*finalize.*") for o in org)
        ctx.ob("R3.1", "%s|stores-computed-sum" % St.key, ok, where=ctx.where(St, setsum[0]), detail="set_checksum receives the freshly computed digest")

    # ---- R3.2
    R = anchors.record_new_state(prog)
    rba = BA.of(R)
    ic = rba.switches_on_call(r"state::File::is_checked")
    ich = rba.switches_on_call(r"state::File::is_changed")
    rs = rba.calls(r"state::File::read_stamp")
    us = rba.calls(r"state::File::update_stamp")
    sc = rba.calls(r"state::File::set_changed")
    scs = rba.calls(r"state::File::set_checksum")
    if ctx.ob("R3.2", "%s|anchors" % R.key, len(ic) == 1 and len(ich) == 1 and len(rs) == 1 and len(us) == 1 and len(sc) == 1 and len(scs) == 1, where=R.span,
              detail="is_checked/is_changed tests and the two stamp-refresh branches located"):
        (sw1, t1, f1, _), (sw2, t2, f2, _) = ic[0], ich[0]
        # stamped region: reached via t1 or t2; unstamped region: via f2 (after f1)
        stamped = rs[0]
        ok_st = (rba.path([f2], [stamped], incl=True) is None) and rba.dominates(sw1, stamped)
        unst = [us[0], sc[0], scs[0]]
        ok_un = all(rba.edge_dominates((sw2, f2), x) for x in unst) and all(rba.edge_dominates((sw1, f1), x) for x in unst)
        join = [s2 for (s2, _, _, _) in common.cmp_const_switches(R, 0) if rba.dominates(sw1, s2)]
        reach_st = rba.reach_incl([t1, t2], avoid=frozenset(join))
        no_mark = not (set(unst) & reach_st)
        ctx.ob("R3.2", "%s|stamped=>read_stamp-only" % R.key, ok_st and no_mark, where=ctx.where(R, stamped),
               detail="after redo-stamp ran in this build the stamp is refreshed without set_changed/update_stamp/set_checksum" if ok_st and no_mark else
               "the stamped branch marks the target changed: every dependent is rebuilt although the checksum is unchanged")
        ctx.ob("R3.2", "%s|unstamped=>clear-checksum+update_stamp+set_changed" % R.key, ok_un, where=ctx.where(R, us[0]),
               detail="a plain build clears the checksum, updates the stamp and marks changed" if ok_un else "the plain-build branch is not exclusive")
        w = [bb for bb, _, s in field_writes(R, r"state::File\.stamp")]
        ok = bool(w) and all(rba.dominates(rs[0], x) for x in w)
        ctx.ob("R3.2", "%s|stamp:=read_stamp" % R.key, ok, where=ctx.where(R, rs[0]), detail="sf.stamp is assigned from read_stamp in the stamped branch")

    dirt.checksum_verdicts(ctx, "R3.3")

    # ---- R3.4
    J = anchors.job_start(prog)
    jba = BA.of(J)
    dv = {v["name"]: v["discr"] for v in prog.adts["deps::Dirtiness"]["variants"]}
    for sw in sorted(jba.live):
        es = jba.enum_switch(sw)
        if es and J.locals[es[0]["l"]] == "deps::Dirtiness":
            nt = es[1].get(dv["NeedTargets"])
            oob = common.field_switches(J, "env::Env.no_oob")
            ok = False
            if nt is not None and len(oob) == 1:
                s2, t2, f2 = oob[0]
                su = jba.calls(r"builder::BuildJob::start_deps_unlocked")
                ss = jba.calls(re.escape(anchors.start_self(prog).key))
                # the no_oob test belongs to the NeedTargets verdict; behind it the two sides are exclusive and
                # complete: !no_oob always delegates (start_deps_unlocked) and never builds here, no_oob always builds
                # (start_self) and never delegates - whether start_self is written out on that side or shared with
                # the Dirty arm (`NeedTargets(t) if !no_oob => .., Dirty | NeedTargets(_) => start_self`)
                rets = jba.returns()
                # (over feasible paths: each side may first compute the value a later match dispatches on)
                jfa = FAL.of(J)
                ok = jba.edge_dominates((sw, nt), s2) and bool(su) and bool(ss) and bool(rets) \
                    and jfa.path([f2], rets, avoid=frozenset(su), incl=True) is None and jfa.path([f2], ss, incl=True) is None \
                    and jfa.path([t2], rets, avoid=frozenset(ss), incl=True) is None and jfa.path([t2], su, incl=True) is None
            ctx.ob("R3.4", "%s|NeedTargets=>unlocked-unless-no_oob" % J.key, ok, where=ctx.where(J, sw),
                   detail="NeedTargets: no_oob => start_self, else start_deps_unlocked" if ok else "NeedTargets is not dispatched to redo-unlocked / start_self by no_oob")
    # redo-ifchange's verdict callback is a role (fn item today, possibly a closure handed to builder::run): use the
    # role anchor where the anchors module provides it
    sb = anchors.ifchange_verdict(prog) if hasattr(anchors, "ifchange_verdict") else prog.one(r"@bin::ifchange::should_build")
    bba = BA.of(sb)
    idc = bba.calls(r"state::File::id")
    ln = bba.calls(r"alloc::vec::Vec::len")
    ok = len(idc) >= 2 and bool(ln) and bool(common.blocks_with_agg(sb, r"deps::Dirtiness", "Dirty"))
    ctx.ob("R3.4", "should_build|NeedTargets([self])=>Dirty", ok, where=sb.span, detail="a single-element NeedTargets naming the target itself collapses to Dirty (ids compared)" if ok else "NeedTargets([self]) is not collapsed: the target would delegate to redo-unlocked for ever")

    primary_target_rule(ctx, "R3.5")
    dirt.nonclean_propagates(ctx, "R3.8")
    from rules.C06 import env_setters, env_set_value
    inh = prog.one(r"env::Env::inherit")
    iba = BA.of(inh)
    clears = [i for (b, i) in env_setters(prog, "REDO_NO_OOB") if b.key == inh.key and env_set_value(b, i) == ""]
    # the Ok values inherit() itself returns (an Ok built by a Result-returning helper spliced into it feeds a `?`)
    oks = common.returned_ok_blocks(inh)
    p_ = iba.path([0], oks, avoid=frozenset(clears), incl=True) if oks else [0]
    ctx.ob("R3.7", "Env::inherit|REDO_NO_OOB-not-inherited", bool(clears) and p_ is None, where=inh.span,
           detail="REDO_NO_OOB is reset before every Ok return of Env::inherit" if clears and p_ is None else
           "REDO_NO_OOB leaks to subprocesses: every redo-ifchange below an out-of-band rebuild turns an uncertain verdict into a rebuild, defeating the checksum cut-off")
    setters = sorted({b.key for (b, i) in env_setters(prog, "REDO_NO_OOB") if env_set_value(b, i) != ""})
    ctx.ob("R3.7", "who-sets-REDO_NO_OOB", setters == ["@bin::unlocked::run"], detail="bodies setting a non-empty REDO_NO_OOB: %s" % setters)

    # ---- R3.6
    U = prog.one(r"@bin::unlocked::run")
    uba = BA.of(U)
    succ = uba.switches_on_call(r"std::process::ExitStatus::success")
    ctx.floor("R3.6", "status tests in redo-unlocked", len(succ), 2)
    spawns = uba.calls(r"std::process::Command::spawn")
    exits = uba.calls(r"std::process::exit")
    for k, (sw, t_t, f_t, cbb) in common.ordinal_keys([("status", x) for x in succ]):
        later = [s for s in spawns if uba.dominates(sw, s)] + common.ok_returns(U)
        p = uba.path([f_t], later, avoid=frozenset(exits), incl=True)
        # the exit code derives from the status
        ok = p is None and bool(exits)
        ctx.ob("R3.6", "%s|%s|failure=>exit-before-next-phase" % (U.key, k), ok, where=ctx.where(U, sw),
               detail="a failed phase exits with its status before anything else happens" if ok else "a failed phase is ignored")
