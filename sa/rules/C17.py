"""C17 - redo-ood/targets/sources are safe over-approximations and change nothing."""
import re

import anchors
from core import (BA, call_matches, callee_paths, op_local, op_place, op_const, const_int, const_str, place_fields, str_consts)
from rules import common, sqlc, txn
from rules.C04 import is_mutator_call
from rules.C06 import backward_direct

EXPLANATION = (
    "Static effect rules: redo-ood, redo-targets and redo-sources never commit a transaction (no commit(), no "
    "drop-behaviour Commit) - the only committed write of such a process is the run-id allocation in ProcessState::init, "
    "whose SQL touches neither Files nor Deps rows; they reach no filesystem mutation of project paths; redo-ood calls the "
    "builder's own dirtiness routine with callbacks that only touch an in-memory set and iterates exactly the records for "
    "which is_target holds; is_target is 'generated and not is_source' by construction, both listings iterate Files::list. "
    "Does NOT decide the lower/upper bound relation between the ood listing and what the builder will run."
)
ASSUMPTIONS = ["a rolled-back transaction leaves no trace", "unwind edges excluded"]

QUERY = [r"@bin::ood::run", r"@bin::targets::run", r"@bin::sources::run"]


def run(ctx):
    prog = ctx.prog
    ctx.rule("R17.1", "the three query commands never commit: no ProcessTransaction::commit and no set_drop_behavior(Commit) reachable; init's committed SQL touches only Schema/Runid (and the one-time schema creation)")
    ctx.rule("R17.2", "the three query commands reach no filesystem mutation outside the state directory's own files")
    ctx.rule("R17.3", "redo-ood uses the builder's dirtiness routine with callbacks that do not save, and judges exactly the records for which is_target holds")
    ctx.rule("R17.4", "is_target is `is_generated and not is_source`; targets and sources both iterate Files::list")
    flt = txn.no_add_filter(prog)
    for q in QUERY:
        b = prog.one(q)
        over, got = txn.callbacks_override(prog, b)
        reach = ctx.cg.reachable([b.key], site_filter=flt, dyn_override=over)
        commits = [k for k in reach if k == "state::ProcessTransaction::commit"]
        setc = []
        for k in sorted(reach):
            bb = prog.bodies.get(k)
            if bb is None:
                continue
            bba = BA.of(bb)
            for i in bba.calls(r"state::ProcessTransaction::set_drop_behavior"):
                a = bb.blocks[i]["term"]["args"][1]
                v = (op_const(a) or {}).get("variant")
                if v is None and op_local(a) is not None:
                    d = bba.single_def(op_local(a))
                    if d and d[0] == "stmt" and d[3]["k"] == "agg":
                        v = d[3].get("variant")
                if v == "Commit":
                    setc.append((k, i))
        ctx.ob("R17.1", "%s|never-commits" % b.key, not commits and not setc, where=b.span,
               detail="no commit reachable (%d bodies searched; callbacks: %s)" % (len(reach), sorted(got.values()) if got else "default") if not commits and not setc else
               "a query command can commit: %s %s" % (commits, setc))
        found = []
        for k in sorted(ctx.cg.reachable([b.key], stop=frozenset(["helpers::unlink"]), dyn_override=over)):
            bb = prog.bodies.get(k)
            if bb is None:
                continue
            for i in BA.of(bb).all_calls():
                if is_mutator_call(bb.blocks[i]["term"]):
                    found.append((k, i))
        allowed = {"state::ProcessState::init", "state::LockManager::open", "env::Env::make_redo_links_dir"}
        bad = [(k, i) for k, i in found if k not in allowed]
        ctx.ob("R17.2", "%s|no-project-file-mutation" % b.key, not bad, where=", ".join(ctx.where(prog.bodies[k], i) for k, i in bad[:3]),
               detail="mutators only in %s" % sorted({k for k, _ in found}) if not bad else "filesystem mutator reachable from a query command: %s" % sorted({k for k, _ in bad}))
    init = prog.one(r"state::ProcessState::init")
    muts = [s for (_, _, s, _) in str_consts(init) if sqlc.kind(s) in ("insert into", "insert or replace into", "update", "delete from")]
    tabs = sorted({sqlc.table(s) for s in muts})
    # inserts into Files happen only in the schema-creation branch (the //ALWAYS seed)
    iba = BA.of(init)
    files_blocks = [bb for (bb, _, s, _) in str_consts(init) if sqlc.kind(s).startswith("insert") and sqlc.table(s) == "files"]
    creates = sorted({bb for (bb, _, s, _) in str_consts(init) if sqlc.kind(s) == "create table"})
    ok = set(tabs) <= {"schema", "runid", "files"} and all(any(iba.dominates(c, f) for c in creates) for f in files_blocks) and "deps" not in tabs
    ctx.ob("R17.1", "init|committed-writes-touch-only-Schema/Runid", ok, where=init.span, detail="tables written by init: %s (Files only for the seed row next to the schema creation)" % tabs)

    O = prog.one(r"@bin::ood::run")
    oba = BA.of(O)
    over, got = txn.callbacks_override(prog, O)
    ctx.ob("R17.3", "%s|all-three-callbacks-replaced" % O.key, over is not None, where=O.span, detail="callbacks: %s" % got)
    for nm, ck in sorted(got.items()):
        r = ctx.cg.reachable([ck], indirect=False)
        bad = sorted(k for k in r if re.fullmatch(r"state::File::(save|set_checked_save|add_dep|zap_deps1|zap_deps2)|state::ProcessTransaction::(write|commit)", k))
        ctx.ob("R17.3", "%s|callback-%s-does-not-persist" % (O.key, nm), not bad, where=prog.bodies[ck].span if ck in prog.bodies else O.span,
               detail="callback reaches no database write" if not bad else "ood's %s callback persists state: %s" % (nm, bad))
    isd = oba.calls(r"deps::is_dirty")
    ist = oba.switches_on_call(r"state::File::is_target")
    lst = oba.calls(r"state::Files::list")
    ok = bool(isd) and bool(lst)
    ctx.ob("R17.3", "%s|shares-the-builder-routine" % O.key, ok and "deps::private_is_dirty" in ctx.cg.reachable([O.key]) and "deps::is_dirty" in ctx.cg.reachable(["@bin::ifchange::should_build"]),
           where=O.span, detail="redo-ood and redo-ifchange's should_build both call deps::is_dirty")
    # the vector judged is filled only on the is_target == true edge
    pushes = oba.calls(r"alloc::vec::Vec::push")
    ok = False
    if ist and pushes:
        # is_target returns Result<bool>: the bool switch after `?`
        for sw in sorted(oba.live):
            bs = oba.bool_switch(sw)
            if bs and any(oba.dominates(c, sw) for (_, _, _, c) in ist) or (bs and any(oba.dominates(i, sw) for i in oba.calls(r"state::File::is_target"))):
                if all(oba.edge_dominates((sw, bs[0]), p) for p in pushes):
                    ok = True
    if not ist:
        for sw in sorted(oba.live):
            bs = oba.bool_switch(sw)
            if bs and any(oba.dominates(i, sw) for i in oba.calls(r"state::File::is_target")) and pushes and all(oba.edge_dominates((sw, bs[0]), p) for p in pushes):
                ok = True
    ctx.ob("R17.3", "%s|judges-exactly-the-targets" % O.key, ok, where=O.span, detail="only records with is_target() == true are collected and judged" if ok else "ood does not restrict itself to is_target records")

    from rules import dirt
    ctx.rule("R17.5", "the shared dirtiness routine consults the 'already checked' memo (redo-ood's in-memory set) only after the failed / never-built / changed-later-than-parent tests")
    dirt.memo_placement(ctx, "R17.5")
    IT = prog.one(r"state::File::is_target")
    tba = BA.of(IT)
    gsw = common.field_switches(IT, "state::File.is_generated")
    src = tba.calls(r"state::File::is_source")
    ok = False
    if len(gsw) == 1 and src:
        sw, t_t, f_t = gsw[0]
        falses = [i for i in common.ok_returns(IT) if any(s["s"] == "assign" and s["rv"]["k"] == "agg" and (op_const(s["rv"]["ops"][0]) or {}).get("bool") is False for s in IT.blocks[i]["stmts"])]
        not_gen_false = any(tba.edge_dominates((sw, f_t), x) for x in falses)
        # the other side maps is_source through a negation closure
        negs = [c for c in prog.children(IT) if any(s["s"] == "assign" and s["rv"]["k"] == "unop" and s["rv"]["op"] == "Not" for blk in c.blocks for s in blk["stmts"])]
        ok = not_gen_false and all(tba.edge_dominates((sw, t_t), x) for x in src) and bool(negs) and bool(tba.calls(r"core::result::Result::map"))
    ctx.ob("R17.4", "is_target|generated-and-not-source", ok, where=IT.span, detail="is_target = if !is_generated {false} else {!is_source}" if ok else "is_target is not defined through is_source: the two listings can overlap")
    for q in (r"@bin::targets::run", r"@bin::sources::run"):
        b = prog.one(q)
        bba = BA.of(b)
        pred = "is_target" if "targets" in q else "is_source"
        ok = bool(bba.calls(r"state::Files::list")) and bool(bba.calls(r"state::File::" + pred))
        prints = bba.calls(r"std::io::stdio::_print")
        ctx.ob("R17.4", "%s|lists-Files::list-filtered-by-%s" % (b.key, pred), ok and bool(prints), where=b.span, detail="iterates Files::list and prints records satisfying %s" % pred)
    fl = prog.one(r"state::Files::list")
    q = [s for (_, _, s, _) in str_consts(fl)]
    ok = any("from files order by name" in sqlc.norm(s) for s in q)
    ctx.ob("R17.4", "Files::list|one-ordered-query", ok, where=fl.span, detail="Files::list selects from Files ordered by name")
