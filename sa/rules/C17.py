"""C17 - redo-ood/targets/sources are safe over-approximations and change nothing."""
import re

import anchors
from core import (BA, call_matches, callee_paths, op_local, op_place, op_const, const_int, const_str, place_fields, str_consts, closure_sites)
from rules import common, sqlc, txn
from rules.C04 import is_mutator_call
from rules.C06 import backward_direct

EXPLANATION = (
    "Static effect rules: redo-ood, redo-targets and redo-sources never commit a transaction (no commit(), no "
    "drop-behaviour Commit) - the only committed write of such a process is the run-id allocation in ProcessState::init, "
    "whose SQL touches neither Files nor Deps rows; they reach no filesystem mutation of project paths; redo-ood calls the "
    "builder's own dirtiness routine with callbacks that only touch an in-memory set and iterates exactly the records for "
    "which is_target holds; is_target is 'generated and not is_source' by construction, both listings iterate Files::list. "
    "Does NOT decide the lower/upper bound relation between the ood listing and what the builder will run."
)
ASSUMPTIONS = ["a rolled-back transaction leaves no trace", "unwind edges excluded"]

QUERY = [r"@bin::ood::run", r"@bin::targets::run", r"@bin::sources::run"]


def run(ctx):
    prog = ctx.prog
    ctx.rule("R17.1", "the three query commands never commit: no ProcessTransaction::commit and no set_drop_behavior(Commit) reachable; init's committed SQL touches only Schema/Runid (and the one-time schema creation)")
    ctx.rule("R17.2", "the three query commands reach no filesystem mutation outside the state directory's own files")
    ctx.rule("R17.3", "redo-ood uses the builder's dirtiness routine with callbacks that do not save, and judges exactly the records for which is_target holds")
    ctx.rule("R17.4", "is_target is `is_generated and not is_source`; targets and sources both iterate Files::list")
    flt = txn.no_add_filter(prog)
    for q in QUERY:
        b = prog.one(q)
        over, got = txn.callbacks_override(prog, b)
        reach = ctx.cg.reachable([b.key], site_filter=flt, dyn_override=over)
        commits = [k for k in reach if k == "state::ProcessTransaction::commit"]
        setc = []
        for k in sorted(reach):
            bb = prog.bodies.get(k)
            if bb is None:
                continue
            bba = BA.of(bb)
            for i in bba.calls(r"state::ProcessTransaction::set_drop_behavior"):
                a = bb.blocks[i]["term"]["args"][1]
                v = (op_const(a) or {}).get("variant")
                if v is None and op_local(a) is not None:
                    d = bba.single_def(op_local(a))
                    if d and d[0] == "stmt" and d[3]["k"] == "agg":
                        v = d[3].get("variant")
                if v == "Commit":
                    setc.append((k, i))
        ctx.ob("R17.1", "%s|never-commits" % b.key, not commits and not setc, where=b.span,
               detail="no commit reachable (%d bodies searched; callbacks: %s)" % (len(reach), sorted(got.values()) if got else "default") if not commits and not setc else
               "a query command can commit: %s %s" % (commits, setc))
        found = []
        for k in sorted(ctx.cg.reachable([b.key], stop=frozenset(["helpers::unlink"]), dyn_override=over)):
            bb = prog.bodies.get(k)
            if bb is None:
                continue
            for i in BA.of(bb).all_calls():
                if is_mutator_call(bb.blocks[i]["term"]):
                    found.append((k, i))
        # the state directory's own files are created by these two (roles: schema/run-id set-up, lock file); the only
        # other mutation a query command may reach is inside a directory it has just created for itself with
        # tempfile::tempdir() (the links to the redo executables) - decided on the mutated path, not on the name of the
        # function that happens to contain the call
        allowed = {"state::ProcessState::init", "state::LockManager::open"}
        bad = [(k, i) for k, i in found if k not in allowed and not _inside_own_tempdir(prog.bodies[k], i)]
        ctx.ob("R17.2", "%s|no-project-file-mutation" % b.key, not bad, where=", ".join(ctx.where(prog.bodies[k], i) for k, i in bad[:3]),
               detail="mutators only in %s" % sorted({k for k, _ in found}) if not bad else "filesystem mutator reachable from a query command: %s" % sorted({k for k, _ in bad}))
    init = prog.one(r"state::ProcessState::init")
    muts = [s for (_, _, s, _) in str_consts(init) if sqlc.kind(s) in ("insert into", "insert or replace into", "update", "delete from")]
    tabs = sorted({sqlc.table(s) for s in muts})
    # inserts into Files happen only in the schema-creation branch (the //ALWAYS seed)
    iba = BA.of(init)
    files_blocks = [bb for (bb, _, s, _) in str_consts(init) if sqlc.kind(s).startswith("insert") and sqlc.table(s) == "files"]
    creates = sorted({bb for (bb, _, s, _) in str_consts(init) if sqlc.kind(s) == "create table"})
    ok = set(tabs) <= {"schema", "runid", "files"} and all(any(iba.dominates(c, f) for c in creates) for f in files_blocks) and "deps" not in tabs
    ctx.ob("R17.1", "init|committed-writes-touch-only-Schema/Runid", ok, where=init.span, detail="tables written by init: %s (Files only for the seed row next to the schema creation)" % tabs)

    O = prog.one(r"@bin::ood::run")
    oba = BA.of(O)
    over, got = txn.callbacks_override(prog, O)
    ctx.ob("R17.3", "%s|all-three-callbacks-replaced" % O.key, over is not None, where=O.span, detail="callbacks: %s" % got)
    for nm, ck in sorted(got.items()):
        r = ctx.cg.reachable([ck], indirect=False)
        bad = sorted(k for k in r if re.fullmatch(r"state::File::(save|set_checked_save|add_dep|zap_deps1|zap_deps2)|state::ProcessTransaction::(write|commit)", k))
        ctx.ob("R17.3", "%s|callback-%s-does-not-persist" % (O.key, nm), not bad, where=prog.bodies[ck].span if ck in prog.bodies else O.span,
               detail="callback reaches no database write" if not bad else "ood's %s callback persists state: %s" % (nm, bad))
    isd = oba.calls(r"deps::is_dirty")
    ist = oba.switches_on_call(r"state::File::is_target")
    lst = oba.calls(r"state::Files::list")
    ok = bool(isd) and bool(lst)
    # redo-ifchange's side of the comparison is a role, not a name: whatever decision callback (fn item or closure)
    # redo-ifchange hands to builder::run
    deciders = _ifchange_deciders(prog)
    ctx.ob("R17.3", "%s|shares-the-builder-routine" % O.key, ok and "deps::private_is_dirty" in ctx.cg.reachable([O.key]) and bool(deciders)
           and all("deps::is_dirty" in ctx.cg.reachable([k]) for k in deciders),
           where=O.span, detail="redo-ood and redo-ifchange's should_build both call deps::is_dirty (decision callback(s): %s)" % deciders)
    # the vector judged is filled only on the is_target == true edge: a bool branch whose tested value *is* the answer
    # of File::is_target (through `?`, moves, or a dispatching helper `Kind::Target.matches(f)` that was spliced in -
    # over feasible paths the other arms of such a dispatch on a constant are not code of this command), and every
    # push lies behind its true edge
    from core import FA
    ofa = FA.of(O)
    pushes = oba.calls(r"alloc::vec::Vec::push")
    ok = False
    for sw in sorted(oba.live):
        t = O.blocks[sw]["term"]
        if t["t"] != "switch" or t["discr_ty"] != "bool" or O.is_cleanup(sw):
            continue
        pl = op_place(t["discr"])
        if pl is None or pl["p"]:
            continue
        org = [o for o in common.value_origins(O, pl["l"]) if o[1] is None or o[1] in ofa.live]
        if not org or not all(o[0] in ("call", "callpay") and call_matches(o[2], r"state::File::is_target") for o in org):
            continue
        true_t = t["otherwise"]
        if pushes and all(ofa.edge_dominates((sw, true_t), p) for p in pushes):
            ok = True
    ctx.ob("R17.3", "%s|judges-exactly-the-targets" % O.key, ok, where=O.span, detail="only records with is_target() == true are collected and judged" if ok else "ood does not restrict itself to is_target records")

    from rules import dirt
    ctx.rule("R17.5", "the shared dirtiness routine consults the 'already checked' memo (redo-ood's in-memory set) only after the failed / never-built / changed-later-than-parent tests")
    dirt.memo_placement(ctx, "R17.5")
    IT = prog.one(r"state::File::is_target")
    tba = BA.of(IT)
    gsw = common.field_switches(IT, "state::File.is_generated")
    src = tba.calls(r"state::File::is_source")
    ok = False
    if len(gsw) == 1 and src:
        sw, t_t, f_t = gsw[0]
        falses = [i for i in common.ok_returns(IT) if any(s["s"] == "assign" and s["rv"]["k"] == "agg" and (op_const(s["rv"]["ops"][0]) or {}).get("bool") is False for s in IT.blocks[i]["stmts"])]
        not_gen_false = bool(falses) and all(tba.edge_dominates((sw, f_t), x) for x in falses)
        # on the generated side what is returned is the negation of is_source's answer, however it is spelled
        # (`.map(|b| !b)`, `Ok(!self.is_source(v)?)`, a match): every value assigned to the return place there
        # is either the error of `?` or reaches back to the is_source call through an odd number of `!`
        par = set()
        for i in sorted(tba.live):
            if IT.is_cleanup(i) or not tba.edge_dominates((sw, t_t), i):
                continue
            par |= _return_parities(prog, IT, i, r"state::File::is_source")
        negated = par == {1}
        ok = not_gen_false and all(tba.edge_dominates((sw, t_t), x) for x in src) and negated
    ctx.ob("R17.4", "is_target|generated-and-not-source", ok, where=IT.span, detail="is_target = if !is_generated {false} else {!is_source}" if ok else "is_target is not defined through is_source: the two listings can overlap")
    for q in (r"@bin::targets::run", r"@bin::sources::run"):
        b = prog.one(q)
        bba = BA.of(b)
        pred = "is_target" if "targets" in q else "is_source"
        ok = bool(bba.calls(r"state::Files::list")) and bool(common.calls_or_fnitem_calls(b, r"state::File::" + pred))
        prints = bba.calls(r"std::io::stdio::_print")
        ctx.ob("R17.4", "%s|lists-Files::list-filtered-by-%s" % (b.key, pred), ok and bool(prints), where=b.span, detail="iterates Files::list and prints records satisfying %s" % pred)
    fl = prog.one(r"state::Files::list")
    q = [s for (_, _, s, _) in str_consts(fl)]
    ok = any("from files order by name" in sqlc.norm(s) for s in q)
    ctx.ob("R17.4", "Files::list|one-ordered-query", ok, where=fl.span, detail="Files::list selects from Files ordered by name")

    # ---- R17.8 (F-X): the file-role classifier and the builder agree on what "modified by somebody else" means
    ctx.rule("R17.8", "File::is_source decides 'still as redo left it' with the builder's own override test (Stamp::detect_override on the recorded stamp and a fresh read_stamp) - sibling agreement: a stamp difference that the builder does not call an override (mode, owner, inode) and rebuilds through must not turn the target into a source for redo-ood / redo-targets")
    IS = prog.one(r"state::File::is_source")
    # closures built in is_source - its own, and those of helper predicates written out of it and spliced back in
    fam = [IS] + [prog.bodies[dk] for (_, _, _, dk, _) in closure_sites(IS) if dk in prog.bodies]
    fam += [b for b in prog.bodies.values() if b.key.startswith(IS.key + "::{closure") and b not in fam]
    sites = [(b, i) for b in fam for i in BA.of(b).calls(r"state::Stamp::detect_override")]
    reads = BA.of(IS).calls(r"state::File::read_stamp")
    ok = bool(sites) and bool(reads)
    if ok:
        # one operand is the recorded stamp (File.stamp, possibly handed to a closure by Option::map_or), the other the fresh one
        from core import taint as _taint
        fresh = _taint(IS, src_call=lambda t_: call_matches(t_, r"state::File::read_stamp"), mode="derived")
        ok = False
        for (b, i) in sites:
            t = b.blocks[i]["term"]
            if b.key == IS.key:
                ok = ok or any(op_local(a) in fresh or any(x in fresh for x in BA.of(b).ref_chain(op_local(a))) for a in t["args"] if op_local(a) is not None)
            else:
                # inside a closure of is_source: the fresh stamp arrives as a capture of a local that is `fresh` in the parent
                for (pbb, si, dl, dk, ops) in closure_sites(IS, b.key):
                    ok = ok or any(op_local(o) in fresh or any(x in fresh for x in BA.of(IS).ref_chain(op_local(o))) for o in ops if op_local(o) is not None)
    ctx.ob("R17.8", "File::is_source|same-override-test-as-the-builder", ok, where=IS.span,
           detail="is_source compares the recorded stamp with a fresh read_stamp through Stamp::detect_override" if ok else
           "is_source does not use Stamp::detect_override on a fresh stamp: a generated target whose stamp changed only in mode/owner/inode (chmod) is rebuilt by the next redo-ifchange but listed by redo-sources and missing from redo-ood / redo-targets")


def _ifchange_deciders(prog):
    """Keys of the bodies redo-ifchange passes to builder::run as the "should this be built" callback."""
    from facts import strip_generics
    out = []
    for b in prog.find(r"@bin::ifchange::.*"):
        for i in BA.of(b).calls(r"builder::run"):
            for g in b.blocks[i]["term"].get("gargs", []):
                k = g.get("fn") or g.get("closure")
                if k and strip_generics(k) in prog.bodies:
                    out.append(strip_generics(k))
    return sorted(set(out))


def _inside_own_tempdir(body, bb):
    """Is the path the mutator call at `bb` writes to computed from a temporary directory this body created itself
    (`tempfile::tempdir()` / `TempDir::path()`)?  Destination operand: the link name of symlink/rename-like calls
    (second path), else the first argument."""
    from core import taint
    t = body.blocks[bb]["term"]
    two = call_matches(t, r".*(symlink|symlinkat|rename|linkat|hard_link|copy)")
    idx = 1 if two and len(t["args"]) > 1 else 0
    l = op_local(t["args"][idx]) if t["args"] else None
    if l is None:
        return False
    made = BA.of(body).calls(r"tempfile::(dir::)?tempdir|tempfile::(dir::)?tempdir_in|tempfile::Builder::tempdir")
    if not made:
        return False
    tnt = taint(body, src_call=lambda c: call_matches(c, r"tempfile::(dir::)?tempdir|tempfile::Builder::tempdir"), mode="derived")
    ba = BA.of(body)
    return l in tnt or any(x in tnt for x in ba.ref_chain(l))


def _closure_parity(body):
    """A closure `|b| <b through n nots>`: n mod 2, or None if the result is anything else."""
    ba = BA.of(body)
    todo = [(0, 0)]
    seen = set()
    out = set()
    while todo:
        l, par = todo.pop()
        if (l, par) in seen:
            continue
        seen.add((l, par))
        if 2 <= l <= body.arg_count and not ba.defs.get(l):
            out.add(par)
            continue
        ds = ba.defs.get(l, [])
        if not ds:
            return None
        for d in ds:
            if d[0] != "stmt":
                return None
            rv = d[3]
            if rv["k"] == "use" and op_place(rv["op"]) is not None and not op_place(rv["op"])["p"]:
                todo.append((op_local(rv["op"]), par))
            elif rv["k"] == "unop" and rv["op"] == "Not" and op_place(rv["a"]) is not None and not op_place(rv["a"])["p"]:
                todo.append((op_local(rv["a"]), par ^ 1))
            else:
                return None
    return out.pop() if len(out) == 1 else None


def _return_parities(prog, body, bb, src_rx):
    """For the values block `bb` puts into the return place: the set of parities (number of `!` mod 2) with which
    the result of a call matching src_rx arrives; 'other' for any value that is something else. The error
    residual of `?` contributes nothing (it is not a verdict)."""
    from facts import strip_generics
    ba = BA.of(body)
    out = set()
    todo = []
    blk = body.blocks[bb]
    for s in blk["stmts"]:
        if s["s"] == "assign" and s["place"]["l"] == 0 and not s["place"]["p"]:
            todo.append((("rv", s["rv"]), 0))
    t = blk["term"]
    if t["t"] == "call" and t["dest"]["l"] == 0 and not t["dest"]["p"]:
        todo.append((("call", t), 0))
    seen = set()
    n = 0
    while todo and n < 400:
        n += 1
        (kind, x), par = todo.pop()
        if kind == "local":
            if (x, par) in seen:
                continue
            seen.add((x, par))
            ds = [d for d in ba.defs.get(x, []) if d[0] in ("stmt", "call", "yield")]
            if not ds:
                out.add("other")
            for d in ds:
                if d[0] == "stmt":
                    todo.append((("rv", d[3]), par))
                elif d[0] == "call":
                    todo.append((("call", d[2]), par))
                else:
                    out.add("other")
            continue
        if kind == "rv":
            rv = x
            if rv["k"] == "use":
                p = op_place(rv["op"])
                if p is not None and all(e.startswith("as:") or e.startswith("f:core::") for e in p["p"]):
                    todo.append((("local", p["l"]), par))
                else:
                    out.add("other")
            elif rv["k"] == "unop" and rv["op"] == "Not" and op_place(rv["a"]) is not None and not op_place(rv["a"])["p"]:
                todo.append((("local", op_local(rv["a"])), par ^ 1))
            elif rv["k"] == "agg" and rv.get("adt") in ("core::result::Result", "core::option::Option") and rv.get("variant") in ("Ok", "Some") and len(rv["ops"]) == 1 \
                    and op_place(rv["ops"][0]) is not None and not op_place(rv["ops"][0])["p"]:
                todo.append((("local", op_local(rv["ops"][0])), par))
            elif rv["k"] == "agg" and rv.get("adt") == "core::result::Result" and rv.get("variant") == "Err":
                pass        # an error handed on by an explicit `Err(e) => Err(e)` is no verdict either
            else:
                out.add("other")
            continue
        t = x
        if call_matches(t, src_rx):
            out.add(par)
        elif call_matches(t, r"(<.* as )?core::ops::try_trait::Try>?::branch") and op_local(t["args"][0]) is not None:
            todo.append((("local", op_local(t["args"][0])), par))
        elif call_matches(t, r"(<.* as )?core::ops::try_trait::FromResidual(<.*>)?>?::from_residual"):
            pass
        elif call_matches(t, r"core::result::Result::map|core::option::Option::map") and len(t["args"]) == 2 and op_local(t["args"][0]) is not None:
            cp = None
            for g in t.get("gargs", []):
                if "closure" in g:
                    cb = prog.bodies.get(strip_generics(g["closure"]))
                    cp = _closure_parity(cb) if cb is not None else None
            if cp is None:
                out.add("other")
            else:
                todo.append((("local", op_local(t["args"][0])), par ^ cp))
        else:
            out.add("other")
    return out
