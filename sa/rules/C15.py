"""C15 - Every spelling of a path denotes the same target (structural part)."""
import re

import anchors
from core import (BA, call_matches, callee_paths, op_local, op_place, op_const, const_int, const_str, place_fields, taint, str_consts)
from rules import common, sqlc
from rules.C06 import backward_direct, env_setters
from rules.C07 import dedupe_rule

EXPLANATION = (
    "Static who-may / value-flow rules: every Files-table lookup or insert by name happens in File::from_name with a key "
    "that passed state::relpath(name, env.base()) (or is the //ALWAYS constant); relpath canonicalises the directory part "
    "(realdirpath) and then cleans (normpath) both operands before comparing components and joins a relative path to the "
    "cwd first; every lock id derives from a File::id() (optionally + LOG_LOCK_MAGIC) or is the probe constant 0; the "
    "per-command-line dedupe uses the canonical identity; a RedoPath cannot be made from unvalidated bytes without "
    "`unsafe`; base discovery exports REDO_BASE for children. Does NOT decide idempotence/correctness of normpath, "
    "relpath or the join round trip as string functions (algebraic laws: enumeration or proof families)."
)
ASSUMPTIONS = ["unwind edges excluded"]


def run(ctx):
    prog = ctx.prog
    ctx.rule("R15.1", "Files rows are looked up / inserted by name only in File::from_name, with the key derived from state::relpath(name, env.base()) or the //ALWAYS constant")
    ctx.rule("R15.2", "state::relpath: both operands pass realdirpath then helpers::normpath before the component comparison; a relative path is first joined to the cwd")
    ctx.rule("R15.3", "every ProcessState::new_lock / Lock::new id derives from File::id() (optionally + LOG_LOCK_MAGIC) or is the probe constant 0")
    ctx.rule("R15.4", "one build per record per command line: dedupe keyed on the canonical identity (= R7.1)")
    ctx.rule("R15.5", "RedoPath/RedoPathBuf construction from unvalidated data is `unsafe`; validated constructors are the only safe ones")
    ctx.rule("R15.6", "Env::init exports the discovered base (REDO_BASE) on the not-inherited side so that children agree")

    by_name = {}
    for b in prog.bodies.values():
        for (_, _, s, _) in str_consts(b):
            n = sqlc.norm(s)
            if ("from files where name" in n) or (sqlc.kind(s).startswith("insert") and sqlc.table(s) == "files"):
                by_name.setdefault(b.key, []).append(n)
    allowed = {"state::File::from_name": "the one name->row function", "state::ProcessState::init": "seed row for //ALWAYS"}
    for k in sorted(by_name):
        ctx.ob("R15.1", "who-keys-Files-by-name|%s" % k, k in allowed, where=prog.bodies[k].span, detail="audited: %s" % allowed[k] if k in allowed else "Files is keyed by name outside File::from_name: %s" % by_name[k][:1])
    ctx.floor("R15.1", "bodies keying Files by name", len(by_name), 2)
    fn = prog.one(r"state::File::from_name")
    fba = BA.of(fn)
    rel = fba.calls(r"state::relpath")
    qs = fba.calls(r"rusqlite::Connection::query_row") + fba.calls(r"state::ProcessTransaction::write")
    ok = False
    det = "relpath call not found in from_name"
    if rel:
        t = fn.blocks[rel[0]]["term"]
        a1, _, org1 = op_local(t["args"][1]), None, None
        sl, org, _ = backward_direct(fn, op_local(t["args"][1]))
        base_ok = any(o[0] == "call" and call_matches(o[2], r"env::Env::base") for o in org)
        sl0, org0, _ = backward_direct(fn, op_local(t["args"][0]))
        name_ok = any(l == 2 for l in sl0) or any(o[0] == "call" and any(op_local(a) == 2 for a in o[2]["args"]) for o in org0)
        # the normalized key: either relpath-derived or the ALWAYS constant; every query parameter derives from it
        key_t = taint(fn, seeds={t["dest"]["l"]}, mode="derived")
        always = any(nm and "ALWAYS" in nm for (_, _, s, nm) in str_consts(fn))
        params_ok = True
        for q in qs:
            qt = fn.blocks[q]["term"]
            pa = [a for a, ty in zip(qt["args"], qt.get("arg_tys", [])) if "ToSql" in ty or "[&dyn" in ty]
            for a in pa:
                l = op_local(a)
                if l is not None and l not in key_t:
                    params_ok = False
        ok = base_ok and name_ok and always and params_ok
        det = "key = relpath(name, env.base()) (or //ALWAYS); all %d statement parameter lists derive from it" % len(qs)
    ctx.ob("R15.1", "from_name|key-is-relpath(name,base)", ok, where=fn.span, detail=det)

    rp = prog.one(r"state::relpath")
    rba = BA.of(rp)
    rd = rba.calls(r"state::realdirpath")
    np = rba.calls(r"helpers::normpath")
    comps = rba.calls(r"std::path::Path::components")
    ok = len(rd) == 2 and len(np) == 2 and bool(comps)
    if ok:
        ok = all(any(rba.dominates(r, n) for r in rd) for n in np) and all(all(rba.dominates(n, c) for n in np) for c in comps)
        # normpath's operand derives from a realdirpath result
        for n in np:
            sl, org, _ = backward_direct(rp, op_local(rp.blocks[n]["term"]["args"][0]), depth=60)
            ok = ok and any(o[0] == "call" and call_matches(o[2], r"state::realdirpath") for o in org)
    ctx.ob("R15.2", "relpath|realdirpath-then-normpath-both-operands", ok, where=rp.span, detail="2x realdirpath -> normpath, all before components()" if ok else "an operand is compared without canonicalising its directory part and cleaning it")
    ab = rba.switches_on_call(r"std::path::Path::is_absolute")
    ok = False
    for (sw, t_t, f_t, cbb) in ab:
        cd = [i for i in rba.calls(r"std::env::current_dir") if rba.edge_dominates((sw, f_t), i)]
        jn = [i for i in rba.calls(r"std::path::Path::join") if rba.edge_dominates((sw, f_t), i)]
        if cd and jn:
            ok = True
    ctx.ob("R15.2", "relpath|relative-joined-to-cwd", ok, where=rp.span, detail="a relative `t` is joined to the current directory first")

    n = 0
    for b in prog.bodies.values():
        ba = BA.of(b)
        for k, i in common.ordinal_keys([("new_lock", i) for i in ba.calls(r"state::ProcessState::new_lock|state::Lock::new")]):
            if b.key == "state::ProcessState::new_lock":
                continue
            t = b.blocks[i]["term"]
            a = t["args"][1]
            n += 1
            c = const_int(a)
            if c is not None:
                ctx.ob("R15.3", "%s|%s|id" % (b.key, k), c == 0, where=ctx.where(b, i), detail="constant lock id %s (0 = broken-locks probe)" % c)
                continue
            sl, org, ar = backward_direct(b, op_local(a), depth=120)
            from_id = any(o[0] == "call" and call_matches(o[2], r"state::File::id|alloc::collections::vec_deque::VecDeque::pop_front") for o in org)
            params = [l for l in sl if 1 <= l <= b.arg_count and b.locals[l] in ("i64", "core::option::Option<i64>")]
            magic_ok = True
            if ar:
                # arithmetic allowed only with LOG_LOCK_MAGIC
                named = set()
                for l in sl:
                    for d in ba.defs.get(l, []):
                        if d[0] == "stmt":
                            for cc in __import__("core").rvalue_consts(d[3]):
                                if "named" in cc:
                                    named.add(cc["named"])
                magic_ok = any("LOG_LOCK_MAGIC" in x for x in named) and all(x.startswith("Add") for x in ar)
            ok = (from_id or bool(params)) and magic_ok
            ctx.ob("R15.3", "%s|%s|id" % (b.key, k), ok, where=ctx.where(b, i),
                   detail="lock id derives from %s%s" % ("File::id()" if from_id else "an i64 parameter (fid)", " + LOG_LOCK_MAGIC" if ar else "") if ok else "lock id is not derived from a file id (origins: %s, arithmetic: %s)" % ([common.short(callee_paths(o[2])[0]) for o in org if o[0] == "call"], ar))
    ctx.floor("R15.3", "lock creation sites", n, 6)

    dedupe_rule(ctx, "R15.4")

    unchecked = [k for k in prog.fns if re.search(r"helpers::RedoPath(Buf)?::from_[a-z_]*unchecked", k)]
    ctx.floor("R15.5", "unchecked RedoPath constructors", len(unchecked), 3)
    for k in sorted(unchecked):
        ctx.ob("R15.5", "unsafe|%s" % k, prog.fns[k]["safety"].lower().find("unsafe") >= 0, where=prog.fns[k]["line"], detail="safety: %s" % prog.fns[k]["safety"])
    for nm in ("helpers::RedoPath", "helpers::RedoPathBuf"):
        a = prog.adts.get(nm)
        ok = a is not None and all(f["vis"] not in ("pub",) for v in a["variants"] for f in v["fields"])
        ctx.ob("R15.5", "private-fields|%s" % nm, ok, where=a["line"] if a else "", detail="tuple field is not public")

    ei = prog.one(r"env::Env::init")
    eba = BA.of(ei)
    st = [i for (b, i) in env_setters(prog, "REDO_BASE") if b.key == ei.key]
    ok = bool(st)
    ctx.ob("R15.6", "Env::init|exports-REDO_BASE", ok, where=ctx.where(ei, st[0]) if st else ei.span, detail="Env::init sets REDO_BASE for its children" if ok else "the discovered base is not exported: children may compute a different base")
    cp = eba.calls(r"common_path::common_path_all")
    cd = eba.calls(r"std::env::current_dir")
    ok = False
    if cp and cd:
        # the iterator handed to common_path_all is built from the target directories *chained with* the cwd itself
        cwd_direct = taint(ei, seeds={ei.blocks[cd[0]]["term"]["dest"]["l"]}, mode="direct", through=re.compile(r"core::iter::sources::once::once|core::convert::AsRef::as_ref"))
        seen_calls = set()
        todo = [op_local(ei.blocks[cp[0]]["term"]["args"][0])]
        while todo:
            l = todo.pop()
            if l is None:
                continue
            sl, org, _ = backward_direct(ei, l, depth=60)
            for o in org:
                if o[0] != "call" or o[1] in seen_calls:
                    continue
                seen_calls.add(o[1])
                if call_matches(o[2], r"core::iter::sources::once::once"):
                    a0 = op_local(o[2]["args"][0])
                    if a0 in cwd_direct or any(x in cwd_direct for x in eba.ref_chain(a0)):
                        ok = True
                if call_matches(o[2], r"core::iter::traits::iterator::Iterator::(chain|map|cloned|copied)"):
                    todo.extend(op_local(a) for a in o[2]["args"])
        # alternative idiom: the cwd itself is pushed into the collection of directories
        for i in eba.calls(r"alloc::vec::Vec::push"):
            a1 = op_local(ei.blocks[i]["term"]["args"][1])
            if a1 is not None and (a1 in cwd_direct or any(x in cwd_direct for x in eba.ref_chain(a1))) and eba.path([i], cp):
                ok = True
    ctx.ob("R15.6", "Env::init|base-covers-cwd-and-targets", ok, where=ctx.where(ei, cp[0]) if cp else ei.span,
           detail="the common prefix is taken over the target directories *and* the current directory" if ok else
           "the base is computed from the target directories only: a command naming just a sub-directory target creates a second .redo below the project top (two records, two locks for one file)")
    if st:
        v = op_local(ei.blocks[st[0]]["term"]["args"][1])
        sl, org, _ = backward_direct(ei, v, depth=150)
        ok = any(o[0] == "call" and call_matches(o[2], r"std::path::Path::(parent|ancestors|join|exists)|common_path::.*|std::fs::canonicalize|std::path::Path::canonicalize|std::env::current_dir") for o in org) or len(sl) > 3
        ctx.ob("R15.6", "Env::init|REDO_BASE-is-the-discovered-base", ok, where=ctx.where(ei, st[0]), detail="the exported value derives from the directory walk")
