"""C15 - Every spelling of a path denotes the same target (structural part)."""
import re

import anchors
from core import (BA, call_matches, callee_paths, op_local, op_place, op_const, const_int, const_str, place_fields, taint, str_consts, closure_sites)
from facts import strip_generics
from rules import common, sqlc
from rules.C06 import backward_direct, env_setters
from rules.C07 import dedupe_rule

EXPLANATION = (
    "Static who-may / value-flow rules: every Files-table lookup or insert by name happens in File::from_name with a key "
    "that passed state::relpath(name, env.base()) (or is the //ALWAYS constant); relpath canonicalises the directory part "
    "(realdirpath) and then cleans (normpath) both operands before comparing components and joins a relative path to the "
    "cwd first; every lock id derives from a File::id() (optionally + LOG_LOCK_MAGIC) or is the probe constant 0; the "
    "per-command-line dedupe uses the canonical identity; a RedoPath cannot be made from unvalidated bytes without "
    "`unsafe`; base discovery exports REDO_BASE for children. Does NOT decide idempotence/correctness of normpath, "
    "relpath or the join round trip as string functions (algebraic laws: enumeration or proof families)."
)
ASSUMPTIONS = ["unwind edges excluded"]


def run(ctx):
    prog = ctx.prog
    ctx.rule("R15.1", "Files rows are looked up / inserted by name only in File::from_name, with the key derived from state::relpath(name, env.base()) or the //ALWAYS constant")
    ctx.rule("R15.2", "state::relpath: both operands pass realdirpath then helpers::normpath before the component comparison; a relative path is first joined to the cwd")
    ctx.rule("R15.3", "every ProcessState::new_lock / Lock::new id derives from File::id() (optionally + LOG_LOCK_MAGIC) or is the probe constant 0")
    ctx.rule("R15.4", "one build per record per command line: dedupe keyed on the canonical identity (= R7.1)")
    ctx.rule("R15.5", "RedoPath/RedoPathBuf construction from unvalidated data is `unsafe`; validated constructors are the only safe ones")
    ctx.rule("R15.6", "Env::init exports the discovered base (REDO_BASE) on the not-inherited side so that children agree")
    ctx.rule("R15.9", "state::realdirpath resolves symbolic links in the directory part on every path: no lexical shortcut, and where the directory does not exist yet the existing part of it is still canonicalised")

    by_name = {}
    for b in prog.bodies.values():
        for (_, _, s, _) in str_consts(b):
            n = sqlc.norm(s)
            if ("from files where name" in n) or (sqlc.kind(s).startswith("insert") and sqlc.table(s) == "files"):
                by_name.setdefault(b.key, []).append(n)
    # WHO keys Files by name: the seed row of init is audited by hand; any other body that does so - File::from_name
    # today; equally a caller that uses from_name's own normalise-then-look-up steps directly - must itself key the
    # table by relpath(<a parameter>, env.base()) (or the //ALWAYS constant) in every statement (FLOW, _key_is_relpath):
    # the condition is on the key, not on the name of the function that holds the statement
    audited = {"state::ProcessState::init": "seed row for //ALWAYS"}
    fn = prog.one(r"state::File::from_name")
    for k in sorted(by_name):
        if k in audited:
            ctx.ob("R15.1", "who-keys-Files-by-name|%s" % k, True, where=prog.bodies[k].span, detail="audited: %s" % audited[k])
            continue
        ok, det = _key_is_relpath(prog.bodies[k])
        ctx.ob("R15.1", "who-keys-Files-by-name|%s" % k, ok, where=prog.bodies[k].span,
               detail=("the one name->row function" if k == fn.key else "keys Files by name like File::from_name: " + det) if ok else
               "Files is keyed by name outside File::from_name without the canonical key (%s): %s" % (det, by_name[k][:1]))
    ctx.floor("R15.1", "bodies keying Files by name", len(by_name), 2)
    ok, det = _key_is_relpath(fn)
    ctx.ob("R15.1", "from_name|key-is-relpath(name,base)", ok, where=fn.span, detail=det)

    rp = prog.one(r"state::relpath")
    rba = BA.of(rp)
    rd = rba.calls(r"state::realdirpath")
    np = rba.calls(r"helpers::normpath")
    comps = rba.calls(r"std::path::Path::components")
    # FLOW, per compared value: every value whose components() are compared is (only) a normpath result, and every
    # normpath operand is (only) a realdirpath result; the realdirpath operands cover both parameters. Stated on the
    # values, so it does not matter how many call sites there are (one realdirpath+normpath pair per branch, a helper
    # spliced in three times) nor whether one call dominates the other
    ok = bool(rd) and bool(np) and bool(comps)
    why = "realdirpath / normpath / components() calls not all present"
    if ok:
        reached_rd = set()

        def only_calls(org, rx):
            return bool(org) and all(k == "call" and call_matches(t, rx) for (k, bb_, t) in org)

        def names(org):
            return sorted({common.short(callee_paths(t)[0]) if k == "call" else k for (k, bb_, t) in org})
        for c in comps:
            # (common.flow_origins: direct steps, Ok/Err halves of the Results on the way kept apart)
            org = common.flow_origins(rp, op_local(rp.blocks[c]["term"]["args"][0]))
            if not only_calls(org, r"helpers::normpath"):
                ok, why = False, "a compared value is not (only) a normpath result: %s" % names(org)
                break
            for (k, nbb, nt) in org:
                org2 = common.flow_origins(rp, op_local(nt["args"][0]))
                if not only_calls(org2, r"state::realdirpath"):
                    ok, why = False, "a normpath operand is not (only) a realdirpath result: %s" % names(org2)
                    break
                reached_rd.update(bb_ for (k2, bb_, t2) in org2)
            if not ok:
                break
        if ok:
            # "then": symlinks are resolved on the spelling as given - nothing that realdirpath is applied to has been
            # cleaned lexically before (`a/link/../b` collapsed to `a/b` names another file than the kernel resolves)
            cleaned = taint(rp, src_call=lambda t: call_matches(t, r"helpers::normpath"), mode="derived")
            for r in sorted(reached_rd):
                a = op_local(rp.blocks[r]["term"]["args"][0])
                if a in cleaned or any(x in cleaned for x in rba.ref_chain(a)):
                    ok, why = False, "a path is cleaned by normpath before realdirpath resolves its directory part"
        if ok:
            # both operands: some canonicalised value comes from each path parameter of relpath
            for pn in range(1, rp.arg_count + 1):
                tl = taint(rp, seeds={pn}, mode="derived")
                if not any(op_local(rp.blocks[r]["term"]["args"][0]) in tl or any(x in tl for x in rba.ref_chain(op_local(rp.blocks[r]["term"]["args"][0]))) for r in reached_rd):
                    ok, why = False, "parameter %d of relpath is compared without passing realdirpath and normpath" % pn
    ctx.ob("R15.2", "relpath|realdirpath-then-normpath-both-operands", ok, where=rp.span, detail="every compared value is normpath(realdirpath(..)) of an operand; both operands covered" if ok else "an operand is compared without canonicalising its directory part and cleaning it (%s)" % why)
    ab = rba.switches_on_call(r"std::path::Path::is_absolute")
    ok = False
    for (sw, t_t, f_t, cbb) in ab:
        cd = [i for i in rba.calls(r"std::env::current_dir") if rba.edge_dominates((sw, f_t), i)]
        jn = [i for i in rba.calls(r"std::path::Path::join") if rba.edge_dominates((sw, f_t), i)]
        if cd and jn:
            ok = True
    ctx.ob("R15.2", "relpath|relative-joined-to-cwd", ok, where=rp.span, detail="a relative `t` is joined to the current directory first")

    n = 0
    for b in prog.bodies.values():
        ba = BA.of(b)
        for k, i in common.ordinal_keys([("new_lock", i) for i in ba.calls(r"state::ProcessState::new_lock|state::Lock::new")]):
            if b.key == "state::ProcessState::new_lock":
                continue
            t = b.blocks[i]["term"]
            a = t["args"][1]
            n += 1
            c = const_int(a)
            if c is not None:
                ctx.ob("R15.3", "%s|%s|id" % (b.key, k), c == 0, where=ctx.where(b, i), detail="constant lock id %s (0 = broken-locks probe)" % c)
                continue
            from_id, params, ar, named, org = _lock_id_sources(prog, b, op_local(a))
            magic_ok = True
            if ar:
                # arithmetic allowed only with LOG_LOCK_MAGIC
                magic_ok = any("LOG_LOCK_MAGIC" in x for x in named) and all(x.startswith("Add") for x in ar)
            ok = (from_id or bool(params)) and magic_ok
            ctx.ob("R15.3", "%s|%s|id" % (b.key, k), ok, where=ctx.where(b, i),
                   detail="lock id derives from %s%s" % ("File::id()" if from_id else "an i64 parameter (fid)", " + LOG_LOCK_MAGIC" if ar else "") if ok else "lock id is not derived from a file id (origins: %s, arithmetic: %s)" % ([common.short(callee_paths(o[2])[0]) for o in org if o[0] == "call"], ar))
    ctx.floor("R15.3", "lock creation sites", n, 6)

    dedupe_rule(ctx, "R15.4")

    unchecked = [k for k in prog.fns if re.search(r"helpers::RedoPath(Buf)?::from_[a-z_]*unchecked", k)]
    ctx.floor("R15.5", "unchecked RedoPath constructors", len(unchecked), 3)
    for k in sorted(unchecked):
        ctx.ob("R15.5", "unsafe|%s" % k, prog.fns[k]["safety"].lower().find("unsafe") >= 0, where=prog.fns[k]["line"], detail="safety: %s" % prog.fns[k]["safety"])
    for nm in ("helpers::RedoPath", "helpers::RedoPathBuf"):
        a = prog.adts.get(nm)
        ok = a is not None and all(f["vis"] not in ("pub",) for v in a["variants"] for f in v["fields"])
        ctx.ob("R15.5", "private-fields|%s" % nm, ok, where=a["line"] if a else "", detail="tuple field is not public")

    ei = prog.one(r"env::Env::init")
    eba = BA.of(ei)
    st = [i for (b, i) in env_setters(prog, "REDO_BASE") if b.key == ei.key]
    ok = bool(st)
    ctx.ob("R15.6", "Env::init|exports-REDO_BASE", ok, where=ctx.where(ei, st[0]) if st else ei.span, detail="Env::init sets REDO_BASE for its children" if ok else "the discovered base is not exported: children may compute a different base")
    cp = eba.calls(r"common_path::common_path_all")
    cd = eba.calls(r"std::env::current_dir")
    ok = False
    if cp and cd:
        # the iterator handed to common_path_all is built from the target directories *chained with* the cwd itself
        cwd_direct = taint(ei, seeds={ei.blocks[cd[0]]["term"]["dest"]["l"]}, mode="direct", through=re.compile(r"core::iter::sources::once::once|core::convert::AsRef::as_ref"))
        seen_calls = set()
        todo = [op_local(ei.blocks[cp[0]]["term"]["args"][0])]
        while todo:
            l = todo.pop()
            if l is None:
                continue
            sl, org, _ = backward_direct(ei, l, depth=60)
            for o in org:
                if o[0] != "call" or o[1] in seen_calls:
                    continue
                seen_calls.add(o[1])
                if call_matches(o[2], r"core::iter::sources::once::once"):
                    a0 = op_local(o[2]["args"][0])
                    if a0 in cwd_direct or any(x in cwd_direct for x in eba.ref_chain(a0)):
                        ok = True
                if call_matches(o[2], r"core::iter::traits::iterator::Iterator::(chain|map|cloned|copied)"):
                    todo.extend(op_local(a) for a in o[2]["args"])
        # alternative idiom: the cwd itself is pushed into the collection of directories
        for i in eba.calls(r"alloc::vec::Vec::push"):
            a1 = op_local(ei.blocks[i]["term"]["args"][1])
            if a1 is not None and (a1 in cwd_direct or any(x in cwd_direct for x in eba.ref_chain(a1))) and eba.path([i], cp):
                ok = True
    ctx.ob("R15.6", "Env::init|base-covers-cwd-and-targets", ok, where=ctx.where(ei, cp[0]) if cp else ei.span,
           detail="the common prefix is taken over the target directories *and* the current directory" if ok else
           "the base is computed from the target directories only: a command naming just a sub-directory target creates a second .redo below the project top (two records, two locks for one file)")
    if st:
        v = op_local(ei.blocks[st[0]]["term"]["args"][1])
        sl, org, _ = backward_direct(ei, v, depth=150)
        ok = any(o[0] == "call" and call_matches(o[2], r"std::path::Path::(parent|ancestors|join|exists)|common_path::.*|std::fs::canonicalize|std::path::Path::canonicalize|std::env::current_dir") for o in org) or len(sl) > 3
        ctx.ob("R15.6", "Env::init|REDO_BASE-is-the-discovered-base", ok, where=ctx.where(ei, st[0]), detail="the exported value derives from the directory walk")
    # ---- R15.10 (F-W): the directories that decide where the state directory goes are cleaned spellings
    ctx.rule("R15.10", "Env::init: every target directory that enters the common-prefix computation of the project base has passed helpers::normpath (abs_path alone keeps `sub/../x`, whose prefix with the cwd is `sub`)")
    if cp:
        JOIN = r"helpers::abs_path|std::path::Path::join"
        CLEAN = r"helpers::normpath|std::path::Path::canonicalize|std::fs::canonicalize|state::realdirpath"

        def joined_then_cleaned(body, v):
            """(is a directory made absolute here, was cleaned *after* it was anchored): the value goes back to a cleaning
            call whose operand already was the joined path, and no further join is applied to the cleaned value
            (`abs_path(cwd, normpath(par))` keeps a leading `..`: `<cwd>/..` shares every component with the cwd)."""
            bba = BA.of(body)
            joined_t = taint(body, src_call=lambda t_: call_matches(t_, JOIN), mode="derived")
            inj = lambda l: l is not None and (l in joined_t or any(x in joined_t for x in bba.ref_chain(l)))
            if not inj(v):
                return False, False
            good = [c for c in bba.calls(CLEAN) if any(inj(op_local(a_)) for a_ in body.blocks[c]["term"]["args"])]
            if not good:
                return True, False
            ct = taint(body, seeds={body.blocks[c]["term"]["dest"]["l"] for c in good}, mode="derived")
            inc = lambda l: l is not None and (l in ct or any(x in ct for x in bba.ref_chain(l)))
            if not inc(v):
                return True, False
            for j in bba.calls(JOIN):
                tj = body.blocks[j]["term"]
                if any(inc(op_local(a_)) for a_ in tj["args"]):
                    after = taint(body, seeds={tj["dest"]["l"]}, mode="derived")
                    if v in after or any(x in after for x in bba.ref_chain(v)):
                        return True, False
            return True, True

        cwd_l = {ei.blocks[c]["term"]["dest"]["l"] for c in cd}
        cwd_direct2 = taint(ei, seeds=cwd_l, mode="direct", through=re.compile(r"core::iter::sources::once::once|core::convert::AsRef::as_ref")) if cwd_l else set()
        n = 0
        sites = []
        for i in [i for i in eba.calls(r"alloc::vec::Vec::push") if eba.path([i], cp) is not None]:
            a1 = op_local(ei.blocks[i]["term"]["args"][1])
            if a1 is None or ei.locals[a1] not in ("std::path::PathBuf", "alloc::borrow::Cow<'_, std::path::Path>", "&std::path::Path"):
                continue
            if a1 in cwd_direct2 or any(x in cwd_direct2 for x in eba.ref_chain(a1)):
                continue    # the cwd itself (already canonical: getcwd)
            sites.append((ei, a1, ctx.where(ei, i)))
        # the same collection built by an iterator adapter: the closure's result is the directory
        cp_args = {op_local(a_) for c in cp for a_ in ei.blocks[c]["term"]["args"] if op_local(a_) is not None}
        for (bb_, j_, dl, ck, _) in closure_sites(ei):
            cb = prog.bodies.get(ck)
            if cb is None or cb.kind.lower() != "closure":
                continue
            users = [c for c in eba.all_calls() if any(op_local(a_) == dl or dl in eba.ref_chain(op_local(a_)) for a_ in ei.blocks[c]["term"]["args"] if op_local(a_) is not None)]
            flows = False
            for c in users:
                tt = taint(ei, seeds={ei.blocks[c]["term"]["dest"]["l"]}, mode="derived")
                if any(a_ in tt or any(x in tt for x in eba.ref_chain(a_)) for a_ in cp_args):
                    flows = True
            if flows:
                sites.append((cb, 0, cb.span))
        for (body_, v_, where_) in sites:
            is_dir, cleaned = joined_then_cleaned(body_, v_)
            if not is_dir:
                continue    # not a target directory made absolute here
            n += 1
            ctx.ob("R15.10", "Env::init|target-dir#%d|cleaned-before-common-prefix" % n, cleaned, where=where_,
                   detail="the target's directory is anchored at the cwd and then cleaned (normpath) before it is compared with the others and the cwd" if cleaned else
                   "an uncleaned spelling enters the common prefix: `cd sub && redo ../x/a` in a project without .redo puts the state directory into sub/, where no other spelling of x/a finds it")
        ctx.floor("R15.10", "target directories entering the common prefix in Env::init", n, 1)
    realdirpath_rules(ctx, "R15.9")
    dangling_link_rule(ctx, "R15.11")


def realdirpath_rules(ctx, rid):
    """R15.9: inside state::realdirpath (the function that makes one name out of every spelling of a directory):
    (a) every path on which the name has a directory part passes a canonicalize() call - no lexical shortcut;
    (b) where canonicalize() reports NotFound (the directory does not exist yet) the answer is still computed from a
        canonicalize() of the part that does exist (F-V): otherwise the name of link/new/x changes the moment `new` is made."""
    prog = ctx.prog
    rd = prog.one(r"state::realdirpath")
    rba = BA.of(rd)
    CANON = r"std::path::Path::canonicalize|std::fs::canonicalize"
    helpers_ = sorted(k for k, b_ in prog.bodies.items() if k.startswith("state::") and k != rd.key and BA.of(b_).calls(CANON))
    canon = rba.calls(CANON + "".join("|" + re.escape(k) for k in helpers_))
    ctx.floor(rid, "canonicalize calls in realdirpath", len(canon), 1)
    if not canon:
        return

    def is_dot_path(l):
        sl, org, _ = backward_direct(rd, l, depth=20)
        for o in org:
            if o[0] == "call" and call_matches(o[2], r"std::path::Path::new") and o[2]["args"]:
                a = o[2]["args"][0]
                if const_str(a) == ".":
                    return True
                la = op_local(a)
                if la is not None:
                    for x in [la] + list(rba.ref_chain(la)):
                        d = rba.single_def(x)
                        if d and d[0] == "stmt" and d[3]["k"] == "use" and const_str(d[3]["op"]) == ".":
                            return True
        return False
    dot_edges = []
    for (sw, t_t, f_t, cbb) in rba.switches_on_call(r".*PartialEq.*::(eq|ne)"):
        t = rd.blocks[cbb]["term"]
        if any(op_local(a) is not None and is_dot_path(op_local(a)) for a in t["args"]):
            ne = any(q.endswith("::ne") for q in callee_paths(t))
            dot_edges.append((sw, f_t if ne else t_t))
    # the other way to learn that a name has no directory part: the search for its last separator found none
    # (`None` of an iterator search whose predicate is std::path::is_separator, tested directly or through `?`)
    def _sep_closure(t):
        for a in t["args"]:
            la = op_local(a)
            if la is None:
                continue
            for x in [la] + list(rba.ref_chain(la)):
                d = rba.single_def(x)
                if d and d[0] == "stmt" and d[3]["k"] == "agg" and d[3].get("def"):
                    cb = prog.bodies.get(strip_generics(d[3]["def"])) or prog.bodies.get(d[3]["def"])
                    if cb is not None and BA.of(cb).calls(r"std::path::is_separator"):
                        return True
        return False
    for c in rba.all_calls():
        t = rd.blocks[c]["term"]
        if not any(re.search(r"::(rposition|position|rfind|find|find_map|rsplitn|rsplit_once|rsplit)$", q) for q in callee_paths(t)) or not _sep_closure(t):
            continue
        opt = {t["dest"]["l"]}
        trybr = set()
        for i in rba.all_calls():
            ti = rd.blocks[i]["term"]
            if any(re.fullmatch(r"(<.* as )?core::ops::try_trait::Try>?::branch", q) for q in callee_paths(ti)) and op_local(ti["args"][0]) in opt:
                trybr.add(ti["dest"]["l"])
        for i in sorted(rba.live):
            ti = rd.blocks[i]["term"]
            if ti["t"] != "switch":
                continue
            dl = op_local(ti["discr"])
            d = rba.single_def(dl) if dl is not None else None
            if not d or d[0] != "stmt" or d[3]["k"] != "discr" or d[3]["place"]["p"]:
                continue
            src = d[3]["place"]["l"]
            arms = {v: tg for v, tg in ti["arms"]}
            if src in opt:      # Option: None = 0
                dot_edges.append((i, arms.get(0, ti["otherwise"])))
            elif src in trybr:  # ControlFlow: Break = 1 (the None of the searched Option)
                dot_edges.append((i, arms.get(1, ti["otherwise"])))
    if not dot_edges:
        from facts import AnchorError
        raise AnchorError("%s: the test for 'no directory part' (comparison with Path::new(\".\"), or a separator search that found nothing) in realdirpath not located" % rid)
    from core import FAL
    pth = FAL.of(rd).path([0], rba.returns(), avoid=frozenset(canon), cut_edges=frozenset(dot_edges), incl=True)
    ctx.ob(rid, "realdirpath|directory-part-always-canonicalised", pth is None, where=rd.span,
           detail="every return for a name with a directory part lies behind a canonicalize() call" if pth is None else
           "a name with a directory part can be returned without resolving symbolic links in it (%s): the same file reached through a symlinked directory gets a second record, lock and log" % rd.line(pth[-1]), witness=pth)
    # (b) the NotFound sides
    nf = []
    for (sw, t_t, f_t, cbb) in rba.switches_on_call(r".*ErrorKind as core::cmp::PartialEq>::(eq|ne)|.*PartialEq.*::(eq|ne)"):
        t = rd.blocks[cbb]["term"]
        if not any("ErrorKind" in ty for ty in t.get("arg_tys", [])) and not any("ErrorKind" in q for q in callee_paths(t)):
            continue
        blk = rd.blocks[cbb]
        if not any(s_["s"] == "assign" and s_["rv"]["k"] == "agg" and s_["rv"].get("variant") == "NotFound" for s_ in blk["stmts"]) and \
           not any(s_["s"] == "assign" and s_["rv"]["k"] == "agg" and s_["rv"].get("variant") == "NotFound" for b_ in rd.blocks for s_ in b_["stmts"]):
            continue
        ne = any(q.endswith("::ne") for q in callee_paths(t))
        nf.append((sw, f_t if ne else t_t))
    # .. or through a local predicate that makes that comparison (`is_not_there(&e)`: NotFound or ENOTDIR)
    from rules.extra import tests_notfound
    preds = sorted(k for k, b_ in prog.bodies.items() if k.startswith("state::") and b_.locals and b_.locals[0] == "bool" and tests_notfound(b_))
    if preds:
        for (sw, t_t, f_t, cbb) in rba.switches_on_call("|".join(re.escape(k) for k in preds)):
            nf.append((sw, t_t))
    ctx.floor(rid, "`does not exist` sides of canonicalize() in realdirpath", len(nf), 1)
    for n, (sw, side) in enumerate(nf):
        later = [c for c in canon if rba.path([side], [c], incl=True) is not None]
        # the resolved path: the Ok payload of those calls (not the error, which may legitimately be returned as it is)
        dests = {rd.blocks[c]["term"]["dest"]["l"] for c in later}
        seeds = set()
        # .. also when the payload is taken out with `?` (Try::branch -> Continue)
        branched = {rd.blocks[i]["term"]["dest"]["l"] for i in rba.all_calls()
                    if any(re.fullmatch(r"(<.* as )?core::ops::try_trait::Try>?::branch", q) for q in callee_paths(rd.blocks[i]["term"]))
                    and op_local(rd.blocks[i]["term"]["args"][0]) in dests}
        for b_ in rd.blocks:
            for s_ in b_["stmts"]:
                if s_["s"] == "assign" and s_["rv"]["k"] == "use":
                    pl = op_place(s_["rv"]["op"])
                    if pl is not None and pl["l"] in dests and any(e == "as:Ok" for e in pl["p"]):
                        seeds.add(s_["place"]["l"])
                    if pl is not None and pl["l"] in branched and any(e == "as:Continue" for e in pl["p"]):
                        seeds.add(s_["place"]["l"])
        tn = taint(rd, seeds=seeds, mode="derived") if seeds else set()
        ok_vals = [op_local(o) for b_ in rd.blocks for s_ in b_["stmts"] if s_["s"] == "assign" and s_["place"]["l"] == 0 and not s_["place"]["p"]
                   and s_["rv"]["k"] == "agg" and s_["rv"].get("variant") == "Ok" for o in s_["rv"]["ops"]]
        ok = bool(later) and any(l in tn for l in ok_vals if l is not None)
        ctx.ob(rid, "realdirpath|NotFound#%d|existing-part-still-resolved" % n, ok, where=ctx.where(rd, sw),
               detail="when the directory does not exist (yet), symbolic links in the part that exists are still resolved" if ok else
               "when canonicalize() reports NotFound the directory part is only cleaned lexically: link/new/x is recorded under that spelling and becomes real/new/x - another record that finds the file existing and not generated - once the .do has created `new`")


def dangling_link_rule(ctx, rid):
    """R15.11 (F-AJ): where realdirpath resolves only the existing part of a directory (the walk over its ancestors), the
    component right below the resolved prefix is looked at as a directory entry (read_link / lstat): a dangling symbolic
    link is followed by hand. Otherwise `link/x` (link -> store, store/ made later by the .do) is recorded under that
    spelling and becomes `store/x` - a second record - as soon as the destination exists."""
    prog = ctx.prog
    ctx.rule(rid, "realdirpath, existing-part resolution: the first component that canonicalize() could not resolve is examined with read_link / symlink_metadata, so that a dangling symbolic link is followed the way the kernel will follow it once its destination exists (one name for one file, before and after)")
    rd = prog.one(r"state::realdirpath")
    bodies = [rd]
    for q in sorted({q for i in BA.of(rd).all_calls() for q in callee_paths(rd.blocks[i]["term"])}):
        b = prog.bodies.get(q)
        if b is not None and b.key.startswith("state::") and b not in bodies:
            bodies.append(b)
    n = 0
    for b in bodies:
        ba = BA.of(b)
        anc = ba.calls(r"std::path::Path::ancestors")
        if not anc:
            continue
        cs = [c for c in ba.calls(r"std::path::Path::canonicalize|std::fs::canonicalize") if any(ba.path([a], [c], incl=True) is not None for a in anc)]
        if not cs:
            continue
        n += 1
        tn = taint(b, seeds={b.blocks[c]["term"]["dest"]["l"] for c in cs}, mode="derived")
        probes = [i for i in ba.calls(r"std::fs::read_link|std::path::Path::read_link|std::path::Path::symlink_metadata|std::fs::symlink_metadata|std::path::Path::is_symlink")
                  if any(op_local(a_) is not None and (op_local(a_) in tn or any(x in tn for x in ba.ref_chain(op_local(a_)))) for a_ in b.blocks[i]["term"]["args"])]
        ctx.ob(rid, "realdirpath|existing-prefix#%d|next-component-examined-as-a-link" % n, bool(probes), where=ctx.where(b, cs[0]),
               detail="the component below the resolved prefix is checked for being a symbolic link" if probes else
               "a dangling symbolic link below the existing prefix is kept literally: the name of link/x changes to <destination>/x once the destination exists - a second record that finds the file existing and not generated")
    ctx.floor(rid, "existing-prefix resolutions in realdirpath", n, 1)


def _key_is_relpath(fn):
    """FLOW(relpath(<parameter>, env.base()) | //ALWAYS  =>  every SQL parameter list of `fn`): (ok, detail).
    The path operand of relpath goes back (direct steps) to a parameter of `fn` that is not one of the handles
    (transaction / state / env) nor a flag; the base operand to Env::base(); every statement issued by `fn`
    (query_row / ProcessTransaction::write) takes its parameters from the relpath result (or the constant)."""
    from core import OPAQUE_CARRIERS
    fba = BA.of(fn)
    rel = fba.calls(r"state::relpath")
    qs = fba.calls(r"rusqlite::Connection::query_row") + fba.calls(r"state::ProcessTransaction::write")
    if not rel:
        return False, "relpath call not found in %s" % fn.key
    if not qs:
        return False, "no statement found in %s" % fn.key

    def name_param(l):
        return l is not None and 1 <= l <= fn.arg_count and not OPAQUE_CARRIERS.fullmatch(fn.locals[l]) and fn.locals[l] != "bool"
    base_ok = name_ok = True
    seeds = set()
    for r in rel:
        t = fn.blocks[r]["term"]
        sl, org, _ = backward_direct(fn, op_local(t["args"][1]))
        base_ok = base_ok and any(o[0] == "call" and call_matches(o[2], r"env::Env::base") for o in org)
        sl0, org0, _ = backward_direct(fn, op_local(t["args"][0]))
        name_ok = name_ok and (any(name_param(l) for l in sl0) or any(o[0] == "call" and any(name_param(op_local(a)) for a in o[2]["args"]) for o in org0))
        seeds.add(t["dest"]["l"])
    # the normalized key: either relpath-derived or the ALWAYS constant; every query parameter derives from it
    key_t = taint(fn, seeds=seeds, mode="derived")
    always = any(nm and "ALWAYS" in nm for (_, _, s, nm) in str_consts(fn))
    params_ok = True
    for q in qs:
        qt = fn.blocks[q]["term"]
        pa = [a for a, ty in zip(qt["args"], qt.get("arg_tys", [])) if "ToSql" in ty or "[&dyn" in ty]
        for a in pa:
            l = op_local(a)
            if l is not None and l not in key_t:
                params_ok = False
    ok = base_ok and name_ok and always and params_ok
    return ok, ("key = relpath(name, env.base()) (or //ALWAYS); all %d statement parameter lists derive from it" % len(qs) if ok else
                "base operand is Env::base(): %s; path operand is a parameter: %s; //ALWAYS constant: %s; all statement parameters derive from the key: %s" % (base_ok, name_ok, always, params_ok))


def _lock_id_sources(prog, b, l, depth=2):
    """Where a lock-id operand comes from (direct steps + arithmetic): (from_id, params, arithmetic ops, named
    constants met, origins). from_id: a File::id() / the locked queue's pop_front; params: i64 parameters of `b`.
    In a closure / coroutine body a captured i64 stands for the parameter of the `async fn` (or the variable of the
    enclosing body) it was captured from: it is followed to the operand captured at every construction site in the
    parent body and decided there, so that `async fn acquire(&self, fid: i64)` is held to what its caller passes."""
    from core import rvalue_consts, closure_sites, upvar_index, rvalue_places
    from facts import strip_generics
    ba = BA.of(b)
    sl, org, ar = backward_direct(b, l, depth=120)
    from_id = any(o[0] == "call" and call_matches(o[2], r"state::File::id|alloc::collections::vec_deque::VecDeque::pop_front") for o in org)
    params = [x for x in sl if 1 <= x <= b.arg_count and b.locals[x] in ("i64", "core::option::Option<i64>")]
    named = set()
    ups = set()
    for x in sl:
        for d in ba.defs.get(x, []):
            if d[0] == "stmt":
                for cc in rvalue_consts(d[3]):
                    if "named" in cc:
                        named.add(cc["named"])
                for p in rvalue_places(d[3]):
                    u = upvar_index(p)
                    if u:
                        ups.add(u[0])
    ar = list(ar)
    # the bodies that build this closure: its lexical parent, or - when that was a helper canon.py spliced into its
    # callers - whoever builds it now
    makers = [(x, st) for x in prog.bodies.values() for st in closure_sites(x, b.key)] if ups and depth > 0 and b.parent else []
    if makers:
        sub_ok = True
        sub_from_id = False
        for (parent, (bb, j, dest, k, ops)) in makers:
            for u in ups:
                pl = op_local(ops[u]) if 0 <= u < len(ops) else None
                if pl is None or parent.locals[pl].replace("&", "").replace("mut ", "") not in ("i64", "core::option::Option<i64>"):
                    continue        # a captured handle (self, state, env): not a number, not part of the id
                f2, p2, a2, n2, o2 = _lock_id_sources(prog, parent, pl, depth - 1)
                ar += a2
                named |= n2
                org = org + o2
                if f2 or p2:
                    sub_from_id = sub_from_id or f2
                    if p2 and not f2:
                        params = params + ["captured"]
                else:
                    sub_ok = False
        if sub_ok and sub_from_id:
            from_id = True
    return from_id, params, ar, named, org
