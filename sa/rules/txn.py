"""Transaction-discipline helpers shared by C10, C16, C17."""
import re

import anchors
from core import (BA, call_matches, callee_paths, op_local, op_place, op_const, const_int, const_str, place_fields,
                  str_consts, dyn_key)
from facts import strip_generics
from rules import common, sqlc

WRITE = "state::ProcessTransaction::write"
PS_WRITE = "state::ProcessState::write"


SQL_EXEC = r"rusqlite::Connection::(execute|execute_batch)|rusqlite::.*Connection>?::(execute|execute_batch)"
# bodies audited to execute SQL directly for a reason other than writing records (frozen table, one reason each)
AUDITED_EXECUTORS = {"state::ProcessTransaction::new": "BEGIN", "state::ProcessTransaction::finish_": "COMMIT/ROLLBACK",
                     "state::ProcessState::init": "schema + run id inside the start-up transaction", "state::connect": "pragmas"}


def sql_executors(prog):
    """{body key: [bb]} bodies that hand SQL text to the connection directly (`Connection::execute[_batch]`)."""
    out = {}
    for b in prog.bodies.values():
        for i in BA.of(b).calls(SQL_EXEC):
            out.setdefault(b.key, []).append(i)
    return out


def _private(prog, key):
    f = prog.fns.get(key)
    return f is not None and f["vis"] not in ("pub", "crate")


def writer_funnel(prog, cg, depth=4):
    """WHO(record-writing SQL) as a funnel, independent of how many private layers the writer has.

    The *primitive writers* are the bodies that execute SQL directly and are not in the audited table (today
    `ProcessState::write`; after inlining it, `ProcessTransaction::write` itself). From every primitive the callers
    are followed upwards; the walk must end in `ProcessTransaction::write` (WRITE) having met only private functions
    that are called directly (never address-taken) - i.e. WRITE is the only door to record-writing SQL.
    Returns (members, problems): members = [(key, role)] with role 'primitive' / 'layer' / 'door' in discovery order,
    problems = [(key, text)]."""
    ex = sql_executors(prog)
    prims = sorted(k for k in ex if k not in AUDITED_EXECUTORS)
    members, problems = [], []
    seen = set()
    todo = [(k, "primitive", 0) for k in prims]
    while todo:
        k, role, d = todo.pop(0)
        if k in seen:
            continue
        seen.add(k)
        if k == WRITE:
            members.append((k, "door"))
            continue
        members.append((k, role))
        if not _private(prog, k):
            problems.append((k, "%s executes or forwards record-writing SQL but is not private (visibility %s)" % (k, (prog.fns.get(k) or {}).get("vis", "closure/unknown"))))
            continue
        cs = cg.callers_of(k)
        if "<indirect>" in cs:
            problems.append((k, "%s is address-taken: its callers cannot be enumerated" % k))
        cs = [c for c in cs if c != "<indirect>"]
        if not cs:
            problems.append((k, "%s has no caller: the path from ProcessTransaction::write to the SQL is gone" % k))
        if d >= depth:
            problems.append((k, "more than %d layers between the SQL and ProcessTransaction::write" % depth))
            continue
        for c in cs:
            todo.append((c, "layer", d + 1))
    if not prims:
        problems.append(("-", "no body executes record-writing SQL (anchor lost)"))
    elif WRITE not in seen:
        problems.append((WRITE, "ProcessTransaction::write is not on the path to the SQL"))
    return members, problems


def txn_sites(prog):
    """[(body, bb, behaviour)] every ProcessTransaction::new call with its TransactionBehavior."""
    out = []
    for b in prog.bodies.values():
        ba = BA.of(b)
        for i in ba.calls(r"state::ProcessTransaction::new"):
            t = b.blocks[i]["term"]
            beh = t["args"][1]
            v = (op_const(beh) or {}).get("variant")
            if v is None and op_local(beh) is not None:
                d = ba.single_def(op_local(beh))
                if d and d[0] == "stmt" and d[3]["k"] == "agg":
                    v = d[3].get("variant")
            out.append((b, i, v))
    return sorted(out, key=lambda x: (x[0].key, x[1]))


def from_name_write_guarded(prog):
    """In File::from_name the insert is dominated by `allow_add == true` (parameter 3)."""
    fn = prog.one(r"state::File::from_name")
    ba = BA.of(fn)
    ws = ba.calls(re.escape(WRITE))
    ok = False
    for sw in sorted(ba.live):
        bs = ba.bool_switch(sw)
        if not bs:
            continue
        t_t, f_t, (kind, info) = bs
        if kind == "place" and not info["p"] and info["l"] == 3:
            ok = bool(ws) and all(ba.edge_dominates((sw, t_t), w) for w in ws)
    return ok


def no_add_filter(prog):
    """site_filter that drops calls `File::from_name(_, _, false)`: they cannot reach the insert."""
    guarded = from_name_write_guarded(prog)

    def flt(body_key, bb, target, kind):
        if not guarded or target != "state::File::from_name" or bb < 0:
            return True
        t = prog.bodies[body_key].blocks[bb]["term"]
        c = op_const(t["args"][2]) if len(t["args"]) > 2 else None
        if c is not None and c.get("bool") is False:
            return False
        return True
    return flt


def callbacks_override(prog, body):
    """If `body` builds its DirtyCallbacks with all three builder setters, return the dyn-key
    override {dyn key: {closures}} so that the dirtiness routine's callbacks resolve to exactly
    those closures for queries rooted at `body`."""
    ba = BA.of(body)
    got = {}
    for nm in ("is_checked", "set_checked", "log_override"):
        for i in ba.calls(r"deps::DirtyCallbacksBuilder::" + nm):
            t = body.blocks[i]["term"]
            for g in t.get("gargs", []):
                if "closure" in g or "fn" in g:
                    got[nm] = strip_generics(g.get("closure") or g.get("fn"))
    if len(got) != 3:
        return None, got
    D = anchors.dirtiness(prog)
    dba = BA.of(D)
    over = {}
    from rules.dirt import Dirt
    d = Dirt(prog)
    for nm, sites in d.cb.items():
        for i in sites:
            dk = dyn_key((D.blocks[i]["term"].get("arg_tys") or [""])[0])
            if dk and nm in got:
                over.setdefault(dk, set()).add(got[nm])
    return over, got
