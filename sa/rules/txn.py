"""Transaction-discipline helpers shared by C10, C16, C17."""
import re

import anchors
from core import (BA, call_matches, callee_paths, op_local, op_place, op_const, const_int, const_str, place_fields,
                  str_consts, dyn_key)
from facts import strip_generics
from rules import common, sqlc

WRITE = "state::ProcessTransaction::write"
PS_WRITE = "state::ProcessState::write"


def txn_sites(prog):
    """[(body, bb, behaviour)] every ProcessTransaction::new call with its TransactionBehavior."""
    out = []
    for b in prog.bodies.values():
        ba = BA.of(b)
        for i in ba.calls(r"state::ProcessTransaction::new"):
            t = b.blocks[i]["term"]
            beh = t["args"][1]
            v = (op_const(beh) or {}).get("variant")
            if v is None and op_local(beh) is not None:
                d = ba.single_def(op_local(beh))
                if d and d[0] == "stmt" and d[3]["k"] == "agg":
                    v = d[3].get("variant")
            out.append((b, i, v))
    return sorted(out, key=lambda x: (x[0].key, x[1]))


def from_name_write_guarded(prog):
    """In File::from_name the insert is dominated by `allow_add == true` (parameter 3)."""
    fn = prog.one(r"state::File::from_name")
    ba = BA.of(fn)
    ws = ba.calls(re.escape(WRITE))
    ok = False
    for sw in sorted(ba.live):
        bs = ba.bool_switch(sw)
        if not bs:
            continue
        t_t, f_t, (kind, info) = bs
        if kind == "place" and not info["p"] and info["l"] == 3:
            ok = bool(ws) and all(ba.edge_dominates((sw, t_t), w) for w in ws)
    return ok


def no_add_filter(prog):
    """site_filter that drops calls `File::from_name(_, _, false)`: they cannot reach the insert."""
    guarded = from_name_write_guarded(prog)

    def flt(body_key, bb, target, kind):
        if not guarded or target != "state::File::from_name" or bb < 0:
            return True
        t = prog.bodies[body_key].blocks[bb]["term"]
        c = op_const(t["args"][2]) if len(t["args"]) > 2 else None
        if c is not None and c.get("bool") is False:
            return False
        return True
    return flt


def callbacks_override(prog, body):
    """If `body` builds its DirtyCallbacks with all three builder setters, return the dyn-key
    override {dyn key: {closures}} so that the dirtiness routine's callbacks resolve to exactly
    those closures for queries rooted at `body`."""
    ba = BA.of(body)
    got = {}
    for nm in ("is_checked", "set_checked", "log_override"):
        for i in ba.calls(r"deps::DirtyCallbacksBuilder::" + nm):
            t = body.blocks[i]["term"]
            for g in t.get("gargs", []):
                if "closure" in g or "fn" in g:
                    got[nm] = strip_generics(g.get("closure") or g.get("fn"))
    if len(got) != 3:
        return None, got
    D = anchors.dirtiness(prog)
    dba = BA.of(D)
    over = {}
    from rules.dirt import Dirt
    d = Dirt(prog)
    for nm, sites in d.cb.items():
        for i in sites:
            dk = dyn_key((D.blocks[i]["term"].get("arg_tys") or [""])[0])
            if dk and nm in got:
                over.setdefault(dk, set()).add(got[nm])
    return over, got
