"""Transaction-discipline helpers shared by C10, C16, C17."""
import re

import anchors
from core import (BA, call_matches, callee_paths, op_local, op_place, op_const, const_int, const_str, place_fields,
                  str_consts, dyn_key, closure_sites, taint)
from facts import strip_generics
from rules import common, sqlc

WRITE = "state::ProcessTransaction::write"
PS_WRITE = "state::ProcessState::write"


SQL_EXEC = r"rusqlite::Connection::(execute|execute_batch)|rusqlite::.*Connection>?::(execute|execute_batch)"
# bodies audited to execute SQL directly for a reason other than writing records (frozen table, one reason each)
AUDITED_EXECUTORS = {"state::ProcessTransaction::new": "BEGIN", "state::ProcessTransaction::finish_": "COMMIT/ROLLBACK",
                     "state::ProcessState::init": "schema + run id inside the start-up transaction", "state::connect": "pragmas"}


def sql_executors(prog):
    """{body key: [bb]} bodies that hand SQL text to the connection directly (`Connection::execute[_batch]`)."""
    out = {}
    for b in prog.bodies.values():
        for i in BA.of(b).calls(SQL_EXEC):
            out.setdefault(b.key, []).append(i)
    return out


def _private(prog, key):
    f = prog.fns.get(key)
    return f is not None and f["vis"] not in ("pub", "crate")


def closure_confinement(prog, key):
    """For a closure / coroutine body `key`: (parent body key, problem text or None).

    A closure has no visibility of its own: it can only be *made* where it is written, so what replaces "private and
    called directly" for it is confinement to its lexical parent - every construction site is in the parent body and
    the closure value leaves that body neither through the return place nor through a parameter (it may be handed
    to a callee: whatever runs it, the parent was entered first and built it). (None, None) when `key` is not a
    closure body."""
    b = prog.bodies.get(key)
    if b is None or not b.parent or not (b.kind == "Closure" or b.coroutine or "{closure#" in key.rsplit("::", 1)[-1]):
        return None, None
    pk = strip_generics(b.parent)
    made = [(x.key, s) for x in prog.bodies.values() for s in closure_sites(x, key)]
    if not made:
        return pk, "%s is never constructed: the path from ProcessTransaction::write to the SQL is gone" % key
    if pk not in prog.bodies and len({k for k, _ in made}) == 1:
        pk = made[0][0]             # the lexical parent was a helper that canon.py spliced into its only user
    parent = prog.bodies.get(pk)
    if parent is None:
        return pk, "%s: the body that builds this closure is not available" % key
    if any(k != pk for k, _ in made):
        return pk, "%s is constructed outside its parent (%s)" % (key, sorted({k for k, _ in made if k != pk}))
    tl = taint(parent, seeds={s[2] for _, s in made}, mode="direct")
    if 0 in tl or any(1 <= l <= parent.arg_count for l in tl):
        return pk, "%s escapes %s (returned or stored through a parameter): it can run record-writing SQL after ProcessTransaction::write was left" % (key, pk)
    return pk, None


def writer_funnel(prog, cg, depth=4):
    """WHO(record-writing SQL) as a funnel, independent of how many private layers the writer has.

    The *primitive writers* are the bodies that execute SQL directly and are not in the audited table (today
    `ProcessState::write`; after inlining it, `ProcessTransaction::write` itself). From every primitive the callers
    are followed upwards; the walk must end in `ProcessTransaction::write` (WRITE) having met only private functions
    that are called directly (never address-taken), or closures confined to the body that builds them
    (closure_confinement; the walk continues at that body) - i.e. WRITE is the only door to record-writing SQL.
    Returns (members, problems): members = [(key, role)] with role 'primitive' / 'layer' / 'closure' / 'door' in
    discovery order, problems = [(key, text)]."""
    ex = sql_executors(prog)
    prims = sorted(k for k in ex if k not in AUDITED_EXECUTORS)
    members, problems = [], []
    seen = set()
    todo = [(k, "primitive", 0) for k in prims]
    while todo:
        k, role, d = todo.pop(0)
        if k in seen:
            continue
        seen.add(k)
        if k == WRITE:
            members.append((k, "door"))
            continue
        pk, cprob = closure_confinement(prog, k)
        if pk is not None:
            members.append((k, role if role == "primitive" else "closure"))
            if cprob:
                problems.append((k, cprob))
            elif d >= depth:
                problems.append((k, "more than %d layers between the SQL and ProcessTransaction::write" % depth))
            else:
                todo.append((pk, "layer", d + 1))
            continue
        members.append((k, role))
        if not _private(prog, k):
            problems.append((k, "%s executes or forwards record-writing SQL but is not private (visibility %s)" % (k, (prog.fns.get(k) or {}).get("vis", "closure/unknown"))))
            continue
        cs = cg.callers_of(k)
        if "<indirect>" in cs:
            problems.append((k, "%s is address-taken: its callers cannot be enumerated" % k))
        cs = [c for c in cs if c != "<indirect>"]
        if not cs:
            problems.append((k, "%s has no caller: the path from ProcessTransaction::write to the SQL is gone" % k))
        if d >= depth:
            problems.append((k, "more than %d layers between the SQL and ProcessTransaction::write" % depth))
            continue
        for c in cs:
            todo.append((c, "layer", d + 1))
    if not prims:
        problems.append(("-", "no body executes record-writing SQL (anchor lost)"))
    elif WRITE not in seen:
        problems.append((WRITE, "ProcessTransaction::write is not on the path to the SQL"))
    return members, problems


def txn_sites(prog):
    """[(body, bb, behaviour)] every ProcessTransaction::new call with its TransactionBehavior."""
    out = []
    for b in prog.bodies.values():
        ba = BA.of(b)
        for i in ba.calls(r"state::ProcessTransaction::new"):
            t = b.blocks[i]["term"]
            beh = t["args"][1]
            v = (op_const(beh) or {}).get("variant")
            if v is None and op_local(beh) is not None:
                d = ba.single_def(op_local(beh))
                if d and d[0] == "stmt" and d[3]["k"] == "agg":
                    v = d[3].get("variant")
            out.append((b, i, v))
    return sorted(out, key=lambda x: (x[0].key, x[1]))


def from_name_add_param(prog):
    """The `allow_add` parameter of File::from_name by role: the number (1-based) of a bool parameter such that every
    *feasible* path (core.FA) from entry to an insert (ProcessTransaction::write) takes the true edge of a test of that
    parameter, or None. Feasible paths, because the flag may be turned into an enum / a local first and re-tested
    later (`let on_missing = if allow_add {Insert} else {Fail}; .. if let Fail = on_missing {return ..}`): the block
    paths through the join do not exist. Independent of the parameter's position and name."""
    from core import FA, FAX, FAx
    fn = prog.one(r"state::File::from_name")
    ba = BA.of(fn)
    ws = ba.calls(re.escape(WRITE))
    if not ws:
        return None
    for cls in (FA, FAX, FAx):
        # (the enum the flag was turned into may be compared with `==`: derived PartialEq, followed by FAX / FAx)
        r = _add_param(fn, ba, cls.of(fn), ws)
        if r is not None:
            return r
    return None


def _add_param(fn, ba, fa, ws):
    for sw in sorted(ba.live):
        bs = ba.bool_switch(sw)
        if not bs:
            continue
        t_t, f_t, (kind, info) = bs
        if kind == "place" and not info["p"] and 1 <= info["l"] <= fn.arg_count and fn.locals[info["l"]] == "bool" and t_t != f_t:
            if all(fa.edge_dominates((sw, t_t), w) for w in ws) and any(w in fa.live for w in ws):
                return info["l"]
    return None


def from_name_write_guarded(prog):
    """In File::from_name the insert happens only when the `allow_add` parameter is true (from_name_add_param)."""
    return from_name_add_param(prog) is not None


def no_add_filter(prog):
    """site_filter that drops calls `File::from_name(.., allow_add = false)`: they cannot reach the insert."""
    n = from_name_add_param(prog)

    def flt(body_key, bb, target, kind):
        if n is None or target != "state::File::from_name" or bb < 0:
            return True
        t = prog.bodies[body_key].blocks[bb]["term"]
        c = op_const(t["args"][n - 1]) if len(t["args"]) >= n else None
        if c is not None and c.get("bool") is False:
            return False
        return True
    return flt


def callbacks_override(prog, body):
    """If `body` builds its DirtyCallbacks with all three builder setters, return the dyn-key
    override {dyn key: {closures}} so that the dirtiness routine's callbacks resolve to exactly
    those closures for queries rooted at `body`."""
    ba = BA.of(body)
    got = {}
    for nm in ("is_checked", "set_checked", "log_override"):
        for i in ba.calls(r"deps::DirtyCallbacksBuilder::" + nm):
            t = body.blocks[i]["term"]
            for g in t.get("gargs", []):
                if "closure" in g or "fn" in g:
                    got[nm] = strip_generics(g.get("closure") or g.get("fn"))
    if len(got) != 3:
        return None, got
    D = anchors.dirtiness(prog)
    dba = BA.of(D)
    over = {}
    from rules.dirt import Dirt
    d = Dirt(prog)
    for nm, sites in d.cb.items():
        for i in sites:
            dk = dyn_key((D.blocks[i]["term"].get("arg_tys") or [""])[0])
            if dk and nm in got:
                over.setdefault(dk, set()).add(got[nm])
    return over, got
