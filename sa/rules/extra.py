"""Rules added in answer to the round-4 seeded changes (see DESIGN.md, section C.2).

They live in one module, evaluated by `check` after the property's own table (`run(ctx, prop)`), so that the
per-property tables stay as they were confirmed. Each rule is a mechanism step stated as MPT / DOM / WHO /
FLOW / AGREE like the others; none matches text, positions or names of locals.
"""
import re

import anchors
from core import BA, call_matches, callee_paths, op_local, op_const, const_int, const_str, taint, field_writes, place_fields
from facts import AnchorError, strip_generics
from rules import common


def _calls(b, rx):
    ba = BA.of(b)
    return ba.calls(rx)


# ------------------------------------------------------------------------------------------------
# R2.7 / R13.6  every candidate the search looks at leaves an edge

def every_candidate_leaves_an_edge(ctx, rid):
    """In the .do search loop, every path from taking a candidate out of the enumerator to asking for the next
    one passes `File::add_dep` (mode m for the winner, c for a missing one) or leaves the function with the
    winner. A `continue` that skips a candidate without recording it means a higher-priority .do file that
    appears later never makes the target dirty."""
    ctx.rule(rid, "in find_do_file's loop every candidate taken from possible_do_files is recorded (add_dep) before the next one is taken: no iteration skips the edge")
    prog = ctx.prog
    F = anchors.the(anchors.bodies_calling(prog, r"paths::possible_do_files"), "calls paths::possible_do_files and File::add_dep") if False else None
    cands = [b for b in anchors.bodies_calling(prog, r"paths::possible_do_files") if BA.of(b).calls(r"state::File::add_dep")]
    if len(cands) != 1:
        raise AnchorError("role 'body that iterates possible_do_files and records edges' resolved to %d bodies: %s" % (len(cands), [b.key for b in cands]))
    F = cands[0]
    ba = BA.of(F)
    nexts = ba.calls(r"<paths::PossibleDoFiles as core::iter::traits::iterator::Iterator>::next|core::iter::traits::iterator::Iterator::next")
    nexts = [i for i in nexts if "PossibleDoFiles" in " ".join(F.blocks[i]["term"].get("arg_tys") or [])]
    adds = set(ba.calls(r"state::File::add_dep"))
    if not ctx.floor(rid, "enumerator steps in the .do search loop", len(nexts), 1):
        return
    for n, nx in enumerate(nexts):
        p = ba.path([nx], [nx], avoid=adds)
        ctx.ob(rid, "%s|next#%d|candidate-recorded-before-next" % (F.key, n), p is None, where=ctx.where(F, nx),
               detail="every iteration passes File::add_dep" if p is None else
               "a candidate can be skipped without recording an edge: path %s returns to the enumerator without add_dep" % (" -> ".join("bb%d(%s)" % (x, F.line(x).split(":")[-1]) for x in p)),
               witness=p)


# ------------------------------------------------------------------------------------------------
# R3.9 / R5.8  a child killed by a signal is a failure

def signal_death_is_failure(ctx, rid):
    """`ExitStatus::code()` is None when the child was killed by a signal. Wherever that Option is turned
    into an exit status the default must be a non-zero constant; `unwrap_or_default()` / `unwrap_or(0)`
    turns a killed redo-ifchange into success (redo-unlocked then reports a clean target)."""
    ctx.rule(rid, "every ExitStatus::code() consumer maps `None` (killed by a signal) to a non-zero status")
    prog = ctx.prog
    n = 0
    for b in prog.bodies.values():
        ba = BA.of(b)
        for k_, i in enumerate(ba.calls(r"std::process::ExitStatus::code")):
            n += 1
            d = b.blocks[i]["term"]["dest"]["l"]
            tnt = taint(b, seeds={d}, mode="direct")
            bad = []
            good = []
            for j in ba.all_calls():
                t = b.blocks[j]["term"]
                ps = callee_paths(t)
                if not t.get("args"):
                    continue
                a0 = op_local(t["args"][0])
                if a0 is None or not (a0 in tnt or any(x in tnt for x in ba.ref_chain(a0))):
                    continue
                if any(re.fullmatch(r"core::option::Option::unwrap_or", p) for p in ps):
                    c = op_const(t["args"][1]) if len(t["args"]) > 1 else None
                    v = const_int(t["args"][1]) if len(t["args"]) > 1 else None
                    if v is None and c is not None and "named" in c:
                        v = _named_const_value(prog, c["named"])
                    (good if (v is not None and v != 0) else bad).append((j, "unwrap_or(%s)" % (v if v is not None else "non-constant")))
                elif any(re.fullmatch(r"core::option::Option::(unwrap_or_default|unwrap_or_else|map_or|map_or_else|unwrap|expect|is_none|is_some)", p) for p in ps):
                    nm = ps[0].rsplit("::", 1)[-1]
                    if nm == "unwrap_or_default":
                        bad.append((j, "unwrap_or_default() == 0"))
            # a `match` on the Option is accepted when no arm assigns the constant 0 under None ... (not used today)
            ok = bool(good) and not bad
            if not good and not bad:
                # consumed by a match / if let: accept only if the None side assigns a non-zero constant
                ok = _none_side_nonzero(b, ba, d)
            ctx.ob(rid, "%s|code()#%d|None=>non-zero" % (b.key, k_), ok, where=ctx.where(b, i),
                   detail="signal death maps to %s" % ", ".join(x for _, x in good) if ok and good else
                   ("None side yields a non-zero status" if ok else "a child killed by a signal is turned into status 0 (%s)" % (", ".join(x for _, x in bad) or "no non-zero default found")))
    ctx.floor(rid, "ExitStatus::code() consumers", n, 2)


def _named_const_value(prog, name):
    for u in prog.units.values():
        for c in u.get("consts", []) or []:
            if c.get("name") == name:
                return c.get("value")
    # exits.rs constants are plain integer items: look for a body `exits::NAME` returning a literal
    key = strip_generics(name)
    b = prog.bodies.get(key)
    if b is not None:
        for blk in b.blocks:
            for st in blk["stmts"]:
                if st["s"] == "assign" and st["place"]["l"] == 0 and not st["place"]["p"] and st["rv"]["k"] == "use":
                    v = const_int(st["rv"]["op"])
                    if v is not None:
                        return v
    return None


def _none_side_nonzero(b, ba, d):
    # find a switch on discriminant of the option local; on the None(0) edge, some assignment of a non-zero int constant
    for i in sorted(ba.live):
        t = b.blocks[i]["term"]
        if t["t"] != "switch":
            continue
        es = ba.enum_switch(i)
        if not es:
            continue
        return False
    return False


# ------------------------------------------------------------------------------------------------
# R4.6  the script's output ($3) and the target are examined without following symlinks

_STAT_FOLLOW = re.compile(r"std::fs::metadata|std::path::Path::(metadata|exists|try_exists|is_file|is_dir)")
_STAT_NOFOLLOW = re.compile(r"std::fs::symlink_metadata|std::path::Path::(symlink_metadata|is_symlink|read_link)|std::fs::read_link")


def _lstat_wrappers(prog):
    """Local functions all of whose path probes are lstat-like (e.g. builder::try_stat)."""
    out = set()
    for b in prog.bodies.values():
        ba = BA.of(b)
        nf = [i for i in ba.all_calls() if any(_STAT_NOFOLLOW.fullmatch(p) for p in callee_paths(b.blocks[i]["term"]))]
        fo = [i for i in ba.all_calls() if any(_STAT_FOLLOW.fullmatch(p) for p in callee_paths(b.blocks[i]["term"]))]
        if nf and not fo and b.kind in ("Fn", "AssocFn") and b.arg_count == 1:
            out.add(b.key)
    return out


def _tainted_arg(b, ba, t, tnt):
    for n, a in enumerate(t.get("args", [])):
        l = op_local(a)
        if l is not None and (l in tnt or any(x in tnt for x in ba.ref_chain(l))):
            return n
    return None


def output_probed_with_lstat(ctx, rid):
    ctx.rule(rid, "record_new_state examines the temp output ($3) with lstat (symlink_metadata), never with a call that follows symlinks: a dangling symlink written as $3 is output, not `no output`")
    prog = ctx.prog
    R = anchors.record_new_state(prog)
    ba = BA.of(R)
    ren = ba.calls(r"std::fs::rename")
    if not ren:
        raise AnchorError("no fs::rename in %s" % R.key)
    src = op_local(R.blocks[ren[0]]["term"]["args"][0])
    params = []
    for p in range(1, R.arg_count + 1):
        tn = taint(R, seeds={p}, mode="direct")
        if src in tn or any(x in tn for x in ba.ref_chain(src)):
            params.append(p)
    if not params:
        raise AnchorError("the rename source of %s does not derive from a parameter" % R.key)
    tnt = taint(R, seeds=set(params), mode="direct")
    wrappers = _lstat_wrappers(prog)
    good, bad = [], []
    for i in ba.all_calls():
        t = R.blocks[i]["term"]
        ps = callee_paths(t)
        if _tainted_arg(R, ba, t, tnt) is None:
            continue
        if any(_STAT_FOLLOW.fullmatch(p) for p in ps):
            bad.append(i)
        elif any(_STAT_NOFOLLOW.fullmatch(p) for p in ps) or any(p in wrappers for p in ps):
            good.append(i)
    ctx.ob(rid, "%s|tmp-output-probed-with-lstat" % R.key, bool(good) and not bad, where=ctx.where(R, (bad or good or [0])[0]),
           detail="$3 is examined with %s" % common.short(callee_paths(R.blocks[good[0]]["term"])[0]) if good and not bad else
           ("$3 is examined with %s, which follows symlinks" % common.short(callee_paths(R.blocks[bad[0]]["term"])[0]) if bad else "no lstat of the temp output found"))


# ------------------------------------------------------------------------------------------------
# R4.7  direct modification = the target's mtime is *different*, not later

def closure_family(prog, body):
    """body and every closure nested in it (at any depth): a test written as `x.map_or(false, |m| ..)` keeps its
    comparison in the closure"""
    pre = body.key + "::{closure"
    return [body] + [b for k, b in sorted(prog.bodies.items()) if k.startswith(pre)]


def direct_modification_is_inequality(ctx, rid):
    ctx.rule(rid, "the direct-modification test (exit 206) compares the target's mtime before and after the script for (in)equality, not with an ordering: a script that writes $1 and leaves an older mtime is still caught")
    prog = ctx.prog
    R = anchors.record_new_state(prog)
    fam = closure_family(prog, R)
    nmods = 0
    eq, order = [], []
    for B in fam:
        ba = BA.of(B)
        mods = ba.calls(r"std::fs::Metadata::modified")
        nmods += len(mods)
        if not mods:
            continue
        tnt = taint(B, seeds={B.blocks[i]["term"]["dest"]["l"] for i in mods}, mode="derived")
        for i in ba.all_calls():
            t = B.blocks[i]["term"]
            ps = callee_paths(t)
            if _tainted_arg(B, ba, t, tnt) is None:
                continue
            if any(re.fullmatch(r"(core::cmp::PartialEq|<.* as core::cmp::PartialEq(<.*>)?>)::(eq|ne)", p) for p in ps):
                eq.append((B, i))
            elif any(re.fullmatch(r"(core::cmp::PartialOrd|<.* as core::cmp::PartialOrd(<.*>)?>)::(lt|le|gt|ge|partial_cmp)|(core::cmp::Ord|<.* as core::cmp::Ord>)::(cmp|max|min)|std::time::SystemTime::(duration_since|elapsed)|core::cmp::(max|min)", p) for p in ps):
                order.append((B, i))
    if not ctx.floor(rid, "Metadata::modified() calls in record_new_state", nmods, 2):
        return
    ok = bool(eq) and not order
    wb, wi = (order or eq or [(R, 0)])[0]
    ctx.ob(rid, "%s|mtimes-compared-for-inequality" % R.key, ok, where=ctx.where(wb, wi),
           detail="before/after mtimes meet in PartialEq::eq/ne" if ok else
           ("the mtimes are compared with an ordering (%s): a rewritten $1 with an older or equal-ordered mtime passes as unmodified" % common.short(callee_paths(wb.blocks[wi]["term"])[0]) if order else "no (in)equality comparison of the two mtimes found"))


# ------------------------------------------------------------------------------------------------
# R5.11  the stop-or-continue decision sees every failure that is already known (F-T)

def decision_sees_finished_jobs(ctx, rid):
    ctx.rule(rid, "when the scheduler wakes up from a wait during which jobs of its own may have exited, it polls the job-future stream (without suspending, until nothing more is ready) or drains it before it reads the shared result: a job whose exit returned the very token the scheduler was waiting for has recorded its failure before the next target is considered")
    prog = ctx.prog
    S = anchors.scheduler(prog)
    ba = BA.of(S)
    reads = ba.calls(r"core::cell::Cell::(replace|take)")
    pushes = ba.calls(common.PUSH)
    drains = set(common.drain_ready_blocks(S))
    polls = []
    for i in ba.calls(r"futures_util::future::future::FutureExt::now_or_never"):
        at = " ".join(S.blocks[i]["term"].get("arg_tys") or [])
        if "Next<" in at or "next::Next" in at:
            # all finished jobs, not just one: the poll sits in a loop
            if ba.path([i], [i], incl=False) is not None:
                polls.append(i)
    if not ctx.floor(rid, "reads of the shared result in the scheduling passes", len(reads), 1) or not pushes:
        return
    n = 0
    for k, (pbb, y, ready, callee) in common.ordinal_keys([("await", x) for x in ba.awaits()]):
        if ready is None or ready in drains:
            continue
        # can a job of ours be outstanding (pushed, not drained) when this await completes?
        if ba.path(pushes, [ready], avoid=drains, incl=False) is None:
            continue
        n += 1
        p_ = ba.path([ready], reads, avoid=drains | set(polls) | {b for (b, _, _, _) in ba.awaits() if b != pbb}, incl=True)
        ctx.ob(rid, "%s|%s|finished-jobs-polled-before-result-read" % (S.key, k), p_ is None, where=ctx.where(S, pbb),
               detail="after this wait the finished job futures are polled (or the stream drained) before the shared result is read" if p_ is None else
               "after this wait the shared result is read while a job that has already exited may not have recorded its failure yet: at -j1 `redo a b c` with a failing starts b although a's failure is known (path %s)" % " -> ".join("bb%d" % x for x in p_[:12]),
               witness=p_)
    ctx.floor(rid, "waits during which an own job may finish", n, 1)


# ------------------------------------------------------------------------------------------------
# R6.9 / R7.5  the build / skip decision is only ever taken under the target's lock

_VERDICT_ARGS = re.compile(r"\(&mut state::ProcessTransaction(<.*>)?, &helpers::RedoPath\)")


def verdict_only_under_lock(ctx, rid):
    ctx.rule(rid, "the dirtiness callback (should_build) is invoked only by BuildJob::start, i.e. with the target's lock owned; and a target whose lock is held elsewhere is always queued (or waited for), never dismissed on an unlocked verdict")
    prog = ctx.prog
    J = anchors.job_start(prog)
    sites = []
    for b in prog.bodies.values():
        ba = BA.of(b)
        for i in ba.all_calls():
            t = b.blocks[i]["term"]
            if not any(re.fullmatch(r"core::ops::function::Fn(Mut|Once)?::call(_mut|_once)?", strip_generics(t.get("callee") or "")) for _ in [0]):
                continue
            at = t.get("arg_tys") or []
            if len(at) == 2 and _VERDICT_ARGS.fullmatch(at[1].replace("'_", "").replace("<>", "")) or (len(at) == 2 and at[1].startswith("(&mut state::ProcessTransaction") and "RedoPath" in at[1]):
                forwarder = at[0] in ("&F", "F", "&mut F")
                sites.append((b, i, forwarder))
    n_direct = 0
    for b, i, fwd in sites:
        if fwd:
            continue            # `move |ptx, path| should_build_func(ptx, path).map_err(..)`: the adapter itself
        n_direct += 1
        ok = b.key == J.key
        ctx.ob(rid, "%s|invokes-the-dirtiness-callback" % b.key, ok, where=ctx.where(b, i),
               detail="verdict taken in %s, which runs with the lock owned" % b.key if ok else
               "%s asks the dirtiness callback itself: a build/skip decision is taken outside BuildJob::start, i.e. possibly without the target's lock and before another process's result is recorded" % b.key)
    ctx.floor(rid, "invocations of the dirtiness callback", n_direct, 1)
    # a target found locked is queued / waited for
    from core import FA
    S = anchors.scheduler(prog)
    # the scheduler family: the body that constructs BuildJob plus the local coroutines it awaits (a pass that was
    # moved into an `async fn` of its own)
    fam = [S]
    for (_, _, _, callee) in BA.of(S).awaits():
        cb = prog.bodies.get(callee or "")
        if cb is not None and cb.coroutine and cb.key not in [x.key for x in fam]:
            fam.append(cb)
    PUSH = r"alloc::collections::vec_deque::VecDeque::push_back"
    MOVES_ON = r"(<.* as )?core::iter::traits::iterator::Iterator(>)?::next|alloc::collections::vec_deque::VecDeque::pop_front|jobserver::JobServerHandle::wait_all"
    n = 0
    for B_ in fam:
        bba = BA.of(B_)
        fa = FA.of(B_)
        owned = bba.switches_on_call(r"state::Lock::is_owned")
        jobs = [bb for (bb, _, _) in anchors.agg_sites(B_, r"builder::BuildJob")]
        pushes = set(i for i in bba.all_calls() if any(re.fullmatch(PUSH, p) for p in callee_paths(B_.blocks[i]["term"])))
        moves_on = set(i for i in bba.all_calls() if any(re.fullmatch(MOVES_ON, p) for p in callee_paths(B_.blocks[i]["term"])))
        for k, (sw, t_t, f_t, call_bb) in common.ordinal_keys([("is_owned", x) for x in owned]):
            guards_job = any(bba.edge_dominates((sw, t_t), j) for j in jobs)
            if B_.key == S.key and not guards_job:
                continue
            if B_.key != S.key:
                # a waiting coroutine: it must not complete normally on the not-owned side
                if not bba.calls(r"state::Lock::wait_lock"):
                    continue
                goal = set(common.ok_returns(B_)) if hasattr(common, "ok_returns") else set(bba.returns())
            else:
                goal = moves_on
            n += 1
            p_ = fa.path([f_t], goal, avoid=pushes | {sw}, incl=True)
            ctx.ob(rid, "%s|%s|not-owned=>queued-or-waited-for" % (B_.key, k), p_ is None, where=ctx.where(B_, sw),
                   detail="on the not-owned side the target is queued (push_back) or the lock is waited for" if p_ is None else
                   "a target whose lock is held elsewhere can be dropped without being queued: path %s reaches the next piece of work" % " -> ".join("bb%d" % x for x in p_), witness=p_)
    ctx.floor(rid, "is_owned tests guarding a BuildJob / a blocking wait", n, 2)


# ------------------------------------------------------------------------------------------------
# R8.10  the cheat pipe is inherited only together with the token pipe (-j0)

def _copy_root(ba, l, depth=6):
    for _ in range(depth):
        d = ba.single_def(l)
        if d is None or d[0] != "stmt" or d[3]["k"] != "use":
            return l
        pl = d[3]["op"].get("copy") or d[3]["op"].get("move")
        if pl is None or pl["p"]:
            return l
        l = pl["l"]
    return l


def cheat_pipe_only_for_j0(ctx, rid, rid2="R8.12"):
    ctx.rule(rid, "JobServer::setup reads the inherited cheat pipe (REDO_CHEATFDS) only on the max_jobs == 0 side: a sub-redo that starts its own jobserver gets its own cheat pipe")
    if rid2:
        ctx.rule(rid2, "(F-AG) JobServer::setup: every feasible path to the read of REDO_CHEATFDS passes the point where the parent's token pipe (--jobserver-auth in MAKEFLAGS) is taken over: a cheat pipe belongs to its token pipe")
    prog = ctx.prog
    su = None
    site = []
    for b in prog.bodies.values():
        ba = BA.of(b)
        for i in ba.calls(r"std::env::(var|var_os)"):
            t = b.blocks[i]["term"]
            c = op_const(t["args"][0]) if t.get("args") else None
            if c is not None and c.get("str") == "REDO_CHEATFDS":
                site.append((b, i))
    if not ctx.floor(rid, "reads of REDO_CHEATFDS", len(site), 1):
        return
    from core import FAL
    for n, (b, i) in enumerate(site):
        ba = BA.of(b)
        j0 = [(sw, eq_t) for (sw, ne_t, eq_t, x) in common.cmp_const_switches(b, 0) if _copy_root(ba, x) == 1]
        for bb in sorted(ba.live):      # `match max_jobs { 0 => .., 1 => .., _ => .. }`
            tt = b.blocks[bb]["term"]
            if tt["t"] == "switch" and re.fullmatch(r"[iu](8|16|32|64|size)", tt["discr_ty"]) and op_local(tt["discr"]) is not None \
                    and _copy_root(ba, op_local(tt["discr"])) == 1:
                arms = {v: tg for v, tg in tt["arms"]}
                if 0 in arms and arms[0] != tt["otherwise"]:
                    j0.append((bb, arms[0]))
        direct = any(ba.edge_dominates(e, i) for e in j0)
        # the blocks on which the parent's token pipe is taken over: `Some((r, w))` built from what parse_makeflags found
        mk = ba.calls(r"jobserver::parse_makeflags")
        mk_t = taint(b, seeds={b.blocks[c]["term"]["dest"]["l"] for c in mk}, mode="derived") if mk else set()
        inherit = []
        for bb in sorted(ba.live):
            for st in b.blocks[bb]["stmts"]:
                if st["s"] == "assign" and st["rv"]["k"] == "agg" and st["rv"].get("variant") == "Some" and \
                        any(op_local(o) is not None and (op_local(o) in mk_t or any(x in mk_t for x in ba.ref_chain(op_local(o)))) for o in st["rv"]["ops"]):
                    inherit.append(bb)
        inh_j0 = bool(inherit) and all(any(ba.edge_dominates(e, bb) for e in j0) for bb in inherit)
        via_inherit = inh_j0 and FAL.of(b).path([0], [i], avoid=frozenset(inherit), incl=True) is None
        ok = direct or via_inherit
        ctx.ob(rid, "%s|REDO_CHEATFDS-read#%d|only-when-max_jobs==0" % (b.key, n), ok, where=ctx.where(b, i),
               detail="read under max_jobs == 0" if ok else "the inherited cheat pipe is read whatever -j says: a nested `redo -jN` consumes the outer build's compensation bytes")
        if rid2:
            ctx.ob(rid2, "%s|REDO_CHEATFDS-read#%d|only-together-with-the-inherited-token-pipe" % (b.key, n), via_inherit, where=ctx.where(b, i),
                   detail="the cheat pipe is inherited exactly where the parent's token pipe is" if via_inherit else
                   "REDO_CHEATFDS is read on a path on which no parent jobserver was found (MAKEFLAGS unset or without --jobserver-auth): the sub-redo starts a jobserver of its own but shares the enclosing build's cheat pipe and eats its compensation bytes")


# ------------------------------------------------------------------------------------------------
# R1.9 / R13.7  checking never refreshes what it checks

def check_never_refreshes_stamps(ctx, rid):
    ctx.rule(rid, "the dirtiness routine writes no stamp / checksum / changed-run field of a record (it may only forget a vanished target: is_generated, failed_runid): a check that stores the new stamp makes every later check of the same file clean")
    prog = ctx.prog
    D = anchors.dirtiness(prog)
    forbidden_fields = re.compile(r"f:state::File\.(stamp|csum|changed_runid)$")
    forbidden_calls = re.compile(r"state::File::(set_stamp|update_stamp|set_checksum|set_changed|set_generated|set_static|set_override)")
    ba = BA.of(D)
    bad = []
    for i, blk in enumerate(D.blocks):
        if i not in ba.live or blk.get("cleanup"):
            continue
        for st in blk["stmts"]:
            if st["s"] == "assign" and st["place"]["p"] and any(isinstance(x, str) and forbidden_fields.search(x) for x in st["place"]["p"][-1:]):
                bad.append((i, "writes %s" % st["place"]["p"][-1][2:]))
    for i in ba.all_calls():
        ps = callee_paths(D.blocks[i]["term"])
        if any(forbidden_calls.fullmatch(p) for p in ps):
            bad.append((i, "calls %s" % common.short(ps[0])))
    ctx.ob(rid, "%s|no-stamp-or-changed-write" % D.key, not bad, where=ctx.where(D, bad[0][0]) if bad else D.span,
           detail="the routine only reads stamps" if not bad else "the dirtiness routine %s: the record then compares equal for every later dependent" % "; ".join(x for _, x in bad))
    # positive control: the fields exist and are written by the builder side
    n = sum(1 for b in prog.bodies.values() if field_writes(b, r"state::File\.(stamp|csum|changed_runid)"))
    ctx.floor(rid, "bodies that write File.stamp/csum/changed_runid (positive control)", n, 3)


# ------------------------------------------------------------------------------------------------
# R17.6  redo-ood lists a target for every non-clean verdict

def ood_lists_every_nonclean(ctx, rid):
    ctx.rule(rid, "redo-ood reports a target whenever the shared dirtiness routine does not answer Clean: it never inspects the NeedTargets payload to drop a `maybe dirty` target")
    prog = ctx.prog
    O = prog.one(r"@bin::ood::run")
    bodies = [O] + [b for b in prog.bodies.values() if b.key.startswith(O.key + "::{")]
    bad = []
    n_verdict = 0
    for b in bodies:
        ba = BA.of(b)
        n_verdict += len(ba.calls(r"deps::is_dirty"))
        for i, blk in enumerate(b.blocks):
            if i not in ba.live or blk.get("cleanup"):
                continue
            for st in blk["stmts"]:
                if st["s"] != "assign":
                    continue
                for pl in common_places(st):
                    if any(isinstance(x, str) and (x == "as:NeedTargets" or x.startswith("f:deps::Dirtiness::NeedTargets")) for x in pl["p"]):
                        bad.append((b, i))
    if not ctx.floor(rid, "is_dirty calls in redo-ood", n_verdict, 1):
        return
    ctx.ob(rid, "%s|NeedTargets-payload-not-inspected" % O.key, not bad, where=ctx.where(bad[0][0], bad[0][1]) if bad else O.span,
           detail="the verdict is only tested for Clean" if not bad else "redo-ood looks inside NeedTargets(..) to decide whether to list the target: dependents of an uncertain checksummed target are omitted although redo-ifchange will rebuild them")


def common_places(st):
    out = [st["place"]]
    from core import rvalue_places
    try:
        out.extend(rvalue_places(st["rv"]))
    except Exception:
        pass
    return [p for p in out if p is not None]


# ------------------------------------------------------------------------------------------------
# R18.7  the `done` record's status is parsed with the type it was written with

def done_status_type_agrees(ctx, rid):
    ctx.rule(rid, "the exit status inside a `done` record is parsed as the integer type it is written with (i32, negative for death by signal)")
    prog = ctx.prog
    P = None
    for b in prog.bodies.values():
        if b.key.startswith("logs::") and "parse_done_text" in b.key and b.kind in ("Fn", "AssocFn"):
            P = b
    if P is None:
        cands = [b for b in prog.bodies.values() if b.key.startswith("logs::") and b.locals and "core::option::Option<(i32, &str)>" in b.locals[0].replace("'_ ", "").replace("&'b ", "&").replace("&'a ", "&")]
        if len(cands) != 1:
            raise AnchorError("role 'parser of the done record text' resolved to %d bodies" % len(cands))
        P = cands[0]
    ba = BA.of(P)
    parses = []
    for i in ba.all_calls():
        t = P.blocks[i]["term"]
        for p_ in callee_paths(t):
            m = re.fullmatch(r"core::str::(<impl str>::)?parse|<(\w+) as core::str::traits::FromStr>::from_str|core::str::traits::FromStr::from_str", p_)
            if m:
                ty = None
                for g in t.get("gargs", []):
                    if "ty" in g and re.fullmatch(r"[iu](8|16|32|64|128|size)", g["ty"]):
                        ty = g["ty"]
                if m.group(2):
                    ty = m.group(2)
                parses.append((i, ty))
                break
    if not ctx.floor(rid, "integer parses in the done-text parser", len(parses), 1):
        return
    # the writer: record_new_state formats `rv` (its type is read from the MIR local)
    R = anchors.record_new_state(prog)
    wty = R.locals[0] if re.fullmatch(r"[iu](8|16|32|64|128|size)", R.locals[0]) else "i32"
    for n, (i, ty) in enumerate(parses):
        ctx.ob(rid, "%s|parse#%d|status-type=%s" % (P.key, n, wty), ty == wty, where=ctx.where(P, i),
               detail="status parsed as %s, written as %s" % (ty, wty) if ty == wty else
               "status written as %s but parsed as %s: a record of a job killed by a signal (negative status) or out of that range does not parse and redo-log stops there" % (wty, ty))


# ------------------------------------------------------------------------------------------------
# R3.10  a merely uncertain target is never built on the spot (F-R)

def uncertain_is_not_built_directly(ctx, rid):
    ctx.rule(rid, "BuildJob::start runs the target's own .do only on a Dirty verdict: a NeedTargets verdict (some checksummed dependency *may* have changed) is settled first and the target re-evaluated, so that an unchanged checksum below stops the rebuild at any depth")
    prog = ctx.prog
    J = anchors.job_start(prog)
    SS = anchors.start_self(prog)
    jba = BA.of(J)
    dv = {v["name"]: v["discr"] for v in prog.adts["deps::Dirtiness"]["variants"]}
    sws = [(sw, jba.enum_switch(sw)) for sw in sorted(jba.live)]
    sws = [(sw, es) for sw, es in sws if es and J.locals[es[0]["l"]] == "deps::Dirtiness"]
    if not sws:
        raise AnchorError("no switch on the Dirtiness verdict in %s" % J.key)
    starts = jba.calls(re.escape(SS.key))
    if not ctx.floor(rid, "calls of the .do-running body from the verdict dispatcher", len(starts), 1):
        return
    for sw, es in sws:
        nt = es[1].get(dv["NeedTargets"], es[2])
        dt = es[1].get(dv["Dirty"], es[2])
        p_nt = jba.path([nt], starts, incl=True) if nt != dt else None
        if p_nt is not None:
            ctx.ob(rid, "%s|NeedTargets-arm|uncertain-verdict-builds-the-target" % J.key, False, where=ctx.where(J, p_nt[-1]),
                   detail="on the NeedTargets arm (REDO_NO_OOB side: the second phase of redo-unlocked and everything below it) the target is built at once although its checksummed dependencies are only *possibly* changed: with checksummed targets nested two deep (top -> mid -> leaf) a change of leaf that leaves mid's checksum unchanged still re-runs top.do",
                   witness=p_nt)
        ctx.ob(rid, "%s|Dirty-arm-builds" % J.key, jba.path([dt], starts, incl=True) is not None, where=ctx.where(J, sw), detail="the Dirty arm runs the .do")


# ------------------------------------------------------------------------------------------------
# R10.8  the output is moved into place while the transaction that records it is open

def rename_inside_result_transaction(ctx, rid):
    ctx.rule(rid, "fs::rename(tmp -> target) runs while the transaction that records the new stamp is still open (never after its commit): a kill before the commit then rolls the database back next to the old or the new file, whereas a commit followed by a kill leaves the new stamp next to the old file for ever")
    prog = ctx.prog
    R = anchors.record_new_state(prog)
    ba = BA.of(R)
    ren = ba.calls(r"std::fs::rename")
    has_open_txn_param = any(re.fullmatch(r"&mut state::ProcessTransaction(<.*>)?", R.locals[p]) for p in range(1, R.arg_count + 1))
    commits = ba.calls(r"state::ProcessTransaction::commit")
    news = ba.calls(r"state::ProcessTransaction::new")
    ok = False
    why = ""
    if has_open_txn_param and not any(ba.dominates(c, ren[0]) for c in commits):
        ok = True
        why = "%s renames while it borrows the caller's open transaction (`&mut ProcessTransaction`; commit consumes the transaction by value)" % R.key
    elif news and any(ba.dominates(n, ren[0]) for n in news) and not any(ba.path([c], [ren[0]], incl=False) is not None for c in commits):
        ok = True
        why = "the rename follows ProcessTransaction::new and precedes every commit in %s" % R.key
    else:
        why = "the rename in %s is not inside an open transaction (it can run after the commit of the new stamp)" % R.key
    ctx.ob(rid, "rename-before-commit-of-result", ok, where=ctx.where(R, ren[0]), detail=why)
    if not has_open_txn_param:
        return
    # and the caller commits after the call that renames
    RR = anchors.result_recorder(prog)
    rba = BA.of(RR)
    calls = rba.calls(re.escape(R.key))
    cm = rba.calls(r"state::ProcessTransaction::commit")
    ok2 = bool(calls) and bool(cm) and all(rba.path([c], calls, incl=False) is None for c in cm) and any(rba.path([calls[0]], [c], incl=False) is not None for c in cm)
    ctx.ob(rid, "commit-follows-the-recording-call", ok2, where=ctx.where(RR, calls[0]) if calls else RR.span,
           detail="commit is reached only after %s returned" % R.key)


# ------------------------------------------------------------------------------------------------
# R10.10  an interrupted creation of the database is finished by the next run (F-Q)

def interrupted_creation_is_recoverable(ctx, rid):
    ctx.rule(rid, "ProcessState::init's choice between `create the schema` and `check the schema version` depends on what the database contains (a query), not on the existence of the file alone: a first invocation killed before its creating transaction commits leaves an empty file that the next run must initialise")
    prog = ctx.prog
    I = prog.one(r"state::ProcessState::init")
    ba = BA.of(I)
    from core import str_consts
    # the schema-creating side: where the tables are created / the version row is inserted (the statements may sit in a
    # constant table, so one literal is enough to locate the side)
    creates = sorted({bb for (bb, _, txt, _) in str_consts(I) if re.match(r"\s*(create\s+table|insert\s+into\s+schema)\b", txt, re.I)})
    if not ctx.floor(rid, "schema-creating statements in init", len(creates), 1):
        return
    # the switch that separates the creating side from the checking side (a bool test, or a match on a two-way enum)
    guards = []
    rets = ba.returns()
    for sw in sorted(ba.live):
        t = I.blocks[sw]["term"]
        if t["t"] != "switch":
            continue
        bs = ba.bool_switch(sw)
        if bs:
            sides = [bs[0], bs[1]]
        else:
            es = ba.enum_switch(sw)
            if not es:
                continue
            ty_ = I.locals[es[0]["l"]]
            if ty_.startswith("core::ops::control_flow::ControlFlow") or ty_.startswith("core::result::Result") or ty_.startswith("core::option::Option"):
                continue        # `?` and error handling are not the create-or-check decision
            sides = sorted(set(list(es[1].values()) + ([es[2]] if es[2] is not None else [])))
        if sum(1 for x in sides if ba.path([x], rets, incl=True) is not None) < 2:
            continue        # an assertion / `?` (one side only fails) is not a decision
        for side in sides:
            if all(ba.edge_dominates((sw, side), c) for c in creates):
                guards.append((sw, side))
    if not guards:
        raise AnchorError("no boolean test separates the schema-creating statements of %s" % I.key)
    # closest guard = the one dominated by all the others
    sw, side = guards[0]
    for g, sd in guards:
        if all(ba.dominates(o, g) for o, _ in guards):
            sw, side = g, sd
    d = op_local(I.blocks[sw]["term"]["discr"])
    es_ = ba.enum_switch(sw)
    if es_ and not ba.bool_switch(sw):
        d = es_[0]["l"]         # the enum value whose discriminant is switched on
    queries = [i for i in ba.all_calls() if any(re.fullmatch(r"rusqlite::(Connection|Transaction|Statement)(<.*>)?::(query_row|query|query_map|exists|prepare|pragma_query_value|query_row_and_then)|rusqlite::Connection::query_row", p) for p in callee_paths(I.blocks[i]["term"]))
               and ba.path([i], [sw], incl=False) is not None and not ba.edge_dominates((sw, side), i)]
    tnt = taint(I, seeds={I.blocks[i]["term"]["dest"]["l"] for i in queries}, mode="derived") if queries else set()
    from core import rvalue_places

    def data_roots(l):
        seen_, work_ = set(), list(set(ba.ref_chain(l)) | {l})
        while work_:
            x = work_.pop()
            if x in seen_:
                continue
            seen_.add(x)
            for dd in ba.defs.get(x, []):
                if dd[0] == "stmt":
                    for pl in rvalue_places(dd[3]):
                        if pl is not None:
                            work_.append(pl["l"])
                elif dd[0] == "call" and any(re.fullmatch(r"(core::cmp::PartialEq|<.* as core::cmp::PartialEq(<.*>)?>)::(eq|ne)|core::intrinsics::discriminant_value|core::mem::discriminant", q) for q in callee_paths(dd[2])):
                    # `decision == Decision::Create` on a two-way enum (derived PartialEq): the value is what is compared
                    for a_ in dd[2]["args"]:
                        if op_local(a_) is not None:
                            work_.append(op_local(a_))
                            bl_ = ba.base_local_of_ref(op_local(a_))
                            if bl_ is not None:
                                work_.append(bl_)
        return seen_

    def depends_on_query(l, depth=3, visited=None):
        visited = visited if visited is not None else set()
        if l in visited or depth < 0:
            return False
        visited.add(l)
        roots = data_roots(l)
        if any(x in tnt for x in roots):
            return True
        # control dependence: the value is a constant / variant chosen by an earlier test - look at what that test reads
        def_blocks = {dd[1] for x in roots for dd in ba.defs.get(x, []) if dd[0] == "stmt" and dd[3]["k"] in ("agg", "use") and not [pl for pl in rvalue_places(dd[3]) if pl is not None]}
        for s2 in sorted(ba.live):
            if s2 == sw or not (ba.dominates(s2, sw) or ba.path([s2], [sw], incl=True) is not None):
                continue        # (a test inside an earlier conditional block may choose the value, too: `if probing { if tables == 0 { decision = Create } }`)
            t2 = I.blocks[s2]["term"]
            if t2["t"] != "switch":
                continue
            tgts = {tg for _, tg in t2["arms"]} | {t2["otherwise"]}
            split = {tg: {b_ for b_ in def_blocks if ba.edge_dominates((s2, tg), b_)} for tg in tgts}
            if sum(1 for v in split.values() if v) >= 2 or (sum(1 for v in split.values() if v) == 1 and len(def_blocks) >= 2):
                d2 = op_local(t2["discr"])
                es2 = ba.enum_switch(s2)
                if es2 and not ba.bool_switch(s2):
                    d2 = es2[0]["l"]
                if d2 is not None and depends_on_query(d2, depth - 1, visited):
                    return True
        return False
    ok = depends_on_query(d)
    ctx.ob(rid, "%s|creation-decided-on-database-content" % I.key, ok, where=ctx.where(I, sw),
           detail="the create/check decision also derives from a query of the database" if ok else
           "the create/check decision rests on the file's existence only: after a kill between the creation of the file and the commit of the schema every later run fails with `no such table: Schema`")


# ------------------------------------------------------------------------------------------------
# R12.9  every `m` dependency is descended into

def every_modified_dep_is_descended(ctx, rid):
    from rules import dirt
    ctx.rule(rid, "in the dependency loop of the dirtiness routine every Modified edge reaches the recursive call (where the visited-set test raises CyclicDependency): no edge is skipped on the strength of the visited set")
    d = dirt.Dirt(ctx.prog)
    D, ba = d.D, d.ba
    if not d.mode_sw or not d.rec:
        ctx.ob(rid, "%s|mode-switch-and-recursion" % D.key, False, where=D.span, detail="no DepMode switch / recursive call found")
        return
    nexts = set(i for i in ba.all_calls() if any(re.fullmatch(r"(<.* as )?core::iter::traits::iterator::Iterator(>)?::next", p) for p in callee_paths(D.blocks[i]["term"])))
    for n, (sw, arms, other) in enumerate(d.mode_sw):
        m_t = arms.get(d.modified_val, other)
        goal = nexts | set(ba.returns())
        p = ba.path([m_t], goal, avoid=set(d.rec), incl=True)
        ctx.ob(rid, "%s|mode-switch#%d|Modified=>recursive-call" % (D.key, n), p is None, where=ctx.where(D, sw),
               detail="every path of the Modified arm passes the recursive call" if p is None else
               "a Modified dependency can be left without descending into it: path %s" % " -> ".join("bb%d(%s)" % (x, D.line(x).split(":")[-1]) for x in p), witness=p)


# ------------------------------------------------------------------------------------------------
# R16.7  creating the state directory tolerates losing the race

def state_dir_creation_is_idempotent(ctx, rid):
    ctx.rule(rid, "ProcessState::init's create_dir of the state directory may fail with AlreadyExists and go on (or is create_dir_all): a check-then-create loses against a concurrent first invocation")
    prog = ctx.prog
    I = prog.one(r"state::ProcessState::init")
    ba = BA.of(I)
    cds = ba.calls(r"std::fs::create_dir")
    cont = set(anchors.lock_open_calls(prog, I))
    if not cont:
        raise AnchorError("the lock file is not opened from %s" % I.key)
    if not cds:
        n_all = ba.calls(r"std::fs::create_dir_all")
        ctx.ob(rid, "%s|state-dir-created" % I.key, bool(n_all), where=I.span, detail="create_dir_all (idempotent)" if n_all else "the state directory is not created in init")
        return
    for n, c in enumerate(cds):
        dest = I.blocks[c]["term"]["dest"]["l"]
        tnt = taint(I, seeds={dest}, mode="derived")
        ok = False
        for sw in sorted(ba.live):
            es = ba.enum_switch(sw)
            if not es or es[0]["l"] not in tnt:
                continue
            place, arms, other = es
            if "core::result::Result" not in I.locals[place["l"]]:
                continue
            err_t = arms.get(1, other)
            if ba.path([err_t], cont, incl=True) is not None and not ba.dominates(err_t, min(cont)) is None:
                # the Err side can go on to open the lock manager
                if ba.path([err_t], cont, avoid={sw}, incl=True) is not None:
                    ok = True
        ctx.ob(rid, "%s|create_dir#%d|Err-can-continue" % (I.key, n), ok, where=ctx.where(I, c),
               detail="an AlreadyExists failure goes on to open the lock file" if ok else "every failure of create_dir (including AlreadyExists from a concurrent first invocation) is fatal")


# ------------------------------------------------------------------------------------------------
# R18.8  a target is marked as shown only where it was shown (or known to be)

def seen_only_when_shown(ctx, rid):
    ctx.rule(rid, "in redo-log's record loop a target is added to the already-shown set only on a path that emitted its header (logs::meta) or tested that it was already there: a record that is merely passed over must not hide the target's later build")
    prog = ctx.prog
    C = prog.one(r"@bin::log::LogState::catlog")
    ba = BA.of(C)
    parse = ba.calls(r"logs::Meta::parse")
    if not parse:
        raise AnchorError("Meta::parse is not called from %s" % C.key)

    def on_already(i):
        t = C.blocks[i]["term"]
        l = op_local(t["args"][0]) if t.get("args") else None
        for x in ([l] + ba.ref_chain(l)) if l is not None else []:
            dd = ba.single_def(x)
            if dd and dd[0] == "stmt" and dd[3]["k"] == "ref" and any(isinstance(e, str) and e.endswith("LogState.already") for e in dd[3]["place"]["p"]):
                return True
        return False
    ins = [i for i in ba.calls(r"std::collections::hash::set::HashSet::insert") if on_already(i)]
    con = [i for i in ba.calls(r"std::collections::hash::set::HashSet::contains") if on_already(i)]
    meta = ba.calls(r"logs::meta")
    loop_ins = [i for i in ins if ba.path(parse, [i], incl=False) is not None]
    if not ctx.floor(rid, "insertions into the already-shown set inside the record loop", len(loop_ins), 2):
        return
    for n, i in enumerate(loop_ins):
        p = ba.path(parse, [i], avoid=set(meta) | set(con), incl=False)
        ctx.ob(rid, "%s|already.insert#%d|after-header-or-membership-test" % (C.key, n), p is None, where=ctx.where(C, i),
               detail="reached only through logs::meta or a contains() test" if p is None else
               "the target is marked as shown on a path that printed nothing for it: %s" % " -> ".join("bb%d(%s)" % (x, C.line(x).split(":")[-1]) for x in p[-8:]), witness=p)


# ------------------------------------------------------------------------------------------------
# R18.9  a record that follows a partial line is still a record (F-S)

def record_after_partial_line(ctx, rid):
    ctx.rule(rid, "redo-log's follower recognises a structured record wherever it starts in an assembled line: the text handed to Meta::parse is not the plain concatenation `pending partial line + next line` (a record written right after a script's unterminated output would then be taken for text and the nested target never followed)")
    prog = ctx.prog
    C = prog.one(r"@bin::log::LogState::catlog")
    ba = BA.of(C)
    parse = ba.calls(r"logs::Meta::parse")
    ew = ba.switches_on_call(r"core::str::<impl str>::ends_with")
    if not parse or not ew:
        raise AnchorError("Meta::parse / ends_with not found in %s" % C.key)
    # the pending-head buffer: a String (other than the read buffer itself) onto which text from the read buffer is appended
    reads = ba.calls(r".*::read_(line|until)")
    bufs = set()
    for r_ in reads:
        a = C.blocks[r_]["term"]["args"]
        if len(a) > 1 and op_local(a[-1]) is not None:       # read_line(r, buf) / read_until(r, delim, buf)
            bufs.add(ba.base_local_of_ref(op_local(a[-1])))
    # (bytes read with read_until become the line through a lossy UTF-8 conversion: the same text)
    lt = taint(C, seeds=bufs, mode="direct", through=re.compile(r"alloc::string::String::from_utf8(_lossy|_unchecked)?|alloc::borrow::Cow::<'_, B>::into_owned|alloc::borrow::Cow::.*into_owned|core::result::Result::<T, E>::(unwrap|expect|unwrap_or_default)"))
    heads = set()
    for i in ba.calls(r"alloc::string::String::push_str"):
        a = C.blocks[i]["term"]["args"]
        src = op_local(a[1]) if len(a) > 1 else None
        if src is None or not (src in lt or any(x in lt for x in ba.ref_chain(src))):
            continue
        base = ba.base_local_of_ref(op_local(a[0]))
        if base not in lt:
            heads.add(base)
    if not ctx.floor(rid, "pending partial-line buffers", len(heads), 1):
        return
    tnt = taint(C, seeds=heads, mode="derived")
    searches = [i for i in ba.all_calls() if any(re.fullmatch(r"core::str::<impl str>::(find|rfind|split_once|rsplit_once|match_indices|contains)", p) for p in callee_paths(C.blocks[i]["term"]))
                and any((op_const(a) or {}).get("named", "").endswith("PREFIX") or (op_const(a) or {}).get("str", "").startswith("@@REDO") for a in C.blocks[i]["term"]["args"][1:])]
    for k, pc in common.ordinal_keys([("parse", x) for x in parse]):
        a0 = op_local(C.blocks[pc]["term"]["args"][0])
        dirty = a0 in tnt or any(x in tnt for x in ba.ref_chain(a0))
        ok = (not dirty) or any(ba.dominates(sx, pc) for sx in searches)
        ctx.ob(rid, "%s|%s|record-start-searched-in-assembled-line" % (C.key, k), ok, where=ctx.where(C, pc),
               detail="the parser input is searched for a record start (or never contains a pending head)" if ok else
               "the pending partial line is glued in front of the next line and the result parsed as a whole: `partial text@@REDO:do:...` is not a record, the nested target's log is not followed and its lines are lost from the live view and the replay")


# ------------------------------------------------------------------------------------------------
# R3.11  redo-stamp hashes all of its input

def stamp_reads_to_eof(ctx, rid):
    ctx.rule(rid, "redo-stamp's checksum covers the whole of stdin: the data reaches the hasher through io::copy / read_to_end, or through a read loop that ends only on a zero-length read (a short read from a pipe is not the end of the input)")
    prog = ctx.prog
    B = prog.one(r"@bin::stamp::run")
    ba = BA.of(B)
    whole = ba.calls(r"std::io::copy::copy|std::io::Read::read_to_end|std::io::Read::read_to_string|.*::read_to_end|.*::read_to_string")
    reads = [i for i in ba.all_calls() if any(re.fullmatch(r"(<.* as )?std::io::Read(>)?::read|std::io::Read::read|.*Stdin(Lock)? as std::io::Read>::read", p_) for p_ in callee_paths(B.blocks[i]["term"]))]
    if whole and not reads:
        ctx.ob(rid, "%s|input-consumed-to-EOF" % B.key, True, where=ctx.where(B, whole[0]), detail="%s consumes stdin to end of file" % common.short(callee_paths(B.blocks[whole[0]]["term"])[0]))
        return
    if not reads:
        ctx.ob(rid, "%s|input-consumed-to-EOF" % B.key, False, where=B.span, detail="no read of stdin found in redo-stamp")
        return
    for k, r_ in common.ordinal_keys([("read", x) for x in reads]):
        # the loop around this read may be left only on `n == 0` (or on an error)
        d = B.blocks[r_]["term"]["dest"]["l"]
        tn = taint(B, seeds={d}, mode="derived")
        bad = []
        for sw in sorted(ba.live):
            bs = ba.bool_switch(sw)
            if not bs:
                continue
            t_t, f_t, (kind, info) = bs
            if kind != "binop":
                continue
            rv = info[1]
            la, lb = op_local(rv["a"]), op_local(rv["b"])
            if not ((la in tn) or (lb in tn)):
                continue
            ca, cb = const_int(rv["a"]), const_int(rv["b"])
            zero_test = (ca == 0 or cb == 0) and rv["op"] in ("Eq", "Ne")
            if zero_test:
                continue
            # a comparison of the byte count with something else: does one side leave the loop (cannot come back to the read)?
            for side in (t_t, f_t):
                if ba.path([side], [r_], incl=True) is None:
                    bad.append(sw)
        ctx.ob(rid, "%s|%s|loop-ends-only-on-zero-length-read" % (B.key, k), not bad, where=ctx.where(B, bad[0] if bad else r_),
               detail="the read loop ends on a zero-length read only" if not bad else
               "the read loop is left on a test of the byte count other than `== 0`: a short read from a pipe ends the hashing early and later bytes never reach the checksum")


# ------------------------------------------------------------------------------------------------
# R4.8  how much the script wrote to stdout is read from the capture file itself

def stdout_amount_from_fstat(ctx, rid):
    ctx.rule(rid, "record_new_state learns whether the script wrote to stdout from the capture file's metadata (fstat size), not from the shared file offset: output produced by re-opening /dev/stdout moves no offset")
    prog = ctx.prog
    R = anchors.record_new_state(prog)
    ba = BA.of(R)
    meta = [i for i in ba.calls(r"std::fs::File::metadata")]
    offs = [i for i in ba.all_calls() if any(re.fullmatch(r"(<std::fs::File as std::io::Seek>|std::io::Seek)::(seek|stream_position)", p_) for p_ in callee_paths(R.blocks[i]["term"]))]
    mt = taint(R, seeds={R.blocks[i]["term"]["dest"]["l"] for i in meta}, mode="derived") if meta else set()
    ot = taint(R, seeds={R.blocks[i]["term"]["dest"]["l"] for i in offs}, mode="derived") if offs else set()
    n_meta = n_off = 0
    where = None
    for (sw, ne_t, eq_t, x) in common.cmp_const_switches(R, 0):
        pass
    for sw in sorted(ba.live):
        bs = ba.bool_switch(sw)
        if not bs or bs[2][0] != "binop":
            continue
        rv = bs[2][1][1]
        if rv["op"] not in ("Gt", "Lt", "Ge", "Le", "Eq", "Ne"):
            continue
        if const_int(rv["a"]) != 0 and const_int(rv["b"]) != 0:
            continue
        l = op_local(rv["a"]) if const_int(rv["b"]) == 0 else op_local(rv["b"])
        if l is None:
            continue
        if l in mt and "u64" in R.locals[l]:
            n_meta += 1
        elif l in ot and l not in mt:
            n_off += 1
            where = sw
    ok = n_meta >= 1 and n_off == 0
    ctx.ob(rid, "%s|stdout-size-from-metadata" % R.key, ok, where=ctx.where(R, where) if where is not None else R.span,
           detail="`wrote to stdout` is decided on File::metadata().size() (%d tests)" % n_meta if ok else
           ("`wrote to stdout` is decided on the file offset (seek): output written through a re-opened /dev/stdout is not seen, the target is deleted or $3 wins silently" if n_off else "no size test on the capture file's metadata found"))


# ------------------------------------------------------------------------------------------------
# R5.12  the dirtiness callback's error keeps its cause chain on the way to BuildJob::start

def callback_error_keeps_cause(ctx, rid):
    ctx.rule(rid, "the adapter that builder::run puts around the dirtiness callback converts its error with a constructor that keeps the original as `cause` (RedoError::wrap), because BuildJob::start recognises `already failed in this run` (ImmediateExit) by walking the cause chain")
    prog = ctx.prog
    fwd = []
    for b in prog.bodies.values():
        if not b.key.startswith("builder::run"):
            continue
        for i in BA.of(b).all_calls():
            t = b.blocks[i]["term"]
            at = t.get("arg_tys") or []
            if re.fullmatch(r"core::ops::function::Fn(Mut|Once)?::call(_mut|_once)?", strip_generics(t.get("callee") or "")) and len(at) == 2 and at[0] in ("&F", "F", "&mut F") and "ProcessTransaction" in at[1]:
                fwd.append(b)
    if not ctx.floor(rid, "adapter closures around the dirtiness callback", len(fwd), 1):
        return
    J = anchors.job_start(prog)
    walks = any(re.search(r"error::Error(>)?::source|immediate_exit_code", p_) for b in [J] + [prog.bodies[k] for k in ctx.cg.reachable([J.key], indirect=False) if k in prog.bodies and k.startswith("builder::")]
                for i in BA.of(b).all_calls() for p_ in callee_paths(b.blocks[i]["term"]))
    for b in fwd:
        fam = [b] + [c for k, c in prog.bodies.items() if k.startswith(b.key + "::{")]
        keeps = [c for c in fam if BA.of(c).calls(r"error::RedoError::wrap")]
        drops = [c for c in fam if BA.of(c).calls(r"error::RedoError::(opaque_error|new)")]
        ok = bool(keeps) and not drops
        ctx.ob(rid, "%s|error-converted-with-cause" % b.key, ok or not walks, where=b.span,
               detail="the callback's error is wrapped with its cause kept" if ok else
               "the callback's error is flattened (opaque_error / new): ImmediateExit(32) is no longer found in the cause chain, `already failed` aborts the whole command and --keep-going stops building")


# ------------------------------------------------------------------------------------------------
# R5.13  redo exports a boolean option only when it was given

def flags_exported_only_when_set(ctx, rid):
    ctx.rule(rid, "`redo` exports its boolean options (REDO_KEEP_GOING, ...) with the constant \"1\" only: no set_var in the option export writes a value chosen between two strings by a flag, which would overwrite an option inherited from the enclosing `redo -k` with `off`")
    prog = ctx.prog
    B = prog.one(r"@bin::run_redo")
    fam = [B] + [c for k, c in prog.bodies.items() if k.startswith(B.key + "::")]
    n = 0
    n_one = 0
    for b in fam:
        ba = BA.of(b)
        for k_, i in common.ordinal_keys([("set_var", x) for x in ba.calls(r"std::env::set_var")]):
            t = b.blocks[i]["term"]
            if len(t["args"]) < 2:
                continue
            org = common.const_origins(b, t["args"][1])
            consts = [c.get("str") for (kind, bb, c) in org if kind == "const" and isinstance(c, dict) and "str" in c]
            others = [kind for (kind, bb, c) in org if kind != "const"]
            if not consts:
                continue            # a computed value (a count, an inherited default): not a boolean option
            n += 1
            if consts == ["1"] * len(consts) and not others:
                n_one += 1
            bad = [c for c in consts if c != "1"]
            ctx.ob(rid, "%s|%s|constant-value-is-1" % (b.key, k_), not bad, where=ctx.where(b, i),
                   detail="writes \"1\"" if not bad else "this export can write %r: given without the flag it overwrites an inherited setting with `off`" % bad[0])
    ctx.floor(rid, "option exports that write the constant \"1\"", n_one, 1)


# ------------------------------------------------------------------------------------------------
# R6.10  the lock file is opened once per process

def _str_lit_taint(body, only=None):
    """({literal: locals that (may) hold a value computed from that string literal}, None): derived value flow seeded at
    every use of a string literal as an operand (`p.push("locks")` taints p, `let n = "locks"` taints n, f("locks") its result)."""
    from core import taint
    ba = BA.of(body)
    seeds = {}
    for blk in body.blocks:
        for st in blk["stmts"]:
            if st["s"] == "assign" and st["rv"]["k"] in ("use", "cast"):
                o = st["rv"].get("op")
                cs = const_str(o) if o is not None else None
                if cs is not None and (only is None or cs in only):
                    seeds.setdefault(cs, set()).add(st["place"]["l"])
        t = blk["term"]
        if t["t"] == "call":
            for a in t["args"]:
                cs = const_str(a)
                if cs is None or (only is not None and cs not in only):
                    continue
                seeds.setdefault(cs, set()).add(t["dest"]["l"])
                for a2 in t["args"]:
                    l2 = op_local(a2)
                    if l2 is not None:
                        pl = ba.resolve_ref(l2)
                        if pl is not None:
                            seeds[cs].add(pl["l"])
    out = {}
    for cs, sd in seeds.items():
        out[cs] = taint(body, seeds=sd, mode="derived")
    return out, None


def probe_forks_while_owning(ctx, rid):
    """Seeds C16-6 / C09-8: the WSL broken-locks probe proves fcntl works by forking a child that must *fail* to get a
    lock the parent holds. That is only a proof if the parent holds it: Lock typestate at the fork must be `owned`
    (wait_lock, or try_lock refined by is_owned). With a bare try_lock a concurrent start-up holding byte 0 makes the
    child succeed -> `locks broken` -> journal_mode=PERSIST on a live WAL database -> "database is locked"."""
    import typestate
    ctx.rule(rid, "LockManager::detect_broken_locks forks its probe child only while it owns the probe lock (Lock typestate at the fork is `owned` on every path): otherwise another command's start-up makes the probe report broken locks and the database is switched to a journal mode that fails while anybody else has it open")
    prog = ctx.prog
    b = prog.one(r"state::LockManager::detect_broken_locks")
    ba = BA.of(b)
    forks = ba.calls(r"nix::unistd::fork")
    news = [i for i in ba.calls(r"state::ProcessState::new_lock|state::Lock::new") if forks and ba.path([i], forks) is not None]
    if not forks or not news:
        raise AnchorError("%s: fork / probe lock of detect_broken_locks not located" % rid)
    pre = typestate.derive_preconditions(prog)
    for f in forks:
        sts = set()
        for i in news:
            d = b.blocks[i]["term"]["dest"]
            if d["p"]:
                continue
            ts = typestate.LockTS(prog, b, [d["l"]], preconds=pre)
            st = ts.state_at(f)
            if st:
                sts |= set(st)
        ok = sts == {"O"}
        ctx.ob(rid, "detect_broken_locks|fork|probe-lock-owned", ok, where=ctx.where(b, f),
               detail="the parent owns the probe lock when the child is forked" if ok else
               "the probe child can be forked while the parent does not own the probe lock (typestate %s): if another command is starting up, the child gets the lock, `broken locks` is reported and this command fails with `database is locked`" % sorted(sts))


def follower_reads_after_probe(ctx, rid):
    """Seed C18-8: the log follower may stop (`no new lines and nobody holds the target's lock: done`) only if the empty
    read happened *after* the probe that found the lock free. Probe first, then one more read: whatever the job wrote
    before it released the lock is in the file by then. Read first, then probe: the job's last lines, its exit and the
    unlock can all fall between the two, and the viewer ends without them."""
    ctx.rule(rid, "redo-log's follower: between every probe of the target's lock and the end of the follow loop there is another attempt to read the log (read_line, or opening a log that did not exist yet): the last lines written before the lock was released are never skipped")
    prog = ctx.prog
    b = prog.one(r"@bin::log::LogState::catlog")
    ba = BA.of(b)
    # the probe: the helper, or (inlined) a non-blocking try_lock on a lock made for the purpose
    probes = ba.calls(r"@bin::log::is_locked") + ba.calls(r"state::Lock::try_lock")
    reads = ba.calls(r".*::BufRead(>)?::read_(line|until)|.*::read_(line|until)|std::fs::File::open")
    rl = [i for i in reads if any(q.endswith("read_line") or q.endswith("read_until") for q in callee_paths(b.blocks[i]["term"]))]
    # "there is no reader" (no log file yet) is decided by the open attempt of the same iteration; the None side of
    # `if let Some(f) = reader.as_mut()` can only be taken behind it
    for sw in sorted(ba.live):
        es = ba.enum_switch(sw)
        if es and not es[0]["p"] and b.locals[es[0]["l"]].startswith("core::option::Option<&mut ") and "BufRead" in b.locals[es[0]["l"]]:
            none_t = es[1].get(0, es[2])
            reads = reads + [none_t]
    oks = common.returned_ok_blocks(b)
    if not probes or not rl or not oks:
        raise AnchorError("%s: lock probe / read_line / Ok return of the log follower not located (probes=%d reads=%d)" % (rid, len(probes), len(rl)))
    for k, i in common.ordinal_keys([("is_locked", i) for i in probes]):
        pth = ba.path([i], oks, avoid=frozenset(reads))
        ctx.ob(rid, "%s|%s|read-attempt-before-the-loop-can-end" % (b.key, k), pth is None, where=ctx.where(b, i),
               detail="after this probe the loop cannot end without trying to read again" if pth is None else
               "the follower can stop right after this probe without reading again: output written between its last (empty) read and the probe - typically the script's final lines - is never shown in the live view", witness=pth)


def parse_keeps_text_verbatim(ctx, rid):
    """Seed C18-7: a record's text (a target name, a message) is data: parse(format(x)) must give x back for every text
    without a newline, including text that ends in blanks. Nothing computed by a trimming / case-folding / replacing
    string function may reach the `text` of the parsed record, and the callers strip exactly the line terminator."""
    from core import taint
    ctx.rule(rid, "Meta::parse hands back the record's text verbatim: no result of a str trimming / replacing / case function flows into Meta.text, and the follower passes the line with exactly the terminating newline removed")
    prog = ctx.prog
    LOSSY = r"core::str::<impl str>::(trim\w*|to_\w*case\w*|replace\w*)|alloc::str::<impl str>::(to_\w*case\w*|replace\w*)"
    mp = prog.one(r"logs::Meta::parse")
    tn = taint(mp, src_call=lambda t_: call_matches(t_, LOSSY), mode="derived")
    aggs = [(bb, s_) for bb, blk in enumerate(mp.blocks) for s_ in blk["stmts"]
            if s_["s"] == "assign" and s_["rv"]["k"] == "agg" and s_["rv"].get("adt") == "logs::Meta" and "text" in (s_["rv"].get("fields") or [])]
    if not aggs:
        raise AnchorError("%s: construction of logs::Meta in Meta::parse not located" % rid)
    mba = BA.of(mp)
    for n, (bb, s_) in enumerate(aggs):
        o = s_["rv"]["ops"][s_["rv"]["fields"].index("text")]
        l = op_local(o)
        bad = l is not None and (l in tn or any(x in tn for x in mba.ref_chain(l)))
        ctx.ob(rid, "Meta::parse|Meta#%d|text-verbatim" % n, not bad, where=ctx.where(mp, bb),
               detail="the text field is a slice of the input, untouched" if not bad else
               "the parsed text has passed a trimming / replacing string function: a target name or message that ends in blanks no longer survives format -> parse, and the viewer then looks up the wrong target (`not known to redo`) and drops the rest of the build's output")
    # callers: what reaches parse is the line minus (at most) the newline
    n = 0
    for b in prog.bodies.values():
        ba = BA.of(b)
        for i in ba.calls(r"logs::Meta::parse"):
            if b.key.startswith("logs::tests") or "::tests::" in b.key:
                continue
            a = op_local(b.blocks[i]["term"]["args"][0])
            if a is None:
                continue
            from rules.C06 import backward_direct
            sl, org, _ = backward_direct(b, a, depth=30)
            for o in org:
                if o[0] != "call" or not call_matches(o[2], LOSSY):
                    continue
                n += 1
                t = o[2]
                only_nl = any(q.endswith("::trim_end_matches") or q.endswith("::strip_suffix") for q in callee_paths(t)) and len(t["args"]) == 2 and \
                    ((op_const(t["args"][1]) or {}).get("int") == 10 or const_str(t["args"][1]) == "\n")
                ctx.ob(rid, "%s|parse-argument|only-the-newline-stripped" % b.key, only_nl, where=ctx.where(b, o[1]),
                       detail="the caller strips the line terminator and nothing else" if only_nl else
                       "the caller trims more than the terminating newline before parsing: trailing blanks of a target name are lost")


def record_content_never_panics(ctx, rid):
    """F-AC: a build script's stderr goes into the same file as redo's own records, so a line that merely looks like a
    record reaches the record branch of the follower. What is read out of such a line (Meta::text / kind / done_text ..)
    is script-controlled data: an `expect` / `unwrap` on it, or an `assert!` about it, lets one odd line of output kill
    the viewer - the rest of the build's output is then missing from the live view and from redo-log."""
    from core import taint
    ctx.rule(rid, "redo-log's follower never panics on the content of a parsed record: no expect/unwrap whose operand is what a logs::Meta accessor returned, and no assertion whose condition is computed from it (script output that looks like a malformed record is shown as text)")
    prog = ctx.prog
    b = prog.one(r"@bin::log::LogState::catlog")
    ba = BA.of(b)
    parses = ba.calls(r"logs::Meta::parse")
    if not parses:
        raise AnchorError("%s: Meta::parse call of the log follower not located" % rid)
    g_t = taint(b, seeds={b.blocks[i]["term"]["dest"]["l"] for i in parses}, mode="direct")
    acc = [i for i in ba.calls(r"logs::Meta::\w+") if i not in parses and any(op_local(a) is not None and (op_local(a) in g_t or any(x in g_t for x in ba.ref_chain(op_local(a)))) for a in b.blocks[i]["term"]["args"])]
    c_t = taint(b, seeds={b.blocks[i]["term"]["dest"]["l"] for i in acc}, mode="direct")

    def tainted(a):
        l = op_local(a)
        return l is not None and (l in c_t or any(x in c_t for x in ba.ref_chain(l)))
    bad = []
    for i in ba.calls(r"core::option::Option::(expect|unwrap)|core::result::Result::(expect|unwrap)"):
        t = b.blocks[i]["term"]
        if t["args"] and tainted(t["args"][0]):
            bad.append((i, "expect/unwrap on a value read from the record"))
    acc_dests = {b.blocks[j]["term"]["dest"]["l"] for j in acc}
    for i in ba.calls(r"core::panicking::(panic|panic_fmt|assert_failed|panic_display|panic_str)"):
        # a branch on a value read from the record, one side of which is the only way to this panic
        for x in sorted(ba.dom.get(i, ())):
            if x == i:
                continue
            bs = ba.bool_switch(x)
            if bs is None:
                continue
            t_t, f_t, (kind, info) = bs
            if kind != "call":
                continue
            if not any(tainted(a) or op_local(a) in acc_dests for a in info[1]["args"] if op_local(a) is not None):
                continue
            if ba.edge_dominates((x, t_t), i) != ba.edge_dominates((x, f_t), i):
                bad.append((i, "assertion about a value read from the record"))
                break
    ctx.ob(rid, "%s|record-accessors-located" % b.key, bool(acc), where=b.span, detail="%d reads of a parsed record's fields" % len(acc))
    for k, (i, why) in common.ordinal_keys([("panic-site", x) for x in bad]):
        ctx.ob(rid, "%s|%s" % (b.key, k), False, where=ctx.where(b, i),
               detail="%s: a stderr line of a build script that resembles a record with unexpected content aborts the viewer, and every later line of the build is lost from the live view and from redo-log (redo still exits 0)" % why)
    if not bad:
        ctx.ob(rid, "%s|no-panic-on-record-content" % b.key, True, where=b.span, detail="nothing read from a parsed record feeds an expect / unwrap / assertion")


def foreign_file_not_recorded_as_ours(ctx, rid):
    """F-AA: when record_new_state finds that the target was written behind redo's back during the build (status 206:
    it did not exist / had another mtime before the script ran), the file on disk is *not* redo's output. The record
    saved on that path must not say `generated by redo, stamp = this file's stamp, not overridden`: the next run would
    then take the file for its own product and replace it. Accepted ways out: the override flag is set on that path, or
    the stamp is not refreshed on it (the old stamp then makes the next run detect the override)."""
    from rules.C04 import const_assign_blocks
    ctx.rule(rid, "a target found modified behind redo's back during its build (206) is not recorded as redo's own unmodified output: on every path from that decision to the save, either the override flag is set or the stamp is left as it was")
    prog = ctx.prog
    R = anchors.record_new_state(prog)
    rba = BA.of(R)
    a206 = const_assign_blocks(R, 206)
    saves = rba.calls(r"state::File::save")
    if not a206 or not saves:
        raise AnchorError("%s: the direct-modification decision (status 206) / save in record_new_state not located" % rid)
    ov = set(rba.calls(r"state::File::set_override"))
    for (bb, j, st_) in field_writes(R, r"state::File\.is_override"):
        c = op_const(st_["rv"].get("op")) if st_["rv"]["k"] == "use" else None
        if c is not None and c.get("bool") is True:
            ov.add(bb)
    fresh = set(rba.calls(r"state::File::(set_failed|update_stamp|set_static)")) | {bb for (bb, j, st_) in field_writes(R, r"state::File\.stamp")}
    for a in a206:
        marks = rba.path([a], saves, avoid=frozenset(ov), incl=True) is None
        keeps = not any(rba.path([a], [f], incl=True) is not None and any(rba.path([f], [s_], incl=True) is not None for s_ in saves) for f in fresh)
        ok = marks or keeps
        ctx.ob(rid, "%s|direct-modification=>not-recorded-as-redo's-output" % R.key, ok, where=ctx.where(R, a),
               detail="the foreign file is flagged (override) or its stamp is not taken over" if ok else
               "after exit 206 the record says: generated, not overridden, stamp = the foreign file's: the next redo of the target overwrites the file the user put there, without a warning")


def lock_file_opened_once(ctx, rid):
    ctx.rule(rid, "only LockManager::open opens the lock file: closing any other descriptor of that file would drop every fcntl lock the process holds (POSIX), i.e. the locks of its running jobs")
    prog = ctx.prog
    OPEN = r"std::fs::File::(open|create|create_new|options)|std::fs::OpenOptions::open|std::fs::read|std::fs::read_to_string|std::fs::metadata"
    lm = [b for k, b in prog.bodies.items() if k.startswith("state::LockManager::") or k.startswith("<state::LockManager as")]
    OP = anchors.lock_opener(prog).key      # (raises when no single opener can be named)
    if not ctx.floor(rid, "LockManager bodies", len(lm), 2):
        return
    # (a) no LockManager method other than `open` opens a file
    for b in sorted(lm, key=lambda x: x.key):
        n = BA.of(b).calls(r"std::fs::OpenOptions::open|std::fs::File::(open|create|create_new)")
        if not n:
            continue
        ok = b.key == OP
        ctx.ob(rid, "%s|opens-a-file" % b.key, ok, where=ctx.where(b, n[0]),
               detail="the one place the lock file is opened" if ok else "a LockManager method opens a file of its own: if that is the lock file, dropping the handle releases every lock this process holds")
    ctx.ob(rid, "LockManager::open|present", bool(BA.of(prog.bodies[OP]).calls(r"std::fs::OpenOptions::open|std::fs::File::(open|create)")), where="", detail="%s opens the lock file" % common.short(OP))
    # (b) nowhere is a file opened by a path kept in the LockManager (wherever that code was moved or spliced to)
    hits = []
    for b in prog.bodies.values():
        if b.key == OP:
            continue
        ba = BA.of(b)
        for i in ba.calls(r"std::fs::OpenOptions::open|std::fs::File::(open|create|create_new)"):
            for a in b.blocks[i]["term"]["args"]:
                l = op_local(a)
                if l is None:
                    continue
                for x in [l] + ba.ref_chain(l, depth=14):
                    for dd in ba.defs.get(x, []):
                        rvs = []
                        if dd[0] == "stmt":
                            rvs = [dd[3]]
                        elif dd[0] == "call":
                            # `AsRef::as_ref(&self.path)` and friends: look at the call's own arguments
                            for a2 in dd[2].get("args", []):
                                l2 = op_local(a2)
                                if l2 is not None:
                                    for y in [l2] + ba.ref_chain(l2, depth=8):
                                        for d2 in ba.defs.get(y, []):
                                            if d2[0] == "stmt":
                                                rvs.append(d2[3])
                        for rv in rvs:
                            from core import rvalue_places
                            for pl in rvalue_places(rv):
                                if pl is not None and any(isinstance(e, str) and e.startswith("f:state::LockManager.") for e in pl["p"]):
                                    hits.append((b, i))
    ctx.ob(rid, "no-second-open-of-the-lock-file", not hits, where=ctx.where(hits[0][0], hits[0][1]) if hits else "",
           detail="no file is opened by a path stored in the LockManager" if not hits else
           "%s opens a file by a path stored in the LockManager: closing that second descriptor of the lock file drops every fcntl lock of the process, including those of running jobs" % hits[0][0].key)
    # (c) nor by a path assembled again from the lock file's own name (seed C07-5: a sanity check that re-opens
    # `.redo/locks` to compare inodes): the literal(s) that make up the path init hands to LockManager::open must not
    # flow into any other open
    I = prog.one(r"state::ProcessState::init")
    iba = BA.of(I)
    lo = anchors.lock_open_calls(prog, I)
    names = set()
    if lo:
        # (opener merged into init: the open call's own arguments - the options value and the path - are looked at)
        srcs = [op_local(a) for a in I.blocks[lo[0]]["term"]["args"][:(1 if OP != I.key else 2)]]
        for (lits, tn) in [_str_lit_taint(I)]:
            for nm, locs in lits.items():
                if any(s0 is not None and (s0 in locs or any(x in locs for x in iba.ref_chain(s0))) for s0 in srcs):
                    names.add(nm)
    names = {n_ for n_ in names if n_ and n_ not in (".redo", ".", "..", "/")}
    ctx.ob(rid, "lock-file-name-located", bool(names), where=ctx.where(I, lo[0]) if lo else I.span, detail="the lock file is named by %s" % sorted(names))
    reopen = []
    for b in prog.bodies.values():
        if b.key == OP and OP != I.key:
            continue
        ba = BA.of(b)
        opens = ba.calls(r"std::fs::OpenOptions::open|std::fs::File::(open|create|create_new)")
        if not opens:
            continue
        lits, _ = _str_lit_taint(b, only=names)
        for i in opens:
            if b.key == I.key and lo and i == lo[0] and len(lo) == 1:
                continue
            for a in b.blocks[i]["term"]["args"]:
                l = op_local(a)
                if l is None:
                    continue
                for nm in names:
                    locs = lits.get(nm, set())
                    if l in locs or any(x in locs for x in ba.ref_chain(l)):
                        reopen.append((b, i, nm))
    ctx.ob(rid, "lock-file-never-reopened-by-name", not reopen, where=ctx.where(reopen[0][0], reopen[0][1]) if reopen else "",
           detail="no other open takes a path built from the lock file's name" if not reopen else
           "%s opens a path built from the lock file's name %r: when that handle is closed the kernel drops every fcntl lock this process holds on the file - the locks of its running jobs - and another redo can start the same target" % (reopen[0][0].key, reopen[0][2]))
    # (d) nor is the one descriptor duplicated (seed C07-7: every Lock working on its own try_clone(), closed when the Lock
    # is dropped - with the same effect as a second open)
    dups = []
    from core import rvalue_places as _rvp
    for b in prog.bodies.values():
        ba = BA.of(b)
        for i in ba.calls(r"std::fs::File::try_clone|nix::unistd::dup[23]?|libc::dup[23]?|.*::try_clone_to_owned"):
            for a in b.blocks[i]["term"]["args"]:
                l = op_local(a)
                if l is None:
                    continue
                for x in [l] + ba.ref_chain(l, depth=14):
                    for dd in ba.defs.get(x, []):
                        if dd[0] != "stmt":
                            continue
                        for pl in _rvp(dd[3]):
                            if pl is not None and any(isinstance(e, str) and e.startswith("f:state::LockManager.") for e in pl["p"]):
                                dups.append((b, i))
    ctx.ob(rid, "lock-file-descriptor-never-duplicated", not dups, where=ctx.where(dups[0][0], dups[0][1]) if dups else "",
           detail="the LockManager's descriptor is the only one" if not dups else
           "%s duplicates the lock file's descriptor: closing the duplicate drops every fcntl lock this process holds on the file - the locks of its other running jobs - and a sibling request starts the same target a second time" % dups[0][0].key)
    # the path handed to LockManager::open is used for nothing else in init
    if lo:
        src = op_local(I.blocks[lo[0]]["term"]["args"][0])
        roots = set(iba.ref_chain(src)) | {src}
        others = []
        for i in iba.all_calls():
            if i == lo[0]:
                continue
            t = I.blocks[i]["term"]
            if not any(re.fullmatch(OPEN, p_) for p_ in callee_paths(t)):
                continue
            for a in t["args"]:
                l = op_local(a)
                if l is not None and (l in roots or any(x in roots for x in iba.ref_chain(l))):
                    others.append(i)
        ctx.ob(rid, "%s|lock-path-only-for-LockManager::open" % I.key, not others, where=ctx.where(I, others[0] if others else lo[0]),
               detail="the lock file path goes to LockManager::open only")


# ------------------------------------------------------------------------------------------------
# R15.7  no lookup by name bypasses the normaliser

def key_never_bypasses_relpath(ctx, rid):
    from core import str_consts
    ctx.rule(rid, "every path of File::from_name from entry to the lookup by name passes state::relpath (or is the //ALWAYS constant): no fast path keys the Files table by a spelling that was not canonicalised")
    prog = ctx.prog
    F = prog.one(r"state::File::from_name")
    ba = BA.of(F)
    queries = ba.calls(r"rusqlite::Connection::query_row|rusqlite::Connection::prepare|rusqlite::Statement::query_row")
    relp = set(ba.calls(r"state::relpath"))
    if not ctx.floor(rid, "lookups in from_name", len(queries), 1):
        return
    # the //ALWAYS side: blocks dominated by the `equal` edge of the comparison with the ALWAYS constant
    always = set()
    always_blocks = {bb for (bb, _, txt, named) in str_consts(F) if txt == "//ALWAYS" or (named or "").endswith("ALWAYS")}
    for sw in sorted(ba.live):
        bs = ba.bool_switch(sw)
        if not bs:
            continue
        t_t, f_t, (kind, info) = bs
        if kind != "call":
            continue
        cbb = info[0]
        if not any(re.search(r"PartialEq(<.*>)?(>)?::(eq|ne)", p_) for p_ in callee_paths(info[1])):
            continue
        # does a compared value come from the ALWAYS constant (directly, or through a conversion such as OsStr::new)?
        def from_always(l, depth=6):
            if l is None or depth == 0:
                return False
            for x in [l] + ba.ref_chain(l, depth=10):
                for dd in ba.defs.get(x, []):
                    if dd[0] == "stmt":
                        for c in __import__("core").rvalue_consts(dd[3]):
                            if c.get("str") == "//ALWAYS" or (c.get("named") or "").endswith("ALWAYS"):
                                return True
                    elif dd[0] == "call":
                        for a in dd[2].get("args", []):
                            c = op_const(a)
                            if c is not None and (c.get("str") == "//ALWAYS" or (c.get("named") or "").endswith("ALWAYS")):
                                return True
                            if op_local(a) is not None and from_always(op_local(a), depth - 1):
                                return True
            return False
        uses_always = any(from_always(op_local(a)) or ((op_const(a) or {}).get("str") == "//ALWAYS") for a in info[1].get("args", []))
        if not uses_always:
            continue
        eq_side = t_t if any(p_.endswith("::eq") for p_ in callee_paths(info[1])) else f_t
        always |= {b for b in ba.live if ba.edge_dominates((sw, eq_side), b)}
    p_ = ba.path([0], queries, avoid=relp | always, incl=True)
    ctx.ob(rid, "%s|lookup-key-passes-relpath" % F.key, p_ is None, where=ctx.where(F, p_[-1]) if p_ else F.span,
           detail="every non-ALWAYS lookup is preceded by relpath(name, base)" if p_ is None else
           "a lookup can be reached without state::relpath: a spelling through a symlinked directory gets a row of its own (path %s)" % " -> ".join("bb%d" % x for x in p_[:12]), witness=p_)


# ------------------------------------------------------------------------------------------------
# R15.8  relpath answers from a component-wise comparison

def relpath_is_componentwise(ctx, rid):
    ctx.rule(rid, "every Ok result of state::relpath is produced after a component-wise walk of both cleaned paths (Path::components / strip_prefix / ancestors): no byte-level prefix shortcut (`src` is not a prefix of `src2`)")
    prog = ctx.prog
    R = prog.one(r"state::relpath")
    ba = BA.of(R)
    comp = set(ba.calls(r"std::path::Path::(components|strip_prefix|ancestors|iter|starts_with)"))
    oks = set(common.ok_returns(R)) if hasattr(common, "ok_returns") else set(ba.returns())
    okb = set(common.returned_ok_blocks(R)) if hasattr(common, "returned_ok_blocks") else set(common.blocks_with_agg(R, r"core::result::Result", "Ok"))
    if not ctx.floor(rid, "component walks in relpath", len(comp), 1):
        return
    p_ = ba.path([0], okb or oks, avoid=comp, incl=True)
    ctx.ob(rid, "%s|result-after-component-walk" % R.key, p_ is None, where=ctx.where(R, p_[-1]) if p_ else R.span,
           detail="every Ok result follows a component-wise comparison" if p_ is None else
           "relpath can answer without walking the components of the two paths (a byte / string prefix shortcut): sibling directories one of whose names is a prefix of the other are confused",
           witness=p_)


# ------------------------------------------------------------------------------------------------
# R18.10  names in records are relative to the directory of the current target

def record_names_relative_to_target_dir(ctx, rid):
    ctx.rule(rid, "state::target_relpath makes names relative to the directory of the target being built (derived from Env::target() through Path::parent), which is the directory the log reader resolves them against; the .do file's directory differs from it when a default.*.do in a parent directory builds the target")
    prog = ctx.prog
    T = prog.one(r"state::target_relpath")
    ba = BA.of(T)
    tg = ba.calls(r"env::Env::target")
    par = ba.calls(r"std::path::Path::parent")
    ok = False
    rets = ba.returns()
    if tg and par:
        tn = taint(T, seeds={T.blocks[i]["term"]["dest"]["l"] for i in tg}, mode="derived")
        pseeds = {T.blocks[i]["term"]["dest"]["l"] for i in par
                  if (op_local(T.blocks[i]["term"]["args"][0]) in tn or any(x in tn for x in ba.ref_chain(op_local(T.blocks[i]["term"]["args"][0]))))}
        if pseeds:
            pn = taint(T, seeds=pseeds, mode="derived")
            # the name handed back (the Ok payload that reaches _0) is computed from that directory
            ok = 0 in pn
            if not ok:
                for i in ba.calls(r"state::relpath"):
                    a = T.blocks[i]["term"]["args"]
                    if len(a) > 1 and op_local(a[1]) is not None and (op_local(a[1]) in pn or any(x in pn for x in ba.ref_chain(op_local(a[1])))):
                        ok = True
    ctx.ob(rid, "%s|base=parent(dofile_dir.join(target))" % T.key, ok, where=T.span,
           detail="the relative name is computed from parent(.. Env::target() ..)" if ok else
           "record names are no longer relative to the current target's own directory: redo-log resolves them against that directory and looks up the wrong target (`not known to redo`, output lost)")


# ------------------------------------------------------------------------------------------------
# R18.11  a line that is not a valid record is written out whole

def non_record_line_echoed_whole(ctx, rid):
    ctx.rule(rid, "PrettyLog::write_line emits a slice of the line (the text in front of a record) only where a record was parsed; on every other path the bytes written are the whole line")
    prog = ctx.prog
    W = prog.one(r"<logs::PrettyLog(<.*>)? as logs::Logger>::write_line|logs::PrettyLog(<.*>)?::write_line")
    fam = [W] + [c for k, c in prog.bodies.items() if k.startswith(W.key + "::{")]
    ba = BA.of(W)
    slicers = [i for i in ba.all_calls() if any(re.fullmatch(r"core::str::<impl str>::(split_at|split_once|split_at_mut)|.*::index::Index(<.*>)?(>)?::index|core::str::traits::<impl core::ops::index::Index<I> for str>::index|core::ops::index::Index::index", q) for q in callee_paths(W.blocks[i]["term"]))]
    # only slices cut at the position of the record marker count (trimming the trailing newline is not one)
    finds = [i for i in ba.all_calls() if any(re.fullmatch(r"core::str::<impl str>::(find|rfind|match_indices|split_once)", q) for q in callee_paths(W.blocks[i]["term"]))]
    pos_t = taint(W, seeds={W.blocks[i]["term"]["dest"]["l"] for i in finds}, mode="derived") if finds else set()

    def cut_at_marker(i):
        t = W.blocks[i]["term"]
        if any(q.endswith("split_once") for q in callee_paths(t)):
            return True
        for a in t["args"][1:]:
            l = op_local(a)
            if l is not None and (l in pos_t or any(x in pos_t for x in ba.ref_chain(l))):
                return True
        return False
    slicers = [i for i in slicers if cut_at_marker(i)]
    if not ctx.floor(rid, "slices of the line cut at the record marker in write_line", len(slicers), 1):
        return
    # the slice itself (and its byte view), not everything computed from it
    seeds_ = {W.blocks[i]["term"]["dest"]["l"] for i in slicers}
    for _ in range(4):
        st = taint(W, seeds=seeds_, mode="direct")
        more = {W.blocks[i]["term"]["dest"]["l"] for i in ba.all_calls()
                if any(re.fullmatch(r"core::str::<impl str>::(as_bytes|as_ptr|trim|trim_end|trim_start)|alloc::string::String::as_bytes", q) for q in callee_paths(W.blocks[i]["term"]))
                and W.blocks[i]["term"].get("args") and (op_local(W.blocks[i]["term"]["args"][0]) in st or any(x in st for x in ba.ref_chain(op_local(W.blocks[i]["term"]["args"][0]) or -1)))}
        if more <= seeds_:
            break
        seeds_ |= more
    sinks = [i for i in ba.all_calls() if any(re.fullmatch(r"(<.* as )?std::io::Write(>)?::(write|write_all)|std::io::Write::(write|write_all)|(<.* as )?core::iter::traits::collect::Extend(<.*>)?(>)?::extend|alloc::vec::Vec::extend_from_slice", q) for q in callee_paths(W.blocks[i]["term"]))]
    # "a record was parsed" edges: the Some / Ok arm of a switch on a value whose type carries a logs::Meta
    ok_edges = []
    for sw in sorted(ba.live):
        es = ba.enum_switch(sw)
        if not es:
            continue
        ty = W.locals[es[0]["l"]]
        if "logs::Meta" not in ty:
            continue
        if ty.startswith("core::option::Option"):
            tgt = es[1].get(1)
        elif ty.startswith("core::result::Result"):
            tgt = es[1].get(0)
        else:
            tgt = None
        if tgt is not None:
            ok_edges.append((sw, tgt))
    bad = []
    n = 0
    for i in sinks:
        t = W.blocks[i]["term"]
        arg = op_local(t["args"][1]) if len(t["args"]) > 1 else None
        if arg is None or not (arg in st or any(x in st for x in ba.ref_chain(arg))):
            continue
        n += 1
        if not any(ba.edge_dominates(e, i) for e in ok_edges):
            bad.append(i)
    ctx.ob(rid, "%s|slice-written-only-with-a-parsed-record" % W.key, not bad and bool(ok_edges), where=ctx.where(W, bad[0]) if bad else W.span,
           detail="%d write(s) of a slice of the line, all under `record parsed`" % n if not bad and ok_edges else
           "a slice of the line is written on a path where no record was parsed: script output that merely contains the record marker is truncated at the marker")


# ------------------------------------------------------------------------------------------------
# R12.10  only `already failed in this run` is turned into a job result

def only_immediate_exit_becomes_job_result(ctx, rid):
    ctx.rule(rid, "the builder turns a dirtiness-callback error into a job's exit status only for the ImmediateExit kind: no builder code maps other error kinds through RedoErrorKind::exit_code(), so a CyclicDependency found by the dependency walk still aborts the command with its own status (208)")
    prog = ctx.prog
    hits = []
    n = 0
    for k, b in prog.bodies.items():
        if not k.startswith("builder::"):
            continue
        n += 1
        for i in BA.of(b).calls(r"error::RedoErrorKind::exit_code|error::RedoError::exit_code"):
            hits.append((b, i))
    ctx.floor(rid, "builder bodies examined", n, 10)
    ctx.ob(rid, "builder|no-exit_code-mapping-of-error-kinds", not hits, where=ctx.where(hits[0][0], hits[0][1]) if hits else "",
           detail="builder.rs never converts an error kind into an exit code (only ImmediateExit carries one)" if not hits else
           "%s maps error kinds to exit codes: a cyclic-dependency error becomes an ordinary failed job and the detecting command no longer exits 208" % hits[0][0].key)
    # positive control: the top-level commands do use exit_code()
    ctrl = sum(1 for b in prog.bodies.values() if b.unit == "bin" and BA.of(b).calls(r"error::RedoErrorKind::exit_code|error::RedoError::exit_code"))
    ctx.floor(rid, "exit_code() users in the bin unit (positive control)", ctrl, 1)


# ------------------------------------------------------------------------------------------------
# R10.11  the failed marker survives until a build completes

def failed_marker_not_cleared_at_start(ctx, rid):
    ctx.rule(rid, "start_self does not clear the target's failed marker before the job has run (no set_generated / set_changed / write of failed_runid on the job's record in the start-of-build transaction): a failed build has already had its un-redeclared edges deleted, so the marker is what makes the next run rebuild it - also after a kill")
    prog = ctx.prog
    SS = anchors.start_self(prog)
    ba = BA.of(SS)
    forks = ba.calls(anchors.FORK_START)
    if not forks:
        raise AnchorError("no fork in %s" % SS.key)
    bad = []
    for i in ba.calls(r"state::File::(set_generated|set_changed)"):
        if ba.path([i], forks, incl=True) is not None:
            bad.append((i, common.short(callee_paths(SS.blocks[i]["term"])[0])))
    for (bb, _, st_) in field_writes(SS, r"state::File\.failed_runid"):
        rv = st_["rv"]
        is_none = rv["k"] == "agg" and rv.get("variant") == "None"
        if is_none and ba.path([bb], forks, incl=True) is not None:
            bad.append((bb, "failed_runid := None"))
    ctx.ob(rid, "%s|failed-marker-kept-until-the-job-has-run" % SS.key, not bad, where=ctx.where(SS, bad[0][0]) if bad else SS.span,
           detail="nothing before the fork clears failed_runid" if not bad else
           "%s before the job runs clears the `failed last time` marker: after a failed build (edges already deleted) and a killed retry the target looks clean" % bad[0][1])


# ------------------------------------------------------------------------------------------------
# rules that are necessary conditions of several properties are evaluated once, in the table they were written
# for, and reported under every property they matter to

# ------------------------------------------------------------------------------------------------
# R4.11 / R10.13 (F-AD)  the temp output may be a directory: whatever removes it must cope with one

_DIR_REMOVER = re.compile(r"std::fs::remove_dir_all|std::fs::remove_dir|nix::unistd::(rmdir|unlinkat)")


def _reaches_dir_remover(prog, body, ba, i, depth=3):
    """Does the removal at call site i also remove a directory? Either the callee (followed through local wrappers,
    bounded depth) contains a directory-removing primitive, or the calling body itself goes on from site i to such
    a primitive (the wrapper written out in place)."""
    def deep(key, d, seen):
        cb = prog.bodies.get(key)
        if cb is None or key in seen:
            return False
        seen.add(key)
        cba = BA.of(cb)
        for j in cba.all_calls():
            ps = callee_paths(cb.blocks[j]["term"])
            if any(_DIR_REMOVER.fullmatch(x) for x in ps):
                return True
            if d > 0 and any(deep(x, d - 1, seen) for x in ps if x in prog.bodies):
                return True
        return False
    t = body.blocks[i]["term"]
    ps = callee_paths(t)
    if any(_DIR_REMOVER.fullmatch(x) for x in ps) or any(deep(x, depth, set()) for x in ps):
        return True
    later = [j for j in ba.calls(_DIR_REMOVER) if ba.path([i], [j], incl=True) is not None]
    return bool(later)


def tmp_removal_copes_with_directory(ctx, rid):
    ctx.rule(rid, "a .do script may make a directory of its $3 (the success path renames it into place like a file), so both removals of the temp output - the stale one before the fork and the one after a failed build - must be able to remove a directory: unlink(2) alone answers EISDIR, the failure is not recorded and every later build of the target stops at the stale directory")
    prog = ctx.prog
    R = anchors.record_new_state(prog)
    SS = anchors.start_self(prog)
    rba, sba = BA.of(R), BA.of(SS)
    n = 0
    # (a) the stale-output removal that dominates the fork
    forks = sba.calls(anchors.FORK_START)
    pre = [u for u in sba.calls_deep(r"helpers::unlink|nix::unistd::unlink|std::fs::remove_file", prog) if forks and any(sba.dominates(u, f) for f in forks)]
    for u in pre:
        n += 1
        ok = _reaches_dir_remover(prog, SS, sba, u)
        ctx.ob(rid, "%s|stale-output-removal|directory-handled" % SS.key, ok, where=ctx.where(SS, u),
               detail="the removal before the fork also removes a directory" if ok else
               "the stale temp output is removed with unlink only: a directory left behind by a killed build makes every later build of the target fail (EISDIR)")
    # (b) the removal on the failure side of the final status test
    fails = rba.calls(r"state::File::set_failed")
    eqs = common.cmp_const_switches(R, 0)
    final = [(sw, ne_t) for (sw, ne_t, eq_t, x) in eqs if fails and rba.edge_dominates((sw, ne_t), fails[0])]
    if len(final) != 1:
        raise AnchorError("final status test of %s not found" % R.key)
    sw, ne_t = final[0]
    post = [u for u in rba.calls_deep(r"helpers::unlink|nix::unistd::unlink|std::fs::remove_file", prog) if rba.edge_dominates((sw, ne_t), u)]
    for u in post:
        n += 1
        ok = _reaches_dir_remover(prog, R, rba, u)
        ctx.ob(rid, "%s|failed-output-removal|directory-handled" % R.key, ok, where=ctx.where(R, u),
               detail="the removal after a failed build also removes a directory" if ok else
               "the temp output of a failed build is removed with unlink only: when the script made a directory of $3 redo aborts (EISDIR) before the failure is recorded and leaves the directory behind")
    ctx.floor(rid, "temp-output removal sites examined", n, 2)


# ------------------------------------------------------------------------------------------------
# R9.11 (F-AE)  a blocking read that relies on an alarm to get unstuck must be interruptible by it

_SIG_INSTALL = re.compile(r"nix::sys::signal::(signal|sigaction)|libc::(signal|sigaction)")
_TIMER_ARM = re.compile(r"helpers::set_interval_timer|libc::(setitimer|alarm)|nix::unistd::alarm::set|nix::sys::timer::.*")


def alarm_interrupts_blocking_read(ctx, rid):
    ctx.rule(rid, "the token read that another process may win (select says readable, then a blocking read) is guarded by an interval timer; the SIGALRM handler must be installed with sigaction() and without SA_RESTART - signal() implies SA_RESTART, the kernel then restarts the read after every alarm, the loser of the race sits in read() for ever and can neither reap its jobs nor give their tokens back")
    from rules.C06 import backward_direct
    prog = ctx.prog
    n = 0
    for b in prog.bodies.values():
        if not b.key.startswith("jobserver::"):
            continue
        ba = BA.of(b)
        reads = ba.calls(r"nix::unistd::read|libc::read")
        arms = ba.calls(_TIMER_ARM)
        for r in reads:
            before = [a for a in arms if ba.path([a], [r], incl=True) is not None]
            if not before:
                continue
            n += 1
            inst = [i for i in ba.calls(_SIG_INSTALL) if ba.path([i], [r], incl=True) is not None]
            # putting the previous handler back (`sigaction(sig, &old)` / `signal(sig, old)` with the value an earlier
            # installation returned) is not an installation for this read, wherever the loop structure places it
            prev = taint(b, seeds={b.blocks[i]["term"]["dest"]["l"] for i in ba.calls(_SIG_INSTALL)}, mode="derived")
            inst = [i for i in inst if not (len(b.blocks[i]["term"]["args"]) > 1 and op_local(b.blocks[i]["term"]["args"][1]) is not None and
                                            (op_local(b.blocks[i]["term"]["args"][1]) in prev or any(x in prev for x in ba.ref_chain(op_local(b.blocks[i]["term"]["args"][1])))))]
            if not inst:
                raise AnchorError("%s: %s arms a timer before a blocking read but the handler installation was not found in the same body" % (rid, b.key))
            for k, i in enumerate(inst):
                t = b.blocks[i]["term"]
                name = common.short(callee_paths(t)[0])
                if name.endswith("::signal"):
                    ok, det = False, "the handler is installed with signal(): SA_RESTART semantics, the alarm cannot interrupt the read()"
                else:
                    sl, org, _ = backward_direct(b, op_local(t["args"][1]), depth=60)
                    news = [o for o in org if o[0] == "call" and call_matches(o[2], r"nix::sys::signal::SigAction::new")]
                    ok, det = False, "the sigaction operand is not built by SigAction::new in this body"
                    if news:
                        fl = op_local(news[0][2]["args"][1])
                        sl2, org2, _ = backward_direct(b, fl, depth=60) if fl is not None else (set(), [], None)
                        empties = [o for o in org2 if o[0] == "call" and call_matches(o[2], r"nix::sys::signal::SaFlags::empty")]
                        restart = any("SA_RESTART" in json_text(o) for o in org2) or any(o[0] == "call" and call_matches(o[2], r"nix::sys::signal::SaFlags::all") for o in org2) or \
                            "SA_RESTART" in json_text(news[0][2]["args"][1])
                        ok = not restart and (bool(empties) or bool(org2) or op_const(news[0][2]["args"][1]) is not None)
                        det = "installed with sigaction(), flags without SA_RESTART: the alarm makes the read() return EINTR" if ok else "the sigaction flags contain SA_RESTART (or cannot be traced): the kernel restarts the read() after every alarm"
                ctx.ob(rid, "%s|read#%d|handler#%d|alarm-interrupts-the-read" % (b.key, reads.index(r), k), ok, where=ctx.where(b, i), detail=det)
    ctx.floor(rid, "alarm-guarded blocking reads in the jobserver", n, 1)


def json_text(o):
    import json as _j
    try:
        return _j.dumps(o, default=str)
    except Exception:
        return str(o)


# ------------------------------------------------------------------------------------------------
# R1.14 / R3.13 (F-AF)  "redo-stamp ran during this build" must be recognised by something only redo-stamp does

def stamped_mark_is_build_specific(ctx, rid):
    ctx.rule(rid, "record_new_state only refreshes the stamp (no set_changed) when it believes redo-stamp ran during this build; the record fields that belief is read from must be written by redo-stamp alone - a mark that the per-run dirtiness memo or an earlier build of the same run also sets makes a forced rebuild of an already-checked target invisible to its dependents, for good")
    from core import rvalue_places, place_fields
    prog = ctx.prog
    R = anchors.record_new_state(prog)
    rba = BA.of(R)
    rs = rba.calls(r"state::File::read_stamp")
    us = rba.calls(r"state::File::update_stamp")
    if not rs or not us:
        raise AnchorError("%s: stamp refresh branches of %s not located" % (rid, R.key))
    preds = [(sw, t_t, f_t, cbb) for (sw, t_t, f_t, cbb) in rba.switches_on_call(r"state::File::\w+")
             if rba.dominates(sw, rs[0]) and rba.path([t_t], [rs[0]], avoid=frozenset(us), incl=True) is not None
             and rba.path([t_t], us, avoid=frozenset(rs), incl=True) is None]
    fields = {}
    for (sw, t_t, f_t, cbb) in preds:
        for q in callee_paths(R.blocks[cbb]["term"]):
            pb = prog.bodies.get(q)
            if pb is None:
                continue
            for blk in pb.blocks:
                for st in blk["stmts"]:
                    if st["s"] != "assign":
                        continue
                    for pl in rvalue_places(st["rv"]):
                        for f in place_fields(pl):
                            if f.startswith("state::File."):
                                fields.setdefault(f, cbb)
    ctx.floor(rid, "record fields the stamped-build test reads", len(fields), 1)
    entries = sorted(k for k in prog.bodies if re.fullmatch(r"@bin::\w+::run", k) or k in ("@bin::run_redo",))
    stamp_entry = [k for k in entries if k.startswith("@bin::stamp::")]
    others = [k for k in entries if k not in stamp_entry]
    reach_other = ctx.cg.reachable(others, indirect=True)
    bad = []
    for f in sorted(fields):
        for k, b in sorted(prog.bodies.items()):
            if k == R.key or b.kind.lower() not in ("fn", "method", "assocfn", "closure"):
                pass
            ws = field_writes(b, re.escape(f))
            if not ws or k == R.key:
                continue
            # constructors / row loaders assign every field: only writers that store the current run id count
            runid_t = taint(b, src_place=lambda p_: any(x.endswith("Env.runid") or x.endswith(".runid") for x in place_fields(p_)), mode="derived")
            stores_runid = False
            for (bb_, j_, st_) in ws:
                for pl in rvalue_places(st_["rv"]):
                    if pl["l"] in runid_t or any(x.endswith(".runid") for x in place_fields(pl)):
                        stores_runid = True
            if stores_runid and k in reach_other:
                bad.append((f, k))
    key = "%s|stamped-build-recognised-by-run-wide-marks" % R.key
    ctx.ob(rid, key, not bad, where=ctx.where(R, preds[0][0]) if preds else R.span,
           detail="the marks are written by redo-stamp only" if not bad else
           "the test reads %s, which %s" % (", ".join(sorted({f.split('.')[-1] for f, _ in bad})),
                                            "; ".join("%s also sets outside redo-stamp" % common.short(k) for k in sorted({k for _, k in bad}))))


# ------------------------------------------------------------------------------------------------
# R17.9 (F-AI)  a listing command does not create the state directory

_EXIST_Q = re.compile(r"std::path::Path::(exists|is_file|is_dir|try_exists|metadata|symlink_metadata)|std::fs::(metadata|symlink_metadata)")


def _asks_whether_state_exists(prog, b, ba, cbb, depth=2):
    """Is the bool-valued call at block cbb a question about the existence of something below Env::base()?"""
    t = b.blocks[cbb]["term"]
    ps = callee_paths(t)
    base_t = taint(b, src_call=lambda t_: call_matches(t_, r"env::Env::base"), mode="derived")
    if any(_EXIST_Q.fullmatch(q) for q in ps):
        a0 = op_local(t["args"][0]) if t.get("args") else None
        return a0 is not None and (a0 in base_t or any(x in base_t for x in ba.ref_chain(a0)))
    for q in ps:
        cb = prog.bodies.get(q)
        if cb is None or depth <= 0:
            continue
        cba = BA.of(cb)
        for i in cba.all_calls():
            tt = cb.blocks[i]["term"]
            if any(_EXIST_Q.fullmatch(x) for x in callee_paths(tt)):
                bt = taint(cb, src_call=lambda t_: call_matches(t_, r"env::Env::base"), mode="derived")
                a0 = op_local(tt["args"][0]) if tt.get("args") else None
                if a0 is not None and (a0 in bt or any(x in bt for x in cba.ref_chain(a0))):
                    return True
    return False


def listing_never_creates_state(ctx, rid):
    ctx.rule(rid, "redo-ood / redo-targets / redo-sources open the project state (ProcessState::init creates <base>/.redo and its database when they are missing) only after finding that a state database already exists: a listing typed in a sub-directory of a project without .redo must not plant one there, where later commands started in that directory would find it instead of the project's")
    prog = ctx.prog
    n = 0
    for q in (r"@bin::ood::run", r"@bin::targets::run", r"@bin::sources::run"):
        b = prog.one(q)
        ba = BA.of(b)
        inits = ba.calls(r"state::ProcessState::init")
        if not inits:
            raise AnchorError("%s: no ProcessState::init in %s" % (rid, b.key))
        for i in inits:
            n += 1
            ok = False
            for (sw, t_t, f_t, cbb) in ba.switches_on_call(r".*"):
                if ba.edge_dominates((sw, t_t), i) and t_t != f_t and _asks_whether_state_exists(prog, b, ba, cbb):
                    ok = True
            ctx.ob(rid, "%s|state-opened-only-if-it-exists" % b.key, ok, where=ctx.where(b, i),
                   detail="ProcessState::init is reached only on the exists-side of a test of the state database" if ok else
                   "the listing command creates .redo (and a database) in whatever directory it takes for the project base")
    ctx.floor(rid, "listing commands examined", n, 3)


# ------------------------------------------------------------------------------------------------
# R5.17 / R1.15  what File::set_failed must record, on every path

def set_failed_records_file_as_it_is(ctx, rid):
    ctx.rule(rid, "File::set_failed, on every path: (a) refreshes the recorded stamp from the file as the failed script left it (update_stamp / read_stamp) - with the stamp of the last good build the next run's manual-override test takes redo's own half-written output for a user edit, prints `you modified it; skipping` and exits 0 without ever retrying; (b) assigns is_generated from whether the file exists (true when it does) - left unset, a first build that failed after writing its output is a static source next run and is never retried")
    prog = ctx.prog
    sf = prog.one(r"state::File::set_failed")
    ba = BA.of(sf)
    rets = common.ok_returns(sf) or ba.returns()
    refresh = set(ba.calls(r"state::File::update_stamp"))
    rs = ba.calls(r"state::File::read_stamp")
    rs_t = taint(sf, seeds={sf.blocks[c]["term"]["dest"]["l"] for c in rs}, mode="derived") if rs else set()
    for (bb, j, st) in field_writes(sf, r"state::File\.stamp"):
        from core import rvalue_places
        if any(pl["l"] in rs_t for pl in rvalue_places(st["rv"])):
            refresh.add(bb)
    common.mpt_fl(ctx, rid, "%s|stamp-refreshed-on-every-path" % sf.key, sf, [0], rets, sorted(refresh),
                  "the recorded stamp is that of the file as the failed build left it", "a failed build can keep the stamp of the last good build: its own leftover is then taken for a manual edit and the target is never retried")
    gw = field_writes(sf, r"state::File\.is_generated")
    gblocks = sorted({bb for (bb, j, st) in gw})
    common.mpt_fl(ctx, rid, "%s|is_generated-assigned-on-every-path" % sf.key, sf, [0], rets, gblocks,
                  "is_generated is decided on every path", "a failed build can leave is_generated as it was: a target whose first build failed after writing its file is a source next run and is never retried")
    nonconst = [st for (bb, j, st) in gw if not (st["rv"]["k"] == "use" and (op_const(st["rv"]["op"]) or {}).get("bool") is False)]
    ctx.ob(rid, "%s|is_generated-can-become-true" % sf.key, bool(nonconst), where=sf.span,
           detail="is_generated follows the existence of the file" if nonconst else "set_failed only ever clears is_generated")


# ------------------------------------------------------------------------------------------------
# R14.8 / R2.10  add_dep stores the declared mode, whatever was recorded before

def add_dep_replaces_unconditionally(ctx, rid):
    ctx.rule(rid, "File::add_dep writes the mode it was given (direct flow from the parameter into the statement's parameters) and reads no existing Deps row: last build's row (still present, marked for deletion) must not decide the mode of this build's edge - an `m` edge kept for a file that no longer exists makes the target dirty in every run")
    prog = ctx.prog
    ad = prog.one(r"state::File::add_dep")
    ba = BA.of(ad)
    from rules.C06 import backward_direct

    def sql_of(i):
        """the SQL literal handed to the call at block i (an operand, or a local holding the constant), else None"""
        for a in ad.blocks[i]["term"]["args"]:
            txt = const_str(a)
            la = op_local(a)
            if txt is None and la is not None:
                sl, org, _ = backward_direct(ad, la, depth=12)
                for x in [la] + sorted(sl):
                    d = ba.single_def(x)
                    if d and d[0] == "stmt" and d[3]["k"] == "use" and const_str(d[3]["op"]):
                        txt = const_str(d[3]["op"])
                        break
            if txt and re.search(r"\b(select|insert|update|delete|replace)\b", txt, re.I):
                return txt
        return None
    def on_deps(i, unknown):
        t_ = sql_of(i)
        return unknown if t_ is None else re.search(r"\bdeps\b", t_, re.I) is not None
    # (finding the record of the *source* - File::from_name, possibly written out in place - queries table Files, not the
    # edges; a query whose text is assembled at run time is not judged here: the flow rule below decides)
    reads = [i for i in ba.calls(r"rusqlite::Connection::(query_row|prepare|prepare_cached|query_row_and_then)|rusqlite::Statement::.*|rusqlite::(statement::)?Statement(<.*>)?::(query|query_map|query_row|exists)")
             if on_deps(i, False)]
    ctx.ob(rid, "%s|reads-no-existing-edge" % ad.key, not reads, where=ctx.where(ad, reads[0]) if reads else ad.span,
           detail="add_dep issues no query of its own" if not reads else "add_dep looks at an existing row before writing: what it finds there (possibly last build's edge) can override the declared mode")
    modes = [p_ for p_ in range(1, ad.arg_count + 1) if "DepMode" in ad.locals[p_]]
    ws = [i for i in ba.calls(r"state::ProcessTransaction::write") if on_deps(i, True)]
    if not modes or not ws:
        raise AnchorError("%s: mode parameter / write statement of %s not located" % (rid, ad.key))
    okw, why = [], ""
    for w in ws:
        t = ad.blocks[w]["term"]
        sl = set()
        for a_ in t["args"]:
            if op_local(a_) is not None:
                sl |= backward_direct(ad, op_local(a_), depth=200)[0]
        mls = [x for x in sl if "DepMode" in ad.locals[x]]
        hit = any(x in modes for x in mls)
        pure = True
        for x in mls:
            if x in modes:
                continue
            for d in ba.defs.get(x, []):
                if d[0] == "call":
                    tt = d[2]
                    from core import IDENTITY_CALLS
                    if not any(IDENTITY_CALLS.fullmatch(q) for q in callee_paths(tt)):
                        pure, why = False, "computed by %s" % common.short(callee_paths(tt)[0])
                elif d[0] == "stmt" and (d[3]["k"] == "agg" or (d[3]["k"] == "use" and op_const(d[3]["op"]) is not None)):
                    pure, why = False, "a constant mode can be stored instead of the declared one"
        okw.append(hit and pure)
    ctx.ob(rid, "%s|stored-mode-is-the-declared-mode" % ad.key, all(okw), where=ctx.where(ad, ws[0]),
           detail="the mode parameter itself, and nothing else, is what the insert stores" if all(okw) else
           "the stored mode is not (only) the parameter: %s - e.g. the mode of the row an earlier build left behind" % (why or "the parameter does not reach the statement"))

# ------------------------------------------------------------------------------------------------
# R5.18 / R4.12 / R10.15  a failure decided anywhere in record_new_state is recorded as one

def every_failure_is_recorded(ctx, rid):
    ctx.rule(rid, "record_new_state: from every point where the job's status becomes a failure (the script's own status, 206, 207, and the errors of the install steps inside the success region: copy, rename, refresh, stamp) every feasible path to the save of the record passes File::set_failed and the removal of the temp output - a failure that is only reported (exit status of this run) but saved as a good build is not retried by the next run")
    prog = ctx.prog
    R = anchors.record_new_state(prog)
    rba = BA.of(R)
    fails = rba.calls(r"state::File::set_failed")
    saves = rba.calls(r"state::File::save")
    if not fails or not saves:
        raise AnchorError("%s: set_failed / save of %s not located" % (rid, R.key))
    eqs = common.cmp_const_switches(R, 0)
    rvl = None
    for (_, _, _, x) in eqs:
        rvl = x
    if rvl is None:
        raise AnchorError("%s: status variable of %s not located" % (rid, R.key))
    fam = common.status_family(R, common.int_root(R, rvl))
    fb = common.status_failure_blocks(R, fam, 0)
    # failures decided while recording the failure itself (set_failed / save went wrong) come after the fact
    rec_steps = fails + saves + rba.calls(r"state::File::zap_deps2")
    fb = {a: cs for a, cs in fb.items() if not any(rba.dominates(c_, a) for c_ in rec_steps)}
    ctx.floor(rid, "failure assignments ahead of the recording step", len(fb), 3)
    unl = rba.calls_deep(r"helpers::unlink|nix::unistd::unlink|std::fs::remove_file", prog)
    tmp_roles = None
    for n_, a in enumerate(sorted(fb)):
        pth = common.status_path_avoiding(R, fam, 0, a, saves, avoid=fails)
        ctx.ob(rid, "%s|status:=%s#%d|set_failed-before-save" % (R.key, "+".join(sorted(str(c_) for c_ in fb[a])), n_), pth is None, where=ctx.where(R, a),
               detail="the failure is marked on the record before it is saved" if pth is None else
               "a failure decided at %s reaches the save at %s without set_failed: the record says the build succeeded" % (R.line(a), R.line(pth[-1])), witness=pth)


# ------------------------------------------------------------------------------------------------
# R10.14 / R16.10  the schema is created inside the transaction that also writes the version row

def schema_created_inside_transaction(ctx, rid):
    ctx.rule(rid, "ProcessState::init executes every schema statement (create table ..) through the start-up Transaction, never on the bare connection: outside a transaction each statement commits on its own, and a first invocation killed between two of them leaves tables without a Schema row - neither `no tables yet` nor a database of a known version - so every later command fails until .redo is deleted by hand")
    from rules.C06 import backward_direct
    prog = ctx.prog
    I = prog.one(r"state::ProcessState::init")
    ba = BA.of(I)
    n = 0
    for c in ba.calls(r"rusqlite::Connection::(execute|execute_batch)"):
        t = I.blocks[c]["term"]
        ddl = False
        for a in t["args"][1:]:
            txt = const_str(a)
            la = op_local(a)
            if txt is None and la is not None:
                sl, org, _ = backward_direct(I, la, depth=12)
                for x in [la] + sorted(sl):
                    d = ba.single_def(x)
                    if d and d[0] == "stmt" and d[3]["k"] == "use" and const_str(d[3]["op"]):
                        txt = const_str(d[3]["op"])
                        break
            if txt and re.search(r"\bcreate\s+table\b", txt, re.I):
                ddl = True
        if not ddl:
            continue
        n += 1
        sl, org, _ = backward_direct(I, op_local(t["args"][0]), depth=12)
        via_tx = bool(org) and all(o[0] == "call" and any(re.search(r"Connection>?::(transaction|transaction_with_behavior|unchecked_transaction)$", q) or
                                                         ("rusqlite::transaction::Transaction" in q and q.endswith("::deref")) for q in callee_paths(o[2])) for o in org)
        ctx.ob(rid, "%s|ddl#%d|runs-inside-the-start-up-transaction" % (I.key, n), via_tx, where=ctx.where(I, c),
               detail="executed through the Transaction" if via_tx else "a schema statement is executed on the connection itself: it commits on its own, ahead of the version row")
    ctx.floor(rid, "schema statements in init", n, 1)


# ------------------------------------------------------------------------------------------------
# R18.15 (F-AK)  script output is bytes: reading the log must not depend on it being UTF-8

def shebang_read_tolerates_any_bytes(ctx, rid):
    log_read_tolerates_any_bytes(ctx, rid, body=anchors.start_self(ctx.prog),
                                 text="start_self reads the first line of the chosen .do file (to honour a `#!` line) with a primitive that accepts any bytes: BufRead::read_line fails on a first line that is not valid UTF-8 (a Latin-1 comment), and a script that /bin/sh runs without complaint could not be used to build its target at all")


def log_read_tolerates_any_bytes(ctx, rid, body=None, text=None):
    ctx.rule(rid, text or "redo-log reads the per-target log with a primitive that accepts any bytes (read_until / read / fill_buf, converted lossily): BufRead::read_line, lines(), read_to_string and String::from_utf8(..)? fail on a line that is not valid UTF-8 - a Latin-1 compiler message - and end the view, so that every later line of the build is missing live and in the replay while redo exits 0")
    prog = ctx.prog
    b = body or prog.one(r"@bin::log::LogState::catlog")
    ba = BA.of(b)
    strict = ba.calls(r".*::read_line|.*BufRead>?::lines|std::io::BufRead::lines|.*::read_to_string|std::io::read_to_string")
    tolerant = ba.calls(r".*::read_until|.*BufRead>?::fill_buf|.*::read_to_end|(<.* as )?std::io::Read>?::read|.*BufRead>?::split")
    ctx.floor(rid, "line reads in %s" % common.short(b.key), len(strict) + len(tolerant), 1)
    ctx.ob(rid, "%s|log-read-accepts-any-bytes" % b.key, not strict and bool(tolerant), where=ctx.where(b, (strict or tolerant or [0])[0]),
           detail="the log is read as bytes (%s)" % common.short(callee_paths(b.blocks[tolerant[0]]["term"])[0]) if not strict and tolerant else
           "the log is read with %s, which fails on a line that is not valid UTF-8" % common.short(callee_paths(b.blocks[strict[0]]["term"])[0]) if strict else "no read of the log found")
    # and the conversion that follows is the lossy one (a checked conversion whose error is propagated is the same failure)
    checked = [i for i in ba.calls(r"alloc::string::String::from_utf8|core::str::converts::from_utf8|core::str::from_utf8")]
    lossy = ba.calls(r"alloc::string::String::from_utf8_lossy")
    if tolerant and not strict:
        ctx.ob(rid, "%s|bytes-become-text-lossily" % b.key, bool(lossy) and not checked, where=ctx.where(b, (checked or lossy or tolerant)[0]),
               detail="invalid sequences are substituted, never an error" if lossy and not checked else "the bytes read are converted with a checked from_utf8: an invalid sequence is an error again")


# ------------------------------------------------------------------------------------------------
# R17.10 / R1.17 (F-AM)  "not there" includes ENOTDIR wherever a path is stat'ed or resolved for a record

def tests_notfound(body):
    """does the body ask whether an io::Error is NotFound: `e.kind() == ErrorKind::NotFound` (the variant is built for
    the comparison) or `match e.kind() { ErrorKind::NotFound => .. }` (a switch on the kind with an arm for variant 0)"""
    if "NotFound" in json_text([st for blk in body.blocks for st in blk["stmts"]]):
        return True
    ba = BA.of(body)
    kinds = {body.blocks[i]["term"]["dest"]["l"] for i in ba.calls(r"std::io::error::Error::kind|std::io::Error::kind")}
    for sw in sorted(ba.live):
        es = ba.enum_switch(sw)
        if es and not es[0]["p"] and es[0]["l"] in kinds and 0 in es[1]:
            return True
    return False


def _mentions_enotdir(body):
    txt = json_text([st for blk in body.blocks for st in blk["stmts"]])
    return "ENOTDIR" in txt or "NotADirectory" in txt


def stat_treats_enotdir_as_missing(ctx, rid):
    ctx.rule(rid, "File::read_stamp_st (every stamp redo takes) and state::realdirpath (every name -> record resolution) treat ENOTDIR like NotFound: when a directory on the way to a known file has become a regular file the file is missing - otherwise one such record makes redo-ood / redo-targets / redo-sources, which look at every record, abort without listing anything while redo-ifchange still rebuilds what is out of date")
    prog = ctx.prog
    n = 0
    for q, role in ((r"state::File::read_stamp_st", "stamp"), (r"state::realdirpath", "name")):
        if q.endswith("read_stamp_st") and not prog.find(q):
            q = r"state::File::read_stamp"       # the stat helper merged into its only caller
        b = prog.one(q)
        ba = BA.of(b)
        # the decision `is this error a plain 'does not exist'`: comparisons with ErrorKind::NotFound in the body or its local helpers
        bodies = [b] + [prog.bodies[x] for i in ba.all_calls() for x in callee_paths(b.blocks[i]["term"]) if x in prog.bodies and x.startswith("state::")]
        bodies += [c_ for c_ in closure_family(prog, b) if c_ not in bodies]
        nf = [bb for bb in bodies if tests_notfound(bb)]
        if not nf:
            raise AnchorError("%s: the NotFound test of %s not located" % (rid, b.key))
        n += 1
        ok = all(_mentions_enotdir(bb) for bb in nf)
        ctx.ob(rid, "%s|%s|ENOTDIR-is-missing-too" % (b.key, role), ok, where=b.span,
               detail="wherever the error is compared with NotFound it is compared with ENOTDIR as well" if ok else
               "only NotFound counts as missing: lstat(sub/x) with `sub` replaced by a regular file fails with ENOTDIR and the command ends")
    ctx.floor(rid, "stat / resolve sites examined", n, 2)


# ------------------------------------------------------------------------------------------------
# R15.12 / R7.11  the command line of redo / redo-ifchange reaches the builder unfiltered

_SHRINK = re.compile(r"alloc::vec::Vec::(<.*>::)?(retain|retain_mut|dedup|dedup_by|dedup_by_key|drain|truncate|remove|swap_remove|pop|clear|split_off)"
                     r"|core::iter::traits::iterator::Iterator::(filter|filter_map|skip_while|take_while|step_by)|itertools::.*::(unique|unique_by|dedup)")


def arguments_reach_builder_unfiltered(ctx, rid):
    ctx.rule(rid, "redo-ifchange and redo hand every target named on their command line to builder::run (and redo-ifchange to the add_dep loop): nothing shrinks or filters the argument vector on the way - two spellings are the same target only if they map to the same *record* (the builder folds by record id after File::from_name); a lexical de-duplication drops `link/../a` (really d/a) as a repeat of `a`, which is then neither built nor recorded as a dependency")
    prog = ctx.prog
    n = 0
    for q in (r"@bin::ifchange::run", r"@bin::run_redo"):
        b = prog.one(q)
        ba = BA.of(b)
        # the argument vector: what the Vec::push of the parsed arguments fills (direct flow from env::args_os)
        args = ba.calls(r"std::env::args_os|std::env::args|clap::args::arg_matches::ArgMatches(::<.*>)?::values_of(_os|_lossy)?")
        if not args:
            raise AnchorError("%s: %s does not read its arguments" % (rid, b.key))
        at = taint(b, seeds={b.blocks[c]["term"]["dest"]["l"] for c in args}, mode="derived")
        vecs = set()
        for i in ba.calls(r"alloc::vec::Vec::(<.*>::)?push"):
            t = b.blocks[i]["term"]
            v = op_local(t["args"][1]) if len(t["args"]) > 1 else None
            if v is not None and (v in at or any(x in at for x in ba.ref_chain(v))):
                vecs.add(ba.base_local_of_ref(op_local(t["args"][0])))
        coll = ba.calls(r".*::collect")
        for i in coll:
            t = b.blocks[i]["term"]
            if any(op_local(a) is not None and op_local(a) in at for a in t["args"]):
                vecs.add(t["dest"]["l"])
        if not vecs:
            raise AnchorError("%s: the argument vector of %s not located" % (rid, b.key))
        n += 1
        vt = taint(b, seeds=vecs, mode="direct")
        bad = []
        for i in ba.all_calls():
            t = b.blocks[i]["term"]
            if not any(_SHRINK.fullmatch(p_) for p_ in callee_paths(t)):
                continue
            a0 = op_local(t["args"][0]) if t.get("args") else None
            if a0 is not None and (a0 in vt or any(x in vt for x in ba.ref_chain(a0)) or ba.base_local_of_ref(a0) in vecs):
                bad.append(i)
        # .. nor in a closure of the command that captured the vector (the part of redo-ifchange that records the caller's
        # dependencies and starts the builder is one)
        from core import closure_sites as _cs
        badc = []
        for (bb_, j_, dl, ck, ops) in _cs(b):
            cb = prog.bodies.get(ck)
            if cb is None:
                continue
            ups = {k_ for k_, o_ in enumerate(ops) if op_local(o_) is not None and
                   (op_local(o_) in vt or op_local(o_) in vecs or ba.base_local_of_ref(op_local(o_)) in vecs or any(x in vt for x in ba.ref_chain(op_local(o_))))}
            if not ups:
                continue
            cba = BA.of(cb)
            ct = common.upvar_taint(cb, ups, mode="direct")
            for i in cba.all_calls():
                t = cb.blocks[i]["term"]
                if not any(_SHRINK.fullmatch(p_) for p_ in callee_paths(t)):
                    continue
                a0 = op_local(t["args"][0]) if t.get("args") else None
                if a0 is not None and (a0 in ct or any(x in ct for x in cba.ref_chain(a0))):
                    badc.append((cb, i))
        ok_ = not bad and not badc
        wb_, wi_ = (b, bad[0]) if bad else (badc[0] if badc else (b, 0))
        ctx.ob(rid, "%s|argument-vector-never-shrunk" % b.key, ok_, where=ctx.where(wb_, wi_) if not ok_ else b.span,
               detail="every argument reaches the builder" if ok_ else
               "%s removes entries from the argument vector before the builder has mapped them to records" % common.short(callee_paths(wb_.blocks[wi_]["term"])[0]))
    ctx.floor(rid, "commands examined", n, 2)


# ------------------------------------------------------------------------------------------------
# R3.14 / R14.9 / R7.12  both phases of redo-unlocked are *conditional* builds

def unlocked_phases_are_conditional(ctx, rid):
    ctx.rule(rid, "redo-unlocked starts redo-ifchange in both phases (the program name of every Command it spawns ends in `redo-ifchange`): a forced `redo` of the uncertain dependencies rebuilds them once per waiting dependent - a redo-always + redo-stamp target several times per run at -j>1 - and defeats the checksum cut-off the out-of-band pass exists for")
    prog = ctx.prog
    b = prog.one(r"@bin::unlocked::run")
    ba = BA.of(b)
    news = ba.calls(r"std::process::Command::new")
    ctx.floor(rid, "commands spawned by redo-unlocked", len(news), 2)
    for k, i in enumerate(news):
        t = b.blocks[i]["term"]
        nm = const_str(t["args"][0]) if t.get("args") else None
        if nm is None and t.get("args") and op_local(t["args"][0]) is not None:
            lits, _ = _str_lit_taint(b)
            l0 = op_local(t["args"][0])
            for s_, locs in lits.items():
                if l0 in locs or any(x in locs for x in ba.ref_chain(l0)):
                    nm = s_ if nm is None or len(s_) > len(nm) else nm
        ok = bool(nm) and nm.endswith("redo-ifchange")
        ctx.ob(rid, "%s|command#%d|is-redo-ifchange" % (b.key, k), ok, where=ctx.where(b, i),
               detail="spawns %s" % nm if ok else "spawns %r: not the conditional builder" % nm)


# ------------------------------------------------------------------------------------------------
# R8.13  JobServer::setup gets the -j value the user gave

def setup_gets_the_validated_jobs_value(ctx, rid):
    ctx.rule(rid, "`redo -jN`: the value handed to JobServer::setup is the very value that was parsed and range-checked, not a remapped one - setup gives 0 (join the parent's jobserver) and 1 (serialise this subtree with a one-token jobserver of its own) different meanings, so `-j1` folded into 0 lets a `redo -j1` below a parallel build start as many jobs at once as the parent has free tokens")
    prog = ctx.prog
    cands = [x for k_, x in sorted(prog.bodies.items()) if k_.startswith("@bin::run_redo") and BA.of(x).calls(r"jobserver::JobServer::setup")]
    if len(cands) != 1:
        raise AnchorError("%s: the body of `redo` that calls JobServer::setup not located (%d)" % (rid, len(cands)))
    b = cands[0]
    ba = BA.of(b)
    su = ba.calls(r"jobserver::JobServer::setup")
    from core import op_place

    def cell(l):
        """the memory cell an integer temporary is a copy of: a local, or a captured variable (`*(_1.k)`)"""
        r = common.int_root(b, l)
        d = ba.single_def(r)
        if d and d[0] == "stmt" and d[3]["k"] == "use" and op_place(d[3]["op"]) is not None and op_place(d[3]["op"])["p"]:
            return common.place_key(b, op_place(d[3]["op"]))
        return (r, ())
    checked = set()
    for blk in b.blocks:
        for st in blk["stmts"]:
            if st["s"] == "assign" and st["rv"]["k"] == "binop" and st["rv"]["op"] in ("Gt", "Ge", "Lt", "Le"):
                for side, other in (("a", "b"), ("b", "a")):
                    c = const_int(st["rv"][other])
                    l = op_local(st["rv"][side])
                    if c is not None and c >= 100 and l is not None:
                        checked.add(cell(l))
    # `!(0..=1000).contains(&j)`
    for i in ba.calls(r"core::ops::(range::)?Range(Inclusive)?(::<.*>)?::contains|.*Range(Inclusive)?<.*>::contains|.*RangeBounds.*::contains"):
        t_ = b.blocks[i]["term"]
        if len(t_["args"]) > 1 and op_local(t_["args"][1]) is not None:
            l_ = op_local(t_["args"][1])
            pl_ = ba.resolve_ref(l_)
            if pl_ is not None:
                pk_ = common.place_key(b, pl_)
                checked.add(cell(pk_[0]) if not pk_[1] else pk_)
            checked.add(cell(l_))
    if not checked:
        raise AnchorError("%s: the range check of --jobs in %s not located" % (rid, b.key))
    for k, i in enumerate(su):
        a0 = op_local(b.blocks[i]["term"]["args"][0])
        root = cell(a0) if a0 is not None else None
        ok = root in checked
        ctx.ob(rid, "%s|setup#%d|receives-the-checked-value" % (b.key, k), ok, where=ctx.where(b, i),
               detail="JobServer::setup(j) with the parsed and range-checked j" if ok else "the -j value is remapped between its range check and JobServer::setup")


# ------------------------------------------------------------------------------------------------
# R16.11  the write lock of the database is not held across a read of the script's data

def no_stdin_read_under_transaction(ctx, rid):
    ctx.rule(rid, "redo-stamp has read all of its standard input before it opens the state (ProcessState::init) and begins its IMMEDIATE transaction: the producer feeding the pipe may take arbitrarily long, and every other command on the project waits for that write lock - past the 60 s busy timeout it fails with `database is locked`")
    prog = ctx.prog
    b = prog.one(r"@bin::stamp::run")
    ba = BA.of(b)
    sin = ba.calls(r"std::io::stdio::stdin|std::io::stdin")
    if not sin:
        raise AnchorError("%s: %s does not take standard input" % (rid, b.key))
    st = taint(b, seeds={b.blocks[c]["term"]["dest"]["l"] for c in sin}, mode="derived")
    reads = [i for i in ba.calls(r"std::io::copy::copy|std::io::copy|.*::read_to_end|.*::read_to_string|(<.* as )?std::io::Read>?::read|.*::read_exact|.*::read_until|.*::read_line")
             if any(op_local(a) is not None and (op_local(a) in st or any(x in st for x in ba.ref_chain(op_local(a)))) for a in b.blocks[i]["term"]["args"])]
    ctx.floor(rid, "reads of standard input in redo-stamp", len(reads), 1)
    opens = ba.calls(r"state::ProcessTransaction::new|state::ProcessState::init")
    late = [r for r in reads if any(ba.path([o], [r], incl=True) is not None for o in opens)]
    ctx.ob(rid, "%s|input-read-before-the-state-is-opened" % b.key, not late and bool(opens), where=ctx.where(b, late[0]) if late else b.span,
           detail="standard input is consumed before ProcessState::init / the transaction" if not late else
           "standard input is read while the state is open and the write transaction has begun: a slow producer holds up every other command on the project")


# ------------------------------------------------------------------------------------------------
# R18.16  names in records are the caller's spelling, resolved against the process's own cwd

def record_name_operand_is_the_argument(ctx, rid):
    ctx.rule(rid, "state::target_relpath hands the name it was given to state::relpath unchanged (relpath anchors a relative name at the working directory of the process, which is where a script that did `cd sub && redo-ifchange y` means it): re-anchoring it at the .do file's directory makes the record name another file, redo-log looks for `y` beside the parent target, stops with `not known to redo` or shows another target's log")
    prog = ctx.prog
    b = prog.one(r"state::target_relpath")
    ba = BA.of(b)
    # relpath, or the worker relpath itself hands both its operands to (a generic shell over a non-generic body)
    fam = ["state::relpath"]
    rp = prog.bodies.get("state::relpath")
    if rp is not None:
        rba = BA.of(rp)
        for i in rba.all_calls():
            for q in callee_paths(rp.blocks[i]["term"]):
                w = prog.bodies.get(q)
                if w is not None and w.arg_count == rp.arg_count and len(rp.blocks[i]["term"]["args"]) == rp.arg_count and q not in fam:
                    fam.append(q)
    from rules.C06 import backward_direct
    # ... also when that worker is new code that the canonicaliser spliced into both (the splice point keeps the operands)
    def splices(body):
        return [(i, bl["term"]) for i, bl in enumerate(body.blocks) if bl["term"].get("inlined") and bl["term"].get("inl_args") is not None]
    workers = set()
    if rp is not None:
        for i, t in splices(rp):
            ls = [op_local(a) for a in t["inl_args"]]
            if len(ls) == rp.arg_count and all(l is not None for l in ls):
                roots = [set(x for x in backward_direct(rp, l, depth=20)[0] if 1 <= x <= rp.arg_count) for l in ls]
                if all(r_ == {n_ + 1} for n_, r_ in enumerate(roots)):
                    workers.add(t["inlined"])
    rel = [(i, b.blocks[i]["term"]["args"]) for i in ba.calls("|".join(re.escape(q) for q in fam))]
    rel += [(i, t["inl_args"]) for i, t in splices(b) if t["inlined"] in workers]
    if not rel:
        raise AnchorError("%s: no relpath call in %s" % (rid, b.key))
    for k, (i, args_) in enumerate(rel):
        a0 = op_local(args_[0])
        sl, org, _ = backward_direct(b, a0, depth=40) if a0 is not None else (set(), [], None)
        from_param = any(1 <= x <= b.arg_count for x in sl)
        other = [o for o in org if o[0] == "call"]
        ok = from_param and not other
        ctx.ob(rid, "%s|relpath#%d|name-operand-is-the-parameter" % (b.key, k), ok, where=ctx.where(b, i),
               detail="relpath(t, target_dir) with the caller's t" if ok else
               "the name is rewritten (%s) before relpath sees it" % (common.short(callee_paths(other[0][2])[0]) if other else "not the parameter"))


# ------------------------------------------------------------------------------------------------
# R18.17  one record = one write

def record_written_in_one_piece(ctx, rid):
    ctx.rule(rid, "the raw logger puts a line into the log with one write of the complete text (format first, then Write::write): formatting straight into the unbuffered file (write!/writeln! = Write::write_fmt) issues one write(2) per fragment, and a record written while a background process of the same script writes to the same log is cut in pieces that no longer parse - the nested target's lines are lost")
    prog = ctx.prog
    bodies = [b for k, b in sorted(prog.bodies.items()) if "logs::RawLog" in k]
    if not ctx.floor(rid, "RawLog bodies", len(bodies), 1):
        return
    n, bad = 0, []
    for b in bodies:
        ba = BA.of(b)
        ft = taint(b, src_place=lambda p_: any(f.startswith("logs::RawLog.") for f in place_fields(p_)), mode="direct")
        for i in ba.all_calls():
            t = b.blocks[i]["term"]
            ps = callee_paths(t)
            a0 = op_local(t["args"][0]) if t.get("args") else None
            on_file = a0 is not None and (a0 in ft or any(x in ft for x in ba.ref_chain(a0)))
            if not on_file:
                continue
            if any(re.search(r"Write>?::(write|write_all)$|io::Write::(write|write_all)$", q) for q in ps):
                n += 1
            if any(re.search(r"Write>?::write_fmt$|io::Write::write_fmt$", q) for q in ps):
                bad.append((b, i))
    ctx.floor(rid, "whole-line writes to the raw log", n, 1)
    ctx.ob(rid, "RawLog|no-formatted-write-into-the-file", not bad, where=ctx.where(bad[0][0], bad[0][1]) if bad else bodies[0].span,
           detail="lines reach the file through Write::write of the complete text" if not bad else "write!/writeln! formats straight into the log file: one write(2) per fragment")


# ------------------------------------------------------------------------------------------------
# R12.13  REDO_CYCLES only ever grows

def cycle_set_only_grows(ctx, rid):
    ctx.rule(rid, "the only writer of REDO_CYCLES is cycles::add (which inserts): no other body sets the variable - taking an id *off* the inherited list (e.g. when a lock is handed over to redo-unlocked's second phase) lets a script below ask for the very target whose lock an ancestor still holds, and the request blocks for ever instead of being refused as a cycle")
    prog = ctx.prog
    writers = []
    for b in prog.bodies.values():
        ba = BA.of(b)
        for i in ba.calls(r"std::env::(set_var|remove_var)|std::process::Command::(env|env_remove|env_clear)"):
            t = b.blocks[i]["term"]
            nm = None
            for a in t["args"]:
                c = op_const(a)
                if c is not None and (c.get("str") == "REDO_CYCLES" or str(c.get("named", "")).endswith("ENV_CYCLES")):
                    nm = "REDO_CYCLES"
            if nm:
                writers.append((b, i))
    ctx.floor(rid, "writers of REDO_CYCLES", len(writers), 1)
    bad = [(b, i) for (b, i) in writers if b.key != "cycles::add"]
    ctx.ob(rid, "REDO_CYCLES|written-only-by-cycles::add", not bad, where=ctx.where(bad[0][0], bad[0][1]) if bad else "",
           detail="cycles::add is the only writer" if not bad else "%s rewrites REDO_CYCLES" % bad[0][0].key)


# ------------------------------------------------------------------------------------------------
# R11.14 / R2.11  what redo has just built is redo's output again

def successful_build_clears_override(ctx, rid):
    ctx.rule(rid, "record_new_state, success side: on every path from the installed output to the save of the record the override flag is cleared (a direct write of is_override := false, or a File method that does it) - also on the `redo-stamp ran` side, which calls no set_changed: a target that was overridden, deleted and regenerated would otherwise stay `overridden` for good, File::deps() answers `none` for it and no change of its inputs is ever noticed")
    prog = ctx.prog
    from rules.C11 import override_clearers
    R = anchors.record_new_state(prog)
    rba = BA.of(R)
    ren = rba.calls(r"std::fs::rename")
    saves = rba.calls(r"state::File::save")
    if not ren or not saves:
        raise AnchorError("%s: rename / save of %s not located" % (rid, R.key))
    clearers = override_clearers(ctx, prog)
    clear = {bb for (bb, j, st) in field_writes(R, r"state::File\.is_override") if st["rv"]["k"] == "use" and (op_const(st["rv"]["op"]) or {}).get("bool") is False}
    clear |= {i for i in rba.all_calls() if any(q in clearers for q in callee_paths(R.blocks[i]["term"]))}
    eqs = common.cmp_const_switches(R, 0)
    rvl = None
    for (_, _, _, x) in eqs:
        rvl = x
    fam = common.status_family(R, common.int_root(R, rvl)) if rvl is not None else set()
    # paths on which the status is still a success when the record is saved
    fails = set(rba.calls(r"state::File::set_failed"))
    pth = common.status_path_avoiding(R, fam, 0, ren[0], saves, avoid=frozenset(clear | fails)) if fam else rba.path([ren[0]], saves, avoid=frozenset(clear | fails), incl=True)
    ctx.ob(rid, "%s|success=>override-flag-cleared" % R.key, pth is None and bool(clear), where=ctx.where(R, ren[0]),
           detail="every successful build clears is_override before the record is saved" if pth is None and clear else
           "a successful build can be saved with the override flag still set", witness=pth)


# ------------------------------------------------------------------------------------------------
# R10.15  redo itself never dies of SIGPIPE

def sigpipe_default_only_in_job_children(ctx, rid):
    ctx.rule(rid, "SIGPIPE is given back its default action only in the forked job children right before exec (the two closures handed to the jobserver); everywhere else redo keeps the Rust runtime's `ignore`: the builder's next write after the log reader went away is the `done` record inside record_new_state - after rename(tmp -> target), before the commit - and with the default action that write kills redo exactly in the window in which the database still holds the old stamp (every later run: `you modified it; skipping`)")
    prog = ctx.prog
    allowed = {cl.key for _, _, cl in anchors.fork_closures(prog)}
    sites = []
    for b in prog.bodies.values():
        ba = BA.of(b)
        for i in ba.calls(r"nix::sys::signal::(signal|sigaction)|libc::(signal|sigaction)"):
            t = b.blocks[i]["term"]
            txt = json_text(t["args"])
            a0 = op_local(t["args"][0]) if t.get("args") else None
            if a0 is not None:
                for x in [a0] + list(ba.ref_chain(a0)):
                    d = ba.single_def(x)
                    if d and d[0] == "stmt":
                        txt += json_text(d[3])
            if "SIGPIPE" in txt or (op_const(t["args"][0]) or {}).get("int") == 13:
                sites.append((b, i))
    ctx.floor(rid, "SIGPIPE dispositions set", len(sites), 2)
    bad = [(b, i) for (b, i) in sites if b.key not in allowed]
    ctx.ob(rid, "SIGPIPE|default-action-only-in-job-children", not bad, where=ctx.where(bad[0][0], bad[0][1]) if bad else "",
           detail="only the job children reset SIGPIPE" if not bad else "%s changes the disposition of SIGPIPE for a process that writes log records" % bad[0][0].key)


# ------------------------------------------------------------------------------------------------
# R5.19 / R7.16  "failed in this run" is a statement about failed_runid alone

def is_failed_reads_only_the_failure_mark(ctx, rid):
    ctx.rule(rid, "File::is_failed looks at failed_runid (and the current run id) only: set_failed itself flips is_generated off when the failed script left no file, so any further condition on the record (`only a generated file can have failed`) switches the refusal off for exactly the usual kind of failure, and the failing .do runs again for every further requester in the same run")
    from core import rvalue_places, place_fields
    prog = ctx.prog
    b = prog.one(r"state::File::is_failed")
    fields = set()
    for blk in b.blocks:
        for st in blk["stmts"]:
            if st["s"] != "assign":
                continue
            for pl in rvalue_places(st["rv"]):
                for f in place_fields(pl):
                    if f.startswith("state::File."):
                        fields.add(f.split(".")[-1])
    calls = [q for i in BA.of(b).all_calls() for q in callee_paths(b.blocks[i]["term"]) if q.startswith("state::File::")]
    ok = fields == {"failed_runid"} and not calls
    ctx.ob(rid, "File::is_failed|reads-failed_runid-only", ok, where=b.span,
           detail="decided by failed_runid against the current run" if ok else "also depends on %s" % sorted((fields - {"failed_runid"}) | set(calls)))


_BORROW_CACHE = {}


def borrow(prop_from, rule_from, key_rx, why):
    def f(ctx, rid):
        import importlib
        import engine
        ck = (id(ctx.prog), prop_from)
        sub = _BORROW_CACHE.get(ck)
        if sub is None:
            sub = engine.Ctx(ctx.prog, ctx.cg, prop_from, ctx.tier)
            try:
                importlib.import_module("rules." + prop_from).run(sub)
            except AnchorError as e:
                # the lending table stopped at a missing anchor: what it decided before that point still counts
                sub.note("stopped at: %s" % e)
            _BORROW_CACHE.clear()
            _BORROW_CACHE[ck] = sub
        ctx.rule(rid, "(= %s of %s) %s; matters here because %s" % (rule_from, prop_from, sub.rules.get(rule_from, ""), why))
        n = 0
        for o in sub.obs:
            if o["rule"] != rule_from:
                continue
            k = o["key"].split("|", 1)[1]
            if key_rx and not re.search(key_rx, k):
                continue
            n += 1
            ctx.ob(rid, k, o["ok"], where=o["where"], detail=o["detail"], witness=o["witness"], nontrivial=o["nontrivial"])
        ctx.floor(rid, "instances of %s taken over from %s" % (rule_from, prop_from), n, 1)
    return f


def memo_after_failed_test(ctx, rid):
    from rules import dirt
    ctx.rule(rid, "(= R1.7) the per-run 'already checked' memo is consulted only after the failed-last-time test: a target that failed in this run is never reported clean to a later dependent")
    dirt.memo_placement(ctx, rid)


# ------------------------------------------------------------------------------------------------

TABLE = {
    "C02": [("R2.12", borrow("C01", "R1.3", None, "the caller's edges are written before the build: a dependency that fails is then still an edge, gets retried through the caller and makes it rebuild once it succeeds")),
            ("R2.11", successful_build_clears_override), ("R2.7", every_candidate_leaves_an_edge), ("R2.10", add_dep_replaces_unconditionally),
            ("R2.8", borrow("C03", "R3.2", None, "a build wrongly taken for a stamped one never advances changed_runid: the target and its dependents then re-run on every later redo-ifchange"))],
    "C13": [("R13.11", borrow("C01", "R1.1", r"Created=>exists-test", "a must-not-exist edge (the higher-priority .do candidates that were looked for and not found) is dirty exactly when the path exists now - whatever else is known about that path in this run: a rule created for one sibling must be noticed by all")),
            ("R13.10", shebang_read_tolerates_any_bytes), ("R13.6", every_candidate_leaves_an_edge), ("R13.7", check_never_refreshes_stamps),
            ("R13.8", borrow("C02", "R2.3", r"^(add_dep\||sql-literals-found)", "a must-not-exist edge for a higher-priority .do candidate has to replace last build's row (and clear its deletion mark), or it is swept after the second build and a new candidate is never noticed"))],
    "C03": [("R3.14", unlocked_phases_are_conditional), ("R3.12", memo_after_failed_test), ("R3.13", stamped_mark_is_build_specific), ("R3.9", signal_death_is_failure), ("R3.10", uncertain_is_not_built_directly), ("R3.11", stamp_reads_to_eof)],
    "C05": [("R5.8", signal_death_is_failure),
            ("R5.9", borrow("C01", "R1.3", None, "the edge to a requested target must exist even when that target then fails, or the caller is not dirty next run and the failed target is never retried")),
            ("R5.10", memo_after_failed_test), ("R5.12", callback_error_keeps_cause), ("R5.13", flags_exported_only_when_set),
            ("R5.11", decision_sees_finished_jobs),
            ("R5.14", borrow("C13", "R13.3", r"argv\[0\.\.2\]", "scripts run under `sh -e`: a failing redo-ifchange inside a .do stops the script and fails the target")),
            ("R5.15", failed_marker_not_cleared_at_start), ("R5.17", set_failed_records_file_as_it_is), ("R5.19", is_failed_reads_only_the_failure_mark), ("R5.18", every_failure_is_recorded)],
    "C04": [("R4.6", output_probed_with_lstat), ("R4.7", direct_modification_is_inequality), ("R4.8", stdout_amount_from_fstat),
            ("R4.9", borrow("C13", "R13.3", r"^[^|]*\|\$3=", "two targets that differ only in the matched extension must not share one temp output file: the second script's output would replace or destroy the first's")),
            ("R4.11", tmp_removal_copes_with_directory), ("R4.12", every_failure_is_recorded)],
    "C11": [("R11.15", check_never_refreshes_stamps),
            ("R11.14", successful_build_clears_override), ("R11.8", direct_modification_is_inequality), ("R11.11", foreign_file_not_recorded_as_ours),
            ("R11.9", borrow("C15", "R15.2", None, "the record consulted for `generated / override` must be the one of the file the kernel will resolve: a spelling cleaned before symlinks are resolved selects another record and a user's file is replaced"))],
    "C06": [("R6.9", verdict_only_under_lock), ("R6.10", lock_file_opened_once),
            ("R6.12", borrow("C15", "R15.2", None, "the lock id is the id of the record a spelling maps to: a relpath that skips symlink resolution (a lexical fast path) gives one file reached through a symlinked directory two records and two lock bytes, and two commands run its .do at the same time")),
            ("R6.11", borrow("C15", "R15.9", None, "the lock id is the id of the record the name maps to: a directory spelling that is not resolved (a lexical shortcut, or a directory that does not exist yet) gives the same file a second record and a second lock, and two commands run its .do at the same time"))],
    "C07": [("R7.16", is_failed_reads_only_the_failure_mark),
            ("R7.14", borrow("C05", "R5.4", None, "a target that failed in this run is refused on both ways to a job - the dirtiness callback of redo-ifchange and the builder's pass over targets that were locked: with either refusal gone a requester queued behind the failing job runs the .do a second time in the same run")), ("R7.15", borrow("C06", "R6.6", None, "REDO_UNLOCKED must not leak below the one process it is meant for: scripts that inherit it build without locks, and a target requested by two jobs is built twice")),
            ("R7.13", borrow("C14", "R14.3", None, "an always-target is rebuilt once per run however many dependents ask for it only if every redo-always re-stamps the shared //ALWAYS row: with the row left unstamped each further requester finds the target dirty again")),
            ("R7.11", arguments_reach_builder_unfiltered), ("R7.12", unlocked_phases_are_conditional), ("R7.5", verdict_only_under_lock), ("R7.8", lock_file_opened_once),
            ("R7.10", borrow("C15", "R15.2", None, "two spellings of one target are folded by record: a relpath that skips symlink resolution gives the file a second record, and one run builds it twice")),
            ("R7.9", borrow("C15", "R15.9", None, "two spellings of one target on a command line (or from two dependents) are folded by record id: a spelling whose directory is not resolved gets a record of its own and the target is built twice in the run")),
            ("R7.6", borrow("C02", "R2.3", r"marked-edges-still-listed", "while a target is being rebuilt its marked edges are the only record of why it is dirty: a dependent evaluated by a parallel job must still see them")),
            ("R7.7", borrow("C13", "R13.3", r"^[^|]*\|\$3=", "two targets of one default.*.do that differ only in the matched extension must not share a temp output name when built in parallel"))],
    "C08": [("R8.10", cheat_pipe_only_for_j0), ("R8.13", setup_gets_the_validated_jobs_value)],
    "C01": [("R1.17", borrow("C03", "R3.7", None, "REDO_NO_OOB kept alive below an out-of-band check changes what the redo-ifchange calls of the scripts down there do (they build at once and, in a careless edit, stop recording edges): a target rebuilt there must end up with the edges it declared")), ("R1.18", borrow("C06", "R6.3", None, "the record a job works from is read again under the lock: one read before another command built the target makes the builder take the fresh file for a manual edit and save a stale record over the new one - the target is a source from then on and later edits of its inputs are ignored")),
            ("R1.9", check_never_refreshes_stamps), ("R1.14", stamped_mark_is_build_specific), ("R1.15", set_failed_records_file_as_it_is),
            ("R1.16", every_candidate_leaves_an_edge),
            ("R1.11", borrow("C15", "R15.2", None, "the builder records the new stamp on the record the requested spelling maps to, the .do's own redo-ifchange records its source edges on the record of $REDO_PWD/$REDO_TARGET: unless both spellings are resolved to one record the stamped record never sees a source change and redo-ifchange exits 0 with the target stale")),
            ("R1.12", borrow("C02", "R2.2", None, "the edges of the previous build are deleted only when the new result is recorded (second phase): deleted up front, a build killed before its .do re-declares them leaves a target with no reason to be dirty")),
            ("R1.13", borrow("C02", "R2.1", None, "first phase: old edges are only marked before the .do search and the fork")),
            ("R1.10", borrow("C02", "R2.3", r"marked-edges-still-listed", "after an interrupted rebuild the marked edges are the only reason the target is dirty"))],
    "C14": [("R14.10", borrow("C06", "R6.6", None, "REDO_UNLOCKED must not leak to the scripts below redo-unlocked's second phase: their redo-ifchange / redo-ifcreate / redo-always calls then record nothing, and the ifcreate and always edges of everything rebuilt there are gone")),
            ("R14.9", unlocked_phases_are_conditional), ("R14.8", add_dep_replaces_unconditionally),
            ("R14.7", borrow("C02", "R2.3", r"^(add_dep\||sql-literals-found)", "a re-declared ifcreate edge must replace last build's row and clear its deletion mark")),
            ("R14.6", borrow("C02", "R2.3", r"marked-edges-still-listed", "an ifcreate / always edge of an interrupted rebuild must still make the target dirty"))],
    "C09": [("R9.10", probe_forks_while_owning), ("R9.11", alarm_interrupts_blocking_read),
            ("R9.12", borrow("C08", "R8.8", None, "a redo that leaves its passes without a token exits holding none: its parent re-creates one, the pool grows by one and the top-level self-test fails a build whose scripts all succeeded")),
            ("R9.8", borrow("C12", "R12.2", None, "a lock id that is not registered turns a cycle into an endless fcntl wait")),
            ("R9.9", borrow("C08", "R8.1", None, "a counter written outside the accounting functions breaks the top-level self-test: an all-success build exits 1"))],
    "C17": [("R17.6", ood_lists_every_nonclean), ("R17.7", check_never_refreshes_stamps), ("R17.9", listing_never_creates_state), ("R17.10", stat_treats_enotdir_as_missing)],
    "C18": [("R18.7", done_status_type_agrees), ("R18.8", seen_only_when_shown), ("R18.9", record_after_partial_line),
            ("R18.10", record_names_relative_to_target_dir), ("R18.11", non_record_line_echoed_whole),
            ("R18.12", follower_reads_after_probe), ("R18.13", parse_keeps_text_verbatim), ("R18.14", record_content_never_panics), ("R18.15", log_read_tolerates_any_bytes), ("R18.16", record_name_operand_is_the_argument), ("R18.17", record_written_in_one_piece)],
    "C15": [("R15.12", arguments_reach_builder_unfiltered), ("R15.7", key_never_bypasses_relpath), ("R15.8", relpath_is_componentwise)],
    "C10": [("R10.12", borrow("C04", "R4.4", r"tmp-name|same-tmp", "the stale-output removal before the fork must name the same file the script will be told to write ($3, beside the target): removing another path leaves the half-written output of a killed build in place, to be taken for this build's output")),
            ("R10.8", rename_inside_result_transaction), ("R10.15", sigpipe_default_only_in_job_children), ("R10.14", schema_created_inside_transaction), ("R10.13", tmp_removal_copes_with_directory), ("R10.10", interrupted_creation_is_recoverable), ("R10.11", failed_marker_not_cleared_at_start),
            ("R10.9", borrow("C05", "R5.3", None, "a job that dies (non-zero or by signal) has its un-redeclared edges deleted by zap_deps2, so it must be marked failed in the same transaction or it looks clean after the kill"))],
    "C12": [("R12.13", cycle_set_only_grows), ("R12.12", arguments_reach_builder_unfiltered), ("R12.9", every_modified_dep_is_descended), ("R12.10", only_immediate_exit_becomes_job_result),
            ("R12.11", borrow("C13", "R13.3", r"argv\[0\.\.2\]", "a .do on the cycle must stop at the failing redo-ifchange (`sh -e`), or the entry target exits 0 although the cycle was detected below"))],
    "C16": [("R16.11", no_stdin_read_under_transaction), ("R16.7", state_dir_creation_is_idempotent), ("R16.9", probe_forks_while_owning),
            ("R16.8", borrow("C06", "R6.3", None, "a record read before waiting for another command's lock predates that command's commit: using it afterwards writes stale state over the other command's result"))],
}


def run(ctx, prop):
    for rid, fn in TABLE.get(prop, []):
        fn(ctx, rid)
