"""C09 - No interleaving crashes or deadlocks the scheduler (each rule removes one way to abort or hang)."""
import re

import anchors
from core import (BA, call_matches, callee_paths, op_local, op_place, op_const, const_int, place_fields, field_writes)
from facts import strip_generics
from typestate import LockTS, derive_preconditions, LOCK, lockts_with_lends
from rules import common
from rules.C06 import backward_direct, trace_moves
from rules.C07 import dedupe_rule
from rules.C08 import token_preconditions, token_read_guard, classify_waits, surplus_released, blocking_selects

EXPLANATION = (
    "Static rules that each exclude one way to abort on an internal assertion or to wait forever: typestate of every "
    "state::Lock (no unlock when not owned, no try_lock/wait_lock/check when owned; obligations read from the callee's "
    "own assert!s) over the scheduler, its cheat closure, redo-log and the broken-locks probe; the token preconditions of "
    "JobServerHandle::start (== 1) and release_mine (>= 1) established on every path; the blocking lock wait is reached "
    "only with the job futures drained, after release_mine, and the lock it obtains is released before the next token "
    "wait; one live Lock per id per command line; the event loop never selects on nothing and re-polls the root future "
    "on every wake-up; custom futures register a wake-up before returning Pending. An inventory of the remaining "
    "assert/unwrap/expect sites under the scheduler is reported, not judged. Does NOT decide general deadlock freedom "
    "across processes or termination."
)
ASSUMPTIONS = ["unwind edges excluded", "the kernel wakes F_SETLKW waiters when the holder releases or dies"]

PANICKY = re.compile(r"core::panicking::.*|core::option::Option::(unwrap|expect)|core::result::Result::(unwrap|expect)|core::option::unwrap_failed|core::result::unwrap_failed")


def lock_typestate(ctx, rid, body, role, roots=None, entry=None, single=False, exit_required=None, pre=None, exclude=(), starts=None, ts=None):
    if ts is None:
        ts = LockTS(ctx.prog, body, roots or [], entry_state=entry, preconds=pre, single_object=single, exclude=exclude, starts=starts)
    n = 0
    calls = [(bb, det, st) for (bb, kind, st, det) in ts.events if kind == "call"]
    bad = {(bb, det[0]): (st, det[1]) for (bb, kind, st, det) in ts.events if kind == "precondition"}
    for k, (bb, name, st) in common.ordinal_keys([(common.short(x[1]), x) for x in calls]):
        need = (pre or ts.pre).get(name)
        if need is None:
            continue
        n += 1
        b = bad.get((bb, name))
        ctx.ob(rid, "%s|%s|%s" % (body.key, role, k), b is None, where=ctx.where(body, bb),
               detail="%s requires state %s; state here: %s" % (common.short(name), {"O": "owned", "U": "not owned"}[need], sorted(st)))
    if exit_required is not None:
        # state where a normal (Ok) result is produced; error returns end the process
        rets = common.blocks_with_agg(body, r"core::result::Result", "Ok") or BA.of(body).returns()
        sts = set()
        for r in rets:
            sts |= ts.state_at(r) or set()
        ctx.ob(rid, "%s|%s|exit-state" % (body.key, role), sts <= set(exit_required), where=body.span,
               detail="lock state at return: %s (required %s)" % (sorted(sts), sorted(exit_required)))
    return n, ts


def run(ctx):
    prog = ctx.prog
    S = anchors.scheduler(prog)
    ba = BA.of(S)
    pre = derive_preconditions(prog)
    ctx.rule("R9.1", "Lock typestate: every call of a Lock method establishes what the callee asserts about `owned`")
    ctx.rule("R9.2", "token preconditions: from every point where the process may hold no token, a completed ensure_token_or_cheat precedes JobServerHandle::start (asserts == 1) and release_mine (asserts >= 1); a wake-up never leaves my_tokens == 2")
    ctx.rule("R9.3", "blocking lock wait discipline: wait_lock is reached only with the job futures drained and after release_mine; the lock it obtains is unlocked before the next ensure_token_or_cheat")
    ctx.rule("R9.4", "one live Lock per id per command line (the in-process registry asserts on duplicates): dedupe on the canonical identity")
    ctx.rule("R9.5", "the event loop never selects on an empty set without a timer, polls the root future on every iteration, and every custom future registers a wake-up before returning Pending")
    ctx.rule("R9.7", "retry loops do not grow a Duration without bound: a Duration multiplied inside a loop is clamped (cmp::min) before it is multiplied again (Duration arithmetic panics on overflow)")
    ctx.rule("R9.6", "inventory of assert/unwrap/expect sites reachable from the scheduler and the event loop (reported, not judged)")

    # The scheduler = the body that constructs the jobs plus the coroutines it awaits in place (the retry loop of the
    # locked-queue pass may live in an `async fn` of its own): [(body, poll block in S through which it runs | None)]
    parts = [(S, None)]
    handovers = []          # (awaiting body, poll block, ready block, awaited body)

    def add_nested(B, via, depth=3):
        for (pbb, ready, NB) in classify_waits(B, prog)["nested"]:
            top = via if via is not None else pbb
            handovers.append((B, pbb, ready, NB))
            if all(NB.key != x.key for x, _ in parts) and depth > 0:
                parts.append((NB, top))
                add_nested(NB, top, depth - 1)
    add_nested(S, None)

    asserts = {k: v for k, v in pre.items() if v}
    ctx.floor("R9.1", "Lock methods that assert on `owned`", len(asserts), 4)
    n = 0
    lent_bodies = set()
    # scheduler: one analysis per new_lock site
    for k, i in common.ordinal_keys([("new_lock", i) for i in ba.calls(r"state::ProcessState::new_lock")]):
        t = S.blocks[i]["term"]
        if t["dest"]["p"]:
            continue
        # (the lock may be lent to a coroutine awaited in place - the retry loop as an `async fn(&mut Lock)`: that body is
        # analysed from the state the lock is in where it is built, and its completion state continues here)
        ts_, lent = lockts_with_lends(prog, S, [t["dest"]["l"]], pre)
        c, _ = lock_typestate(ctx, "R9.1", S, k, pre=pre, ts=ts_)
        n += c
        for NB, nts, st0 in lent:
            c, _ = lock_typestate(ctx, "R9.1", NB, "lent-" + k, pre=pre, ts=nts)
            n += c
            lent_bodies.add(NB.key)
    # closures that use a captured lock (the cheat closure: selflock lives in a captured Option<(.., Lock)>);
    # invariant: not owned at entry and at every normal exit
    lock_closures = [b for b in prog.bodies.values() if b.kind == "Closure" and not b.coroutine
                     and BA.of(b).calls(r"state::Lock::(unlock|try_lock|wait_lock|check)") and b.key.startswith("builder::")]
    for cl in sorted(lock_closures, key=lambda b: b.key):
        c, _ = lock_typestate(ctx, "R9.1", cl, "captured-selflock", entry={"U"}, single=True, exit_required={"U"}, pre=pre)
        n += c
    table = [(r"@bin::log::LogState::catlog", "loglock", True), (r"@bin::log::is_locked", "probe", True),
             (r"state::LockManager::detect_broken_locks", "probe", False), (r"state::ProcessState::init", "init-lock", False)]
    # a probe helper may be inlined into its caller (its body then no longer exists): the caller's table entry
    # covers the probe lock as a lock object of its own (see `standalone` below); a missing entry whose lock
    # calls are nowhere else is caught by the coverage instances
    table = [(k, r_, s_) for (k, r_, s_) in table if prog.find(k) or k != r"@bin::log::is_locked"]
    for key, role, single in table:
        b = prog.one(key)
        bba = BA.of(b)
        news = bba.calls(r"state::ProcessState::new_lock|state::Lock::new")
        if not single:
            for k, i in common.ordinal_keys([("Lock::new", i) for i in news]):
                c, _ = lock_typestate(ctx, "R9.1", b, role + "-" + k, roots=[b.blocks[i]["term"]["dest"]["l"]], pre=pre)
                n += c
        else:
            # lock values created here that never travel into a container (tuple / struct / Option) are objects
            # of their own: each is analysed separately and kept out of the container lock's analysis
            standalone = []
            for i in news:
                d = b.blocks[i]["term"]["dest"]
                if d["p"] or b.locals[d["l"]] != LOCK:
                    continue
                ts0 = LockTS(prog, b, [d["l"]], preconds=pre)
                moved = any(any(k_ in ("agg", "callarg") for k_, _ in ts0._escapes(blk)) for blk in b.blocks)
                if not moved:
                    standalone.append((i, d["l"], set(ts0.tracked)))
            excl = set()
            for _, _, tr in standalone:
                excl |= tr
            for k, (i, l, _) in common.ordinal_keys([("Lock::new", x) for x in standalone]):
                c, _ = lock_typestate(ctx, "R9.1", b, "probe-" + k, roots=[l], pre=pre)
                n += c
            c, _ = lock_typestate(ctx, "R9.1", b, role, single=True, pre=pre, exclude=excl)
            n += c
    # any other body that creates locks and calls their methods (a part of the scheduler moved into a function /
    # coroutine of its own): one analysis per new_lock site, like the scheduler
    analysed = {S.key} | {prog.one(k).key for k, _, _ in table} | {c.key for c in lock_closures} | lent_bodies
    internal = {k for k in prog.bodies if k.startswith("state::Lock::") or k.startswith("<state::Lock as")}
    exit_states = {}
    for b in anchors.bodies_calling(prog, r"state::Lock::(unlock|try_lock|wait_lock|check)"):
        if b.key in internal or b.key in analysed:
            continue
        bba = BA.of(b)
        news = [i for i in bba.calls(r"state::ProcessState::new_lock|state::Lock::new")
                if not b.blocks[i]["term"]["dest"]["p"] and b.locals[b.blocks[i]["term"]["dest"]["l"]] == LOCK]
        users = set()
        for k, i in common.ordinal_keys([("new_lock", i) for i in news]):
            c, ts = lock_typestate(ctx, "R9.1", b, k, roots=[b.blocks[i]["term"]["dest"]["l"]], pre=pre)
            n += c
            users |= {bb for (bb, kind, st, det) in ts.events if kind == "call"}
            # the state in which the lock leaves the body inside its result (`Ok(lock)`)
            for (bb, kind, st, det) in ts.events:
                if kind == "escape" and det in ("core::result::Result", "core::option::Option") and b.locals[0] and LOCK in b.locals[0]:
                    exit_states.setdefault(b.key, set()).update(st)
        # covered only if every asserting call of the body is on a lock it created itself
        if news and all(i in users for i in bba.calls(r"state::Lock::(unlock|try_lock|wait_lock|check)")):
            analysed.add(b.key)
    # a lock handed over by an awaited coroutine: analysed in the awaiting body from the point where the result is
    # unpacked, starting in the state in which the coroutine returned it
    for k, (P, pbb, ready, NB) in common.ordinal_keys([("handed-over", h) for h in handovers]):
        st0 = exit_states.get(NB.key)
        if not st0:
            continue
        pba = BA.of(P)
        pdest = P.blocks[pbb]["term"]["dest"]["l"]
        roots, starts = [], {}
        for l, ty in enumerate(P.locals):
            if ty != LOCK:
                continue
            ds = [d for d in pba.defs.get(l, []) if d[0] == "stmt"]
            if len(ds) != 1 or ds[0][3]["k"] != "use" or op_place(ds[0][3]["op"]) is None or not op_place(ds[0][3]["op"])["p"]:
                continue
            if pdest in backward_direct(P, l, depth=40)[0]:
                roots.append(l)
                starts[ds[0][1]] = set(st0)
        if roots:
            c, _ = lock_typestate(ctx, "R9.1", P, k, roots=roots, pre=pre, starts=starts)
            n += c
    ctx.floor("R9.1", "Lock method call sites with an obligation", n, 12)
    # every body that calls an asserting Lock method was analysed
    for b in anchors.bodies_calling(prog, r"state::Lock::(unlock|try_lock|wait_lock|check)"):
        if b.key in internal:
            continue
        ctx.ob("R9.1", "coverage|%s" % b.key, b.key in analysed, where=b.span,
               detail="body calls asserting Lock methods and is covered by the typestate analysis" if b.key in analysed else
               "body calls asserting Lock methods but is not in the typestate table (new lock user: extend the table)")

    # ---- R9.2
    token_preconditions(ctx, "R9.2", include_release_mine=True)
    token_read_guard(ctx, "R9.2")
    surplus_released(ctx, "R9.2")

    # ---- R9.3 (over the scheduler and the coroutines it awaits in place: `parts`, see R9.1)
    ctx.floor("R9.3", "blocking wait_lock sites in the scheduler", sum(len(BA.of(B).calls(r"state::Lock::wait_lock")) for B, _ in parts), 1)
    # "drained": an await that polls the job-future stream to exhaustion (the stream and its pushes belong to S)
    drains = set(common.drain_ready_blocks(S))
    pushes = ba.calls(common.PUSH)
    for B, via in parts:
        pba = BA.of(B)
        waits = pba.calls(r"state::Lock::wait_lock")
        if not waits:
            continue
        cw = classify_waits(B, prog)
        loss_ready = [r for _, r in cw["loss"] if r is not None]
        gains = {r for _, r in cw["gain"] if r is not None}
        rms = set(pba.calls(r"jobserver::JobServerHandle::release_mine"))
        unlocks = set(pba.calls(r"state::Lock::unlock"))
        etoc = pba.calls(r"jobserver::JobServerHandle::ensure_token_or_cheat")
        # a coroutine awaited in place starts in whatever state its caller is in: holding a token, cycle check not
        # yet made; and what it returns to goes on to wait for tokens
        entry = [0] if via is not None else []
        after = (common.ok_returns(B) or pba.returns()) if via is not None else []
        for k, w in common.ordinal_keys([("wait_lock", w) for w in waits]):
            # (a) since the last push of a job future, a drain precedes the blocking wait
            tgt = w if via is None else via
            p = ba.path(pushes, [tgt], avoid=frozenset(drains)) if pushes else None
            if p is None and via is not None and pba.calls(common.PUSH):
                p = pba.path(pba.calls(common.PUSH), [w])
            ctx.ob("R9.3", "%s|%s|job-futures-drained" % (B.key, k), p is None, where=ctx.where(B, w),
                   detail=("wait_all only says the children exited; their job futures (which still own the targets' locks and have not recorded results) "
                           "need not have been polled: the blocking wait can be entered while holding those locks") if p else
                   "every path from a push to the blocking wait drains the job futures",
                   witness={"path": p[:25] if p else None})
            # (b) own token given up first: since the last token gain, release_mine precedes
            src = sorted(gains) + loss_ready + entry
            p = pba.path(src, [w], avoid=frozenset(rms), incl=True)
            # paths from wait_all resume hold no token by definition only if nothing regained it; require release_mine regardless
            ctx.ob("R9.3", "%s|%s|release_mine-first" % (B.key, k), p is None, where=ctx.where(B, w),
                   detail="release_mine precedes the blocking wait on every path" if p is None else "blocking wait entered while holding a job token",
                   witness={"path": p[:25] if p else None})
            # (c) the lock obtained is released before the next token wait
            nxt = B.blocks[w]["term"].get("target")
            p = pba.path([nxt], list(etoc) + list(after), avoid=frozenset(unlocks), incl=True) if nxt is not None else None
            ctx.ob("R9.3", "%s|%s|unlock-before-token-wait" % (B.key, k), p is None, where=ctx.where(B, w),
                   detail="the lock is unlocked before ensure_token_or_cheat" if p is None else "ensure_token_or_cheat can run while the lock from the blocking wait is held (deadlock with the holder of the tokens)",
                   witness={"path": p[:25] if p else None})
            chk = pba.calls(r"state::Lock::check")
            p = pba.path(loss_ready + entry, [w], avoid=frozenset(chk), incl=True)
            ctx.ob("R9.3", "%s|%s|cycle-check-first" % (B.key, k), p is None, where=ctx.where(B, w),
                   detail="Lock::check precedes the blocking wait" if p is None else "blocking wait without the cycle check")

    # ---- R9.4
    dedupe_rule(ctx, "R9.4")

    # ---- R9.5
    bo = anchors.event_loop(prog)
    bba = BA.of(bo)
    # the select() calls the loop can wait in (a zero-timeout readiness probe of one fd - try_read's, wherever its code
    # stands - cannot wait and is no wake-up)
    sel = blocking_selects(bo)
    polls = [i for i in bba.calls(r".*future::future::Future::poll")]
    hi = bba.switches_on_call(r"core::option::Option::is_none")
    ok = False
    for (sw, t_t, f_t, cbb) in hi:
        t = bo.blocks[cbb]["term"]
        src = bba.single_def(op_local(t["args"][0]))
        # is_none() of FdSet::highest()
        sl, org, _ = backward_direct(bo, op_local(t["args"][0]))
        if any(o[0] == "call" and call_matches(o[2], r"nix::sys::select::FdSet::highest") for o in org):
            if sel and all(bba.edge_dominates((sw, f_t), s) for s in sel):
                # on the empty side: either sleep for a timer or return an error
                errs = [i for i in bba.calls(r"error::RedoError::new")]
                sleeps = bba.calls(r"std::thread::functions::sleep|std::thread::sleep")
                r = bba.reach_incl([t_t], avoid=frozenset(errs) | frozenset(sleeps))
                ok = not (set(sel) & r) and not (set(polls) & r)
    ctx.ob("R9.5", "%s|no-select-on-nothing" % bo.key, ok, where=ctx.where(bo, sel[0]) if sel else bo.span,
           detail="select() is dominated by 'fd set not empty'; the empty side sleeps for the next timer or returns the deadlock error" if ok else
           "the event loop can block in select() with nothing to wait for")
    ok = len(polls) >= 1 and sel and all(any(bba.dominates(p, s) for p in polls) for s in sel)
    # loop: from select back to select passes a poll
    if ok:
        p = bba.path(sel, sel, avoid=frozenset(polls))
        ok = p is None
    ctx.ob("R9.5", "%s|root-polled-every-iteration" % bo.key, bool(ok), where=bo.span,
           detail="every iteration of the event loop polls the root future before waiting again" if ok else "the loop can wait twice without polling the root future")
    for key, reg in ((r"<jobserver::Job as core::future::future::Future>::poll", ("field", r"jobserver::JobState\.waker")),
                     (r"<jobserver::Sleep as core::future::future::Future>::poll", ("call", r"alloc::collections::vec_deque::VecDeque::insert")),
                     (r"<jobserver::EnsureToken<'_> as core::future::future::Future>::poll|<jobserver::EnsureToken as core::future::future::Future>::poll", ("call", r"alloc::collections::vec_deque::VecDeque::push_(front|back)"))):
        b = prog.one(key)
        pba = BA.of(b)
        pend = common.blocks_with_agg(b, r"core::task::poll::Poll", "Pending")
        if reg[0] == "field":
            regs = {bb for bb, _, _ in field_writes(b, reg[1])}
        else:
            regs = set(pba.calls(reg[1]))
        p = pba.path([0], pend, avoid=frozenset(regs), incl=True) if pend else [0]
        ctx.ob("R9.5", "%s|registers-wakeup-before-Pending" % b.key, bool(regs) and p is None, where=b.span,
               detail="Pending is returned only after a waker/timer was registered" if regs and p is None else "Pending can be returned without registering a wake-up: the future is never polled again")

    # ---- R9.7
    n97 = 0
    MUL = re.compile(r"<core::time::Duration as core::ops::arith::(MulAssign|Mul|AddAssign|Add)<.*>>::(mul_assign|mul|add_assign|add)")
    for b in sorted(prog.bodies.values(), key=lambda x: x.key):
        if not b.key.startswith(("builder::", "jobserver::")):
            continue
        bba = BA.of(b)
        for k, i in common.ordinal_keys([("Duration-arith", i) for i in bba.calls(MUL)]):
            t = b.blocks[i]["term"]
            nxt = t.get("target")
            in_loop = nxt is not None and bba.path([nxt], [i], incl=True) is not None
            if not in_loop:
                continue
            n97 += 1
            name = callee_paths(t)[0]
            inplace = name.endswith("_assign")
            if inplace:
                var = bba.base_local_of_ref(op_local(t["args"][0]))
            # every origin of the multiplied value is a constructor from a constant or a cmp::min result; the value
            # may be kept in a local or in a field of a state struct (both are followed through all their assignments)
            ALLOWED = r"core::cmp::min|core::time::Duration::from_(millis|secs|micros|nanos)|core::time::Duration::new|core::cmp::Ord::min|<core::time::Duration as core::cmp::Ord>::min"
            org = common.cell_origins(b, t["args"][0]) if not inplace else []
            ok = (not inplace) and bool(org) and all(o[0] == "const" or (o[0] == "call" and call_matches(o[2], ALLOWED)) for o in org)
            if inplace:
                # in-place growth: acceptable only if a clamp of the same variable lies on every way round the loop
                clamps = [d[1] for d in bba.defs.get(var, []) if d[0] == "call" and call_matches(d[2], r"core::cmp::min|core::cmp::Ord::min")]
                ok = bool(clamps) and bba.path([nxt], [i], avoid=frozenset(clamps), incl=True) is None
            ctx.ob("R9.7", "%s|%s|bounded" % (b.key, k), ok, where=ctx.where(b, i),
                   detail="the multiplied Duration is re-clamped with cmp::min on every way round the loop" if ok else
                   "a Duration is doubled on every iteration of a retry loop without a cap: after about 70 iterations (roughly a minute of waiting for a job token) `Duration * 2` overflows and panics, aborting a build whose scripts all succeed")
    ctx.floor("R9.7", "Duration arithmetic sites inside retry loops", n97, 2)

    # ---- R9.6 inventory
    fcl = {cl.key for _, _, cl in anchors.fork_closures(prog)}
    reach = ctx.cg.reachable([S.key, bo.key], stop=frozenset(fcl), indirect=False)
    inv = []
    for k in sorted(reach):
        b = prog.bodies.get(k)
        if b is None:
            continue
        for i in BA.of(b).all_calls():
            t = b.blocks[i]["term"]
            if any(PANICKY.fullmatch(p) for p in callee_paths(t)) and t.get("macro") not in ("debug_assert", "debug_assert_eq"):
                inv.append("%s @ %s: %s" % (k, b.line(i), common.short(callee_paths(t)[0])))
    ctx.ob("R9.6", "inventory", True, detail="%d potential panic sites in %d bodies under the scheduler/event loop (listed in notes)" % (len(inv), len(reach)), nontrivial=len(inv) > 0)
    ctx.note("R9.6 inventory (not judged): " + "; ".join(inv[:200]))
