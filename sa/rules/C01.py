"""C01 - No stale target after a successful redo-ifchange (necessary mechanism conditions)."""
import re

import anchors
from core import (BA, FA, call_matches, callee_paths, op_local, op_place, op_const, const_int, place_fields, rvalue_places,
                  field_writes, taint, closure_sites)
from rules import common, dirt
from rules.C06 import backward_direct

EXPLANATION = (
    "Static must-pass-through / value-flow rules on the MIR of the dirtiness routine, redo-ifchange, BuildJob::start, "
    "record_new_state and redo-unlocked: every path to the 'Clean' verdict consults every dirtiness reason (failed, "
    "never built, built later than parent, stamp mismatch, every recorded dependency with recursion for Modified and "
    "an existence test for Created); a non-clean dependency verdict never ends in the parent's Clean; redo-ifchange "
    "records its edges (for the same targets it then builds) and commits before building; a successful build records a "
    "fresh stamp and the run id; the out-of-band path re-evaluates the primary target; BuildJob::start dispatches only "
    "through the verdict. These are necessary conditions of 'exit 0 => nothing stale'; content equality with a "
    "from-scratch build over histories is NOT decided."
)
ASSUMPTIONS = ["sources are not edited while a run is in progress", "mtime/size/inode stamps change when content changes", "unwind edges excluded"]


def run(ctx):
    prog = ctx.prog
    ctx.rule("R1.1", "every path to the inspected Clean verdict passes every dirtiness reason")
    ctx.rule("R1.2", "a non-Clean verdict of a dependency never ends in the parent's Clean verdict")
    ctx.rule("R1.3", "redo-ifchange records a Modified edge for each target it is about to build, saves and commits before builder::run")
    ctx.rule("R1.4", "a successful build records a fresh stamp (update_stamp/read_stamp) and set_changed records the run id, followed by save")
    ctx.rule("R1.5", "redo-unlocked re-runs the decision for the primary target after building the uncertain dependencies")
    ctx.rule("R1.6", "BuildJob::start reaches start_self / start_deps_unlocked only through the callback verdict; Clean reaches neither")
    dirt.inspected_clean_reasons(ctx, "R1.1")
    from rules.C05 import failed_first
    failed_first(ctx, "R1.1")
    dirt.nonclean_propagates(ctx, "R1.2")
    ctx.rule("R1.7", "the per-run 'already checked' memo is consulted only after the failed / never-built / changed-later-than-parent tests")
    dirt.memo_placement(ctx, "R1.7")
    ctx.rule("R1.8", "REDO_UNLOCKED (under which redo-ifchange records no dependency edges) does not leak to the processes below the re-evaluated target")
    from rules.C06 import env_setters, env_set_value
    inh = prog.one(r"env::Env::inherit")
    iba = BA.of(inh)
    clears = [i for (b, i) in env_setters(prog, "REDO_UNLOCKED") if b.key == inh.key and env_set_value(b, i) == ""]
    # the Ok values inherit() itself returns (an Ok built by a Result-returning helper spliced into it feeds a `?`)
    oks = common.returned_ok_blocks(inh)
    p_ = iba.path([0], oks, avoid=frozenset(clears), incl=True) if oks else [0]
    ctx.ob("R1.8", "Env::inherit|REDO_UNLOCKED-not-inherited", bool(clears) and p_ is None, where=inh.span,
           detail="REDO_UNLOCKED is reset before every Ok return of Env::inherit" if clears and p_ is None else
           "REDO_UNLOCKED leaks below the re-evaluated target: every redo-ifchange inside its .do skips recording dependency edges, so the rebuilt target forgets its inputs")
    # and redo-ifchange's edge recording is skipped only for that flag / at top level
    I2 = _ifchange_driver(prog)
    i2 = BA.of(I2)
    f2a = FA.of(I2)
    sites2 = _add_dep_sites(prog, I2)
    adds2 = [x["bb"] for x in sites2]
    # the not-unlocked outcome of is_unlocked(): wherever the branch on that result sits (directly on the call, behind
    # `!`, or on a bool local that `a && !is_unlocked()` was stored in) - asked over feasible paths, so that the
    # `None` (no parent) value of the record does not "reach" the Some arm
    not_unl = []
    for c in i2.calls(r"env::Env::is_unlocked"):
        not_unl.extend(f2a.call_outcomes(c)[False])
    ok = bool(not_unl) and bool(adds2) and all(f2a.path([], [a], states=not_unl) is not None for a in adds2)
    ctx.ob("R1.8", "%s|edges-skipped-only-when-unlocked" % I2.key, ok, where=I2.span, detail="the add_dep loop is reached on the not-unlocked side of the is_unlocked() test")

    # ---- R1.3
    I = _ifchange_driver(prog)
    iba = BA.of(I)
    ifa = FA.of(I)
    runs = iba.calls(r"jobserver::JobServer::block_on")
    br = iba.calls(r"builder::run")
    sites = _add_dep_sites(prog, I)
    adds = [x["bb"] for x in sites]
    saves = iba.calls(r"state::File::save")
    commits = iba.calls(r"state::ProcessTransaction::commit")
    fn = iba.calls(r"state::File::from_name")
    # the Some(f) side: every path from from_name to builder::run passes save and commit; add_dep in the loop
    if ctx.ob("R1.3", "%s|anchors" % I.key, bool(fn and br and adds and saves and commits), where=I.span, detail="from_name(me), add_dep, save, commit and builder::run located"):
        somes = []
        for sw in sorted(iba.live):
            es = iba.enum_switch(sw)
            if es and "core::option::Option<state::File>" == I.locals[es[0]["l"]] and not es[0]["p"]:
                somes.append((sw, es[1].get(1)))
        # (a record obtained through a helper travels as Result<Option<File>>: the `?` in between is a switch on another
        # type; the parent-present edge is the Some arm of the switch on the Option<File> itself. Feasible paths:
        # an error return of a spliced-in helper does not continue into the caller's success path.)
        ok = bool([1 for sw, st in somes if st is not None])
        for sw, st in somes:
            if st is None:
                continue
            p1 = ifa.path([st], br, avoid=frozenset(saves), incl=True)
            p2 = ifa.path([st], br, avoid=frozenset(commits), incl=True)
            ok = ok and p1 is None and p2 is None and all(ifa.edge_dominates((sw, st), a) for a in adds)
        ctx.ob("R1.3", "%s|edges-saved-and-committed-before-build" % I.key, ok, where=ctx.where(I, br[0]),
               detail="when there is a parent target: add_dep loop, save and commit all precede builder::run" if ok else "the dependency edges are not committed before the dependencies are built")
        # mode and same targets
        site = sites[0]
        AB, abb = site["body"], site["call"]
        at = AB.blocks[abb]["term"]
        aba = BA.of(AB)
        mode = op_const(at["args"][2])
        if mode is None:
            dd = aba.single_def(op_local(at["args"][2]))
            if dd and dd[0] == "stmt" and dd[3]["k"] == "agg":
                mode = {"variant": dd[3].get("variant")}
        ctx.ob("R1.3", "%s|edge-mode-Modified" % I.key, (mode or {}).get("variant") == "Modified", where=ctx.where(AB, abb), detail="add_dep mode: %s" % (mode or {}).get("variant"))
        # the collection iterated for add_dep and the slice given to builder::run are the same object: both operands go
        # back, by direct steps, to the same root (a captured variable, a parameter, a local - e.g. a state struct) and
        # the same field path; the recorded item is an element read out of it (std-internal projections only on top)
        bt = I.blocks[br[0]]["term"]
        run_paths = common.operand_origin_paths(I, bt["args"][2])
        if site["kind"] == "direct":
            add_paths = common.operand_origin_paths(I, at["args"][3])
            from_item = True
        else:
            # add_dep sits in a closure handed to an iterator adaptor: the edge must name the closure's item, and the
            # iterator the adaptor runs over is what is traced back in the enclosing body
            csl, _, _ = backward_direct(AB, op_local(at["args"][3]), depth=60)
            from_item = any(l is not None and 2 <= l <= AB.arg_count for l in csl)
            add_paths = common.operand_origin_paths(I, I.blocks[site["bb"]]["term"]["args"][0])
        shared = sorted({(r1, f1) for (r1, f1) in run_paths for (r2, f2) in add_paths
                         if r1 == r2 and r1[0] in ("upvar", "param", "def") and tuple(f2[:len(f1)]) == tuple(f1)
                         and all(re.match(r"(core|alloc|std)::|tuple\.", x) for x in f2[len(f1):])}, key=str)
        ok = bool(shared) and from_item
        ctx.ob("R1.3", "%s|same-targets-recorded-and-built" % I.key, ok, where=ctx.where(I, adds[0]),
               detail="add_dep iterates the same `%s` that is passed to builder::run" % (shared[0],) if ok else "the recorded edges are not for the targets that get built (%s vs %s)" % (sorted(add_paths, key=str)[:3], sorted(run_paths, key=str)[:3]))

    # ---- R1.4
    R = anchors.record_new_state(prog)
    rba = BA.of(R)
    eqs = [(sw, eq_t, ne_t) for (sw, ne_t, eq_t, x) in common.cmp_const_switches(R, 0)]
    renames = rba.calls(r"std::fs::rename")
    succ_sw = [(sw, eq_t) for (sw, eq_t, ne_t) in eqs if renames and rba.edge_dominates((sw, eq_t), renames[0])]
    if ctx.ob("R1.4", "%s|success-region" % R.key, len(succ_sw) == 1, where=R.span, detail="the `rv == EXIT_SUCCESS` region containing the rename located"):
        sw, eq_t = succ_sw[0]
        # the final status test: the re-test of `rv` after the success region (a further test of `rv` *inside* the region,
        # e.g. `else if rv == EXIT_SUCCESS` guarding the removal of the target, is not it)
        final = [(s2, ne2) for (s2, ne2, eq2, x) in common.cmp_const_switches(R, 0)
                 if s2 != sw and rba.dominates(sw, s2) and not rba.edge_dominates((sw, eq_t), s2)]
        stamps = set(rba.calls(r"state::File::update_stamp")) | {bb for bb, _, _ in field_writes(R, r"state::File\.stamp")}
        goal = [s2 for s2, _ in final] or rba.returns()
        common.mpt(ctx, "R1.4", "%s|success=>fresh-stamp" % R.key, R, [eq_t], goal, stamps,
                   "on the success path the stamp is refreshed (update_stamp or read_stamp) before the final status test",
                   "a successful build can be recorded without a fresh stamp")
        saves = rba.calls(r"state::File::save")
        common.mpt(ctx, "R1.4", "%s|save-on-every-path" % R.key, R, [0], rba.returns(), saves, "save is on every path to return", "the record can be left unsaved")
    sc = prog.one(r"state::File::set_changed")
    w = field_writes(sc, r"state::File\.changed_runid")
    ok = any(common.reads_field(sc, s["rv"], "env::Env.runid") for _, _, s in w)
    ctx.ob("R1.4", "File::set_changed|changed_runid:=env.runid", ok, where=sc.span, detail="set_changed records the current run id" if ok else "set_changed does not record the run id")
    us = prog.one(r"state::File::update_stamp")
    uba = BA.of(us)
    ok = bool(uba.calls(r"state::File::read_stamp")) and bool(uba.calls(r"state::File::set_changed")) and bool(field_writes(us, r"state::File\.stamp"))
    ctx.ob("R1.4", "File::update_stamp|reads-stamp-sets-changed", ok, where=us.span, detail="update_stamp: read_stamp, store, set_changed on difference")

    # ---- R1.5
    primary_target_rule(ctx, "R1.5")

    # ---- R1.6
    J = anchors.job_start(prog)
    jba = BA.of(J)
    ss = anchors.start_self(prog)
    disp = jba.calls(re.escape(ss.key) + r"|builder::BuildJob::start_deps_unlocked")
    dv = {v["name"]: v["discr"] for v in prog.adts["deps::Dirtiness"]["variants"]}
    vsw = []
    for sw in sorted(jba.live):
        es = jba.enum_switch(sw)
        if es and J.locals[es[0]["l"]] == "deps::Dirtiness":
            vsw.append((sw, es[1], es[2]))
    if ctx.ob("R1.6", "%s|verdict-switch" % J.key, len(vsw) == 1, where=J.span, detail="%d switches on the verdict" % len(vsw)):
        sw, arms, other = vsw[0]
        ok = all(jba.dominates(sw, x) for x in disp) and bool(disp)
        ctx.ob("R1.6", "%s|dispatch-only-through-verdict" % J.key, ok, where=ctx.where(J, sw), detail="start_self / start_deps_unlocked are dominated by the verdict switch")
        ct = arms.get(dv["Clean"])
        common.not_reach_fl(ctx, "R1.6", "%s|Clean-starts-nothing" % J.key, J, [ct] if ct is not None else [0], disp,
                         "the Clean arm reaches neither start_self nor start_deps_unlocked", "a Clean verdict still starts a build")
        dt = arms.get(dv["Dirty"])
        # (feasible paths: the arms may compute a value - `None` = build here, `Some(targets)` = delegate - that a second
        # match dispatches on; an arm's value decides which side of that match it takes)
        common.mpt_fl(ctx, "R1.6", "%s|Dirty-builds" % J.key, J, [dt] if dt is not None else [], jba.returns(), jba.calls(re.escape(ss.key)),
                   "the Dirty arm always goes to start_self", "a Dirty verdict can return without building")
        nt = arms.get(dv["NeedTargets"])
        common.mpt_fl(ctx, "R1.6", "%s|NeedTargets-builds-or-delegates" % J.key, J, [nt] if nt is not None else [], common.ok_returns(J) + [x for x in jba.returns()], disp,
                   "the NeedTargets arm goes to start_deps_unlocked or (no_oob) start_self", "an uncertain verdict can return without building or delegating")


def primary_target_rule(ctx, rid):
    """R1.5 = R3.5: in redo-unlocked, the Command that gets REDO_UNLOCKED is given the primary target (args.nth(1))
    and nothing derived from the remaining-arguments collection.

    Local generalisation of rules.C06.primary_target_rule (which counts the textual `Command::env(REDO_UNLOCKED)`
    sites of the body): stated per *feasible* site (core.FAx). When the two phases share one helper
    `run_ifchange(targets, lock_owner)` that canon spliced in at both call sites, each copy contains the
    `if lock_owner == Caller { cmd.env(REDO_UNLOCKED, ..) }` call, but only the copy whose constant says so can execute
    it; the copy for the dependency phase is not a site."""
    from core import FAx
    from rules.C06 import env_setters, env_set_value
    prog = ctx.prog
    U = prog.one(r"@bin::unlocked::run")
    ba = BA.of(U)
    ufa = FAx.of(U)
    setters = [i for b, i in env_setters(prog, "REDO_UNLOCKED") if b.key == U.key and env_set_value(b, i) != "" and i in ufa.live]
    if not ctx.ob(rid, "unlocked::run|sets-REDO_UNLOCKED", len(setters) >= 1, where=U.span, detail="%d reachable Command::env(REDO_UNLOCKED) sites" % len(setters)):
        return
    nth = [i for i in ba.calls(r"core::iter::traits::iterator::Iterator::nth")]
    collect = [i for i in ba.calls(r"core::iter::traits::iterator::Iterator::collect")]
    found = []
    for env_bb in setters:
        # the Command value: the latest Command::new before the env call, and the arg(s) calls of that same builder
        cmd_new = None
        for n in ba.calls(r"std::process::Command::new"):
            if ufa.dominates(n, env_bb):
                if cmd_new is None or ufa.dominates(cmd_new, n):
                    cmd_new = n
        args_calls = [] if cmd_new is None else [
            i for i in ba.calls(r"std::process::Command::args?") if i in ufa.live and ufa.dominates(cmd_new, i) and (ufa.dominates(i, env_bb) or ufa.dominates(env_bb, i))
            and not any(ufa.dominates(cmd_new, m) and ufa.dominates(m, i) and m != cmd_new for m in ba.calls(r"std::process::Command::new"))]
        found.append((env_bb, args_calls))
    if not ctx.ob(rid, "unlocked::run|anchors", all(bool(a) for _, a in found) and len(nth) == 1 and len(collect) == 1, where=ctx.where(U, setters[0]),
                  detail="Command::arg(s) for the unlocked phase, args.nth(1) and the collected remaining args located"):
        return
    prim = taint(U, seeds={U.blocks[nth[0]]["term"]["dest"]["l"]}, mode="derived")
    rest = taint(U, seeds={U.blocks[collect[0]]["term"]["dest"]["l"]}, mode="derived")
    for k, i in common.ordinal_keys([("Command::arg", i) for _, a in found for i in a]):
        t = U.blocks[i]["term"]
        a = op_local(t["args"][1])
        from_prim = a in prim
        from_rest = a in rest
        ctx.ob(rid, "unlocked::run|unlocked-phase-argument|%s" % k, from_prim and not from_rest, where=ctx.where(U, i),
               detail="the redo-ifchange run with REDO_UNLOCKED is given %s" % (
                   "the primary target" if from_prim and not from_rest else
                   "the dependency list again instead of the primary target: the primary target is never re-evaluated, and the dependencies are built with a forced, unheld lock"))


def _ifchange_driver(prog):
    """redo-ifchange's driver, as a role: the bin-unit body that hands redo-ifchange's own verdict callback
    (anchors.ifchange_verdict: the body that asks deps::is_dirty with the persisting default callbacks) to builder::run.
    Today a closure inside ifchange::run; equally the command's `run` itself or a method of a state struct."""
    from facts import strip_generics
    dec = anchors.ifchange_verdict(prog).key
    out = []
    for b in prog.bodies.values():
        if b.unit != "bin":
            continue
        for i in BA.of(b).calls(r"builder::run"):
            ks = [strip_generics(g.get("fn") or g.get("closure") or "") for g in b.blocks[i]["term"].get("gargs", [])]
            if dec in ks:
                out.append(b)
                break
    return anchors.the(sorted(out, key=lambda b: b.key), "bin-unit body that calls builder::run with redo-ifchange's verdict callback")


def _upvars_read(body, l):
    """Names of closure upvars read by the definitions of local l."""
    from core import upvar_index
    ba = BA.of(body)
    out = set()
    for d in ba.defs.get(l, []):
        if d[0] == "stmt":
            for p in rvalue_places(d[3]):
                u = upvar_index(p)
                if u:
                    out.add(u[1])
        elif d[0] == "call":
            for a in d[2]["args"]:
                p = op_place(a)
                if p:
                    u = upvar_index(p)
                    if u:
                        out.add(u[1])
    return out


def _add_dep_sites(prog, body):
    """Where `body` records dependency edges: [{bb, kind, body, call}] - a direct `File::add_dep` call (kind
    'direct': bb == call, in `body`), or a call that is handed a closure built in `body` on all of whose paths
    add_dep is called (`iter.try_for_each(|t| f.add_dep(..))`; kind 'closure': bb is the adaptor call in `body`,
    `call` the add_dep block inside the closure `body`)."""
    from facts import strip_generics
    ba = BA.of(body)
    out = [{"bb": a, "kind": "direct", "body": body, "call": a} for a in ba.calls(r"state::File::add_dep")]
    for i in ba.all_calls():
        t = body.blocks[i]["term"]
        for g in t.get("gargs", []):
            ck = strip_generics(g["closure"]) if "closure" in g else None
            cb = prog.bodies.get(ck) if ck else None
            if cb is None:
                continue
            # the closure object is built in this body (possibly in a spliced-in helper) and is an argument of this call
            handed = False
            for (bb, j, dest, k, ops) in closure_sites(body, ck):
                for a in t["args"]:
                    al = op_local(a)
                    if al is not None and (al == dest or dest in ba.ref_chain(al)):
                        handed = True
            cba = BA.of(cb)
            inner = cba.calls(r"state::File::add_dep")
            if handed and inner and cba.path([0], cba.returns(), avoid=frozenset(inner), incl=True) is None:
                out.append({"bb": i, "kind": "closure", "body": cb, "call": inner[0]})
    return sorted(out, key=lambda x: x["bb"])
