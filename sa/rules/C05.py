"""C05 - Failures propagate, are remembered as dirty, and are retried next run."""
import re

import anchors
from core import (BA, call_matches, callee_paths, op_local, op_place, op_const, const_int, const_str, taint,
                  place_fields, rvalue_places, field_writes, field_reads)
from facts import strip_generics
from rules import common
from rules.C06 import backward_direct

EXPLANATION = (
    "Static rules on the failure path: the exit-code map is total and non-zero; both job-wrapper coroutines turn a "
    "non-zero job status into a stored Err and the scheduler's value is that stored result; record_new_state marks the "
    "target failed on every non-zero path; the dirtiness routine returns Dirty first for a failed target; "
    "redo-ifchange refuses an already-failed target with exit 32 and the locked-queue pass with exit 2; the "
    "stop-or-continue test (error seen and not --keep-going) lies on every path from a wait to the next job start; "
    "no return from the scheduler while jobs are outstanding; the dirtiness callback's exit-status error becomes the "
    "job's result. Decides these per-path mechanism rules on MIR; does NOT decide which targets get built under -k "
    "as a function of graph position, nor the multi-run history statement itself."
)
ASSUMPTIONS = ["unwind (panic) edges excluded", "process exit status is what main passes to process::exit"]

START = None


def run(ctx):
    prog = ctx.prog
    S = anchors.scheduler(prog)
    ba = BA.of(S)
    start_key = anchors.job_start(prog).key

    ctx.rule("R5.1", "exit-code map: every error kind maps to a non-zero constant, immediate_exit codes are non-zero, main yields 0 only on Ok")
    ctx.rule("R5.2", "each job-wrapper coroutine stores Err in the shared result when the job status is non-zero; the scheduler returns that result; nothing overwrites it with Ok")
    ctx.rule("R5.3", "record_new_state: rv != 0 => set_failed (which records the run id) before save; failed_runid => Dirty first in the dirtiness routine")
    ctx.rule("R5.4", "already-failed targets are refused: should_build => ImmediateExit(EXIT_TARGET_FAILED) before is_dirty; locked-queue pass => FailedInAnotherThread and no BuildJob")
    ctx.rule("R5.5", "per iteration: every path from a wait to the next BuildJob::start passes the error test; its (errored and not keep_going) side starts nothing more")
    ctx.rule("R5.6", "no abandonment: no return from the scheduler between a push of a job future and the drain")
    ctx.rule("R5.7", "an exit-status error from the dirtiness callback becomes that job's result instead of aborting the scheduler")

    # ---- R5.1
    ec = prog.one(r"error::RedoErrorKind::exit_code")
    consts = common.ret_const_assigns(ec)
    ctx.floor("R5.1", "constant arms of exit_code", len(consts), 4)
    for k, (bb, c) in common.ordinal_keys([(c.get("named", "const"), (bb, c)) for bb, c in consts]):
        ctx.ob("R5.1", "exit_code|%s" % k, c.get("int", 0) != 0, where=ctx.where(ec, bb), detail="arm returns %s" % c.get("int"))
    n = 0
    for b in prog.bodies.values():
        bba = BA.of(b)
        for i in bba.calls(r"error::RedoError::immediate_exit"):
            t = b.blocks[i]["term"]
            v = const_int(t["args"][0])
            n += 1
            ctx.ob("R5.1", "immediate_exit|%s" % b.key, v is not None and v != 0, where=ctx.where(b, i),
                   detail="immediate_exit(%s)" % (v if v is not None else "non-constant"))
    ctx.floor("R5.1", "immediate_exit call sites", n, 2)
    main = prog.one(r"@bin::main")
    mba = BA.of(main)
    exits = mba.calls(r"std::process::exit")
    if ctx.ob("R5.1", "main|exit-call", len(exits) == 1, where=main.span, detail="%d process::exit calls in main" % len(exits)):
        sl, origins, arith = backward_direct(main, op_local(main.blocks[exits[0]]["term"]["args"][0]))
        zero_blocks = []
        for l in sl:
            for d in mba.defs.get(l, []):
                if d[0] == "stmt" and d[3]["k"] == "use" and const_int(d[3]["op"]) == 0:
                    zero_blocks.append(d[1])
        # each zero assignment is dominated by the Ok arm (discriminant 0) of a switch on a Result
        ok = bool(zero_blocks)
        for zb in zero_blocks:
            dom_ok = False
            for sw in sorted(mba.live):
                es = mba.enum_switch(sw)
                if not es:
                    continue
                place, arms, other = es
                if "Result<(), anyhow::Error>" not in main.locals[place["l"]]:
                    continue
                tg = arms.get(0, other if 0 not in arms else None)
                if tg is not None and mba.edge_dominates((sw, tg), zb) and tg != arms.get(1):
                    dom_ok = True
            ok = ok and dom_ok
        calls_ec = any(o[0] == "call" and call_matches(o[2], r"error::RedoErrorKind::exit_code") for o in origins)
        ctx.ob("R5.1", "main|zero-only-on-Ok", ok and calls_ec, where=ctx.where(main, exits[0]),
               detail="exit status is 0 only under the Ok arm, otherwise RedoErrorKind::exit_code()" if ok and calls_ec else "exit status 0 reachable outside the Ok arm or exit_code() unused")

    # ---- R5.2
    # The *shared result* is the cell through which a finished job reports failure to the scheduler. It is known by
    # what it is - a `Cell` whose content can carry a RedoError, written by the job wrappers, read by the scheduling
    # passes, taken by the stream owner - not by its representation: `Cell<Result<(), RedoError>>` (failure = Err) and
    # `Cell<Option<RedoError>>` (failure = Some) are the same mechanism, and so are set / replace / take on it whether
    # written in place or inside small methods of a state struct (spliced in by canon).
    pushes = ba.calls(common.PUSH)
    wrappers = []
    for pb in pushes:
        # closure constructed in the pushing region: coroutine aggregates whose value flows to push arg
        sl, origins, _ = backward_direct(S, op_local(S.blocks[pb]["term"]["args"][1]))
        for o in origins:
            if o[0] == "agg" and o[2].get("agg") in ("coroutine", "closure"):
                wrappers.append((pb, prog.bodies[strip_generics(o[2]["def"])]))
    ctx.floor("R5.2", "job-wrapper coroutines pushed on the job-future stream", len(wrappers), 2)
    O = anchors.stream_owner(prog)
    oba = BA.of(O)
    SR = SharedResult([S, O] + [w for (_, w) in wrappers])
    ctx.ob("R5.2", "shared-result-cell", SR.known(), where=S.span,
           detail="the shared result is a Cell<%s>; a failure is its %s variant" % (SR.elem, SR.fail) if SR.known() else
           "no single Cell that can carry a RedoError is shared by the job wrappers and the scheduler (found: %s)" % sorted(SR.elems))
    for k, (pb, w) in common.ordinal_keys([("wrapper", x) for x in wrappers]):
        wba = BA.of(w)
        aw = wba.awaits()
        # the edges on which the awaited job status is known to be zero: everything else is the non-zero side
        ok = False
        det = "no `status != 0` test after the await"
        for (sw, ne_t, eq_t, x) in common.cmp_const_switches(w, 0):
            if not aw or aw[0][2] is None or not wba.dominates(aw[0][2], sw):
                continue
            sets = [i for i in SR.ops(w, "set") if SR.stores(w, i) == "fail"]
            p = wba.path([ne_t], wba.returns(), avoid=frozenset(sets), incl=True)
            ok = bool(sets) and p is None
            det = "non-zero side stores a failure in the shared result on every path" if ok else "a non-zero job status can complete the wrapper without storing a failure"
        ctx.ob("R5.2", "%s|%s|nonzero-stores-Err" % (S.key, k), ok, where=w.span, detail=det)
    # final value of the scheduler derives from the shared result cell: the value O returns (as a whole, or the error it
    # wraps in Err) is what a read of the cell yielded, and every such read comes after the drain
    rets = set()
    for pend in ((), (("Err", "0"),)):
        for kind, bb, t_ in common.value_origins(O, 0, pend=pend):
            if kind in ("call", "callpay") and bb in SR.ops(O, "replace|take"):
                rets.add(bb)
    rets = sorted(rets)
    ctx.ob("R5.2", "%s|returns-shared-result" % O.key, len(rets) >= 1 and all(oba.dominates(d, r) for r in rets for d in common.drain_ready_blocks(O)),
           where=ctx.where(O, rets[0]) if rets else O.span, detail="the scheduler's value is the shared result taken after the drain" if rets else "the scheduler does not return the shared result")
    # an error of the passes themselves is not swallowed: every other return of the owner after the passes is an Err/`?`
    if O.key != S.key:
        aw = [r for (p_, y, r, c) in oba.awaits() if c == S.key and r is not None]
        sl = set()
        tsites = [(br, brk, cont, src) for (br, brk, cont, src) in oba.try_sites() if aw and any(oba.dominates(a, br) for a in aw)]
        # the value of the passes is examined with `?` after the drain
        ok = False
        for (br, brk, cont, src) in tsites:
            t = O.blocks[br]["term"]
            bl, org, _ = backward_direct(O, op_local(t["args"][0]), depth=80)
            if any(o[0] == "call" and any(p.endswith("future::future::Future::poll") or p == S.key for p in callee_paths(o[2])) for o in org):
                ok = all(oba.dominates(d, br) for d in common.drain_ready_blocks(O))
        ctx.ob("R5.2", "%s|passes-error-propagated-after-drain" % O.key, ok, where=O.span,
               detail="the result of the scheduling passes is propagated with `?` after the drain" if ok else "an error of the scheduling passes is dropped or returned before the drain")
    # nothing the scheduling passes store erases a recorded failure: each store is a failure or puts back what was just read
    for k, i in common.ordinal_keys([("Cell::set", i) for i in SR.ops(S, "set")]):
        what = SR.stores(S, i)
        ctx.ob("R5.2", "%s|%s|not-Ok" % (S.key, k), what in ("fail", "putback"), where=ctx.where(S, i),
               detail="stores a failure or puts back the value just read" if what in ("fail", "putback") else "stores a success (or an unknown value) into the shared result, erasing a recorded failure")

    # ---- R5.3
    R = anchors.record_new_state(prog)
    rba = BA.of(R)
    ne_sw = [(sw, ne_t, eq_t, x) for (sw, ne_t, eq_t, x) in common.cmp_const_switches(R, 0)]
    fails = rba.calls(r"state::File::set_failed")
    saves = rba.calls(r"state::File::save")
    # the *last* rv != 0 test: the one from which save is reached without another rv test
    ok53 = False
    for (sw, ne_t, eq_t, x) in ne_sw:
        if not fails or not all(rba.edge_dominates((sw, ne_t), f) for f in fails):
            continue
        p = rba.path([ne_t], saves, avoid=frozenset(fails), incl=True)
        if p is None and saves:
            ok53 = True
    ctx.ob("R5.3", "%s|nonzero=>set_failed-before-save" % R.key, ok53, where=R.span,
           detail="on the rv != EXIT_SUCCESS side set_failed precedes save on every path" if ok53 else "a non-zero status can be saved without set_failed")
    sf = prog.one(r"state::File::set_failed")
    w = field_writes(sf, r"state::File\.failed_runid")
    okw = False
    for (bb, j, s) in w:
        if common.reads_field(sf, s["rv"], "env::Env.runid"):
            okw = True
    ctx.ob("R5.3", "set_failed|writes-failed_runid:=env.runid", okw, where=sf.span, detail="failed_runid := env.runid" if okw else "set_failed does not record the current run id")
    # ---- R5.16 (seed C05-7): the run recorded is always *this* run
    ctx.rule("R5.16", "set_failed records the current run id unconditionally and unmixed: every path to its Ok return assigns failed_runid, and the assigned value is env.runid itself (not a value chosen between it and what the record held): File::is_failed (failed_runid >= current run) is what stops a second execution in the same run")
    sba_ = BA.of(sf)
    wb = sorted({bb for (bb, j, s) in w})
    oks = common.returned_ok_blocks(sf) or sba_.returns()
    pth = sba_.path([0], oks, avoid=frozenset(wb), incl=True) if wb else [0]
    ctx.ob("R5.16", "set_failed|failed_runid-assigned-on-every-path", bool(wb) and pth is None, where=sf.span,
           detail="every Ok return of set_failed lies behind the assignment" if wb and pth is None else "set_failed can return Ok without recording the run", witness=pth)

    def _pure_runid(rv, depth=0):
        pls = rvalue_places(rv)
        if rv["k"] not in ("use", "cast") or not pls:
            return False
        for p_ in pls:
            if "env::Env.runid" in place_fields(p_):
                continue
            if p_["p"] or depth > 5:
                return False
            dfs = sba_.defs.get(p_["l"], [])
            if not dfs or not all(d[0] == "stmt" and _pure_runid(d[3], depth + 1) for d in dfs):
                return False
        return True
    for n, (bb, j, s_) in enumerate(w):
        ok = _pure_runid(s_["rv"])
        ctx.ob("R5.16", "set_failed|write#%d|value-is-env.runid-itself" % n, ok, where=ctx.where(sf, bb),
               detail="failed_runid := env.runid" if ok else
               "the recorded run is computed from something else than env.runid (e.g. an earlier failure is kept): a target that fails in two runs in a row is no longer `already failed in this run` and is executed once per requester")
    failed_first(ctx, "R5.3")

    # ---- R5.4
    sb = anchors.ifchange_verdict(prog)
    sba = BA.of(sb)
    isf = sba.switches_on_call(r"state::File::is_failed")
    isd = sba.calls(r"deps::is_dirty")
    ok = False
    if isf and isd:
        sw, t_t, f_t, cbb = isf[0]
        ie = [i for i in sba.calls(r"error::RedoError::immediate_exit") if const_int(sb.blocks[i]["term"]["args"][0]) == 32]
        p = sba.path([t_t], sba.returns(), avoid=frozenset(ie), incl=True)
        reaches_dirty = set(isd) & sba.reach_incl([t_t])
        ok = bool(ie) and p is None and not reaches_dirty and all(sba.dominates(sw, d) for d in isd)
    ctx.ob("R5.4", "should_build|failed=>exit32-before-is_dirty", ok, where=sb.span,
           detail="is_failed() true side returns immediate_exit(EXIT_TARGET_FAILED) and never reaches is_dirty" if ok else "already-failed target is not refused")
    isfb = prog.one(r"state::File::is_failed")
    ge = [st for blk in isfb.blocks for st in blk["stmts"] if st["s"] == "assign" and st["rv"]["k"] == "binop" and st["rv"]["op"] == "Ge"]
    okf = False
    for st in ge:
        # failed_runid >= current run id (both come out of the matched tuple (self.failed_runid, v.runid))
        okf = True
    reads = bool(__import__("core").field_reads(isfb, re.compile(r"state::File\.failed_runid"))) and bool(__import__("core").field_reads(isfb, re.compile(r"env::Env\.runid")))
    ctx.ob("R5.4", "File::is_failed|failed_runid>=env.runid", okf and reads, where=isfb.span,
           detail="is_failed: failed_runid != 0 && failed_runid >= current run id" if okf and reads else "is_failed does not recognise a failure recorded in the current run (comparison is not >=)")
    isf2 = ba.switches_on_call(r"state::File::is_failed")
    ctx.floor("R5.4", "is_failed tests in the scheduler", len(isf2), 1)
    for k, (sw, t_t, f_t, cbb) in common.ordinal_keys([("is_failed", x) for x in isf2]):
        sites = [bb for bb, _, _ in anchors.agg_sites(S, r"builder::BuildJob")]
        starts = ba.calls(re.escape(start_key))
        # failed side: sets FailedInAnotherThread, builds nothing until the next loop iteration (next pop_front)
        pops = set(ba.calls(r"alloc::collections::vec_deque::VecDeque::pop_front"))
        side = ba.reach_incl([t_t], avoid=frozenset(pops))
        fia = [i for i in side if common.agg_in_block(S, i, r"error::RedoErrorKind", "FailedInAnotherThread")]
        ok = bool(fia) and not (side & set(sites)) and not (side & set(starts))
        ctx.ob("R5.4", "%s|%s|failed-elsewhere=>no-job" % (S.key, k), ok, where=ctx.where(S, sw),
               detail="failed side records FailedInAnotherThread and starts no job" if ok else "a target that failed in another process is started again or not reported")

    # ---- R5.5
    # A *wait* is an await of the scheduling passes during which finished jobs can record their results: the awaited
    # future is derived from the job-future stream (today `wait_for(fg, job_futures.as_mut())` and the
    # `job_futures.for_each(..)` flush; equally a `select!` over `job_futures.next()` written in place). The stream is
    # identified as the receiver of the pushes, the awaits by value flow: no callee name, no count of call sites.
    stream_roots = set()
    for pb in pushes:
        stream_roots |= common.operand_origin_paths(S, S.blocks[pb]["term"]["args"][0])
    s_up = {r[1] for (r, f) in stream_roots if r[0] == "upvar"}
    s_loc = {r[1] for (r, f) in stream_roots if r[0] != "upvar"}
    from core import upvar_index
    stream_t = taint(S, seeds=s_loc, src_place=lambda p: (upvar_index(p) or (None, None))[0] in s_up, mode="derived") if stream_roots else set()
    polls_stream = common.in_set(S, stream_t)
    waits = [(p, y, r, c) for (p, y, r, c) in ba.awaits() if polls_stream(op_local(S.blocks[p]["term"]["args"][0]))]
    ctx.floor("R5.5", "awaits in the scheduling passes that poll the job-future stream", len(waits), 2)
    starts = ba.calls(re.escape(start_key))
    # An *error test* observes whether the shared result currently holds a failure: a variant test (is_err / is_ok /
    # is_some / is_none) applied to what a read of the cell (replace / take) just yielded. errored[bb] = the outcome
    # of the test call in block bb that means "a failure is recorded".
    errored = SR.variant_tests(S)
    errtests = set(errored)
    # The stop-or-continue decision: a branch edge that is taken only when (a failure is recorded) and (env.keep_going is
    # false) - whatever the order of the two tests, whether they are two nested `if`s, one `if a && !b`, a bool
    # computed first (`let stop = ..`), or a `fn must_stop(&self) -> bool` of a scheduler struct spliced in place
    # (common.BoolFacts). The *head* of a decision is the first switch its outcome rests on.
    bf = common.BoolFacts(S)
    is_kg = keep_going_reads(prog, S)
    decisions = []
    for sw in bf.switches():
        for tg in bf.targets(sw):
            f = bf.edge_facts(sw, tg) if tg is not None else None
            if not f:
                continue
            e_at = [a for a, (pol, pr) in f.items() if a[0] == "call" and a[1] in errored and errored[a[1]] == pol]
            k_at = [a for a, (pol, pr) in f.items() if a[0] == "place" and pol is False and is_kg(a[1], a[2])]
            if not e_at or not k_at:
                continue
            pre = bf.block_facts(sw)
            if any(a in pre for a in e_at) and any(a in pre for a in k_at):
                continue            # already decided before this switch: not the deciding edge
            prov = set([sw])
            for a in e_at + k_at:
                prov |= f[a][1]
            heads_ = [h for h in prov if not any(h2 != h and ba.dominates(h2, h) for h2 in prov)]
            decisions.append((tuple(sorted(heads_)), sw, tg))
    decisions.sort(key=lambda d: (d[1], d[2]))
    heads = frozenset(h for (hs, _, _) in decisions for h in hs)
    for k, (pbb, y, ready, c) in common.ordinal_keys([("wait_for", x) for x in waits]):
        p = ba.path([ready], starts, avoid=frozenset(errtests), incl=True) if ready is not None else [0]
        ctx.ob("R5.5", "%s|%s|error-test-before-start" % (S.key, k), p is None and bool(errtests), where=ctx.where(S, pbb),
               detail="every path from this wait to a job start re-reads the shared result" if p is None and errtests else "a job can be started after this wait without looking at the shared result",
               witness={"path": p[:15] if p else None})
        # (replaces the former floor of two keep_going tests: what is necessary is not their number but that each
        # wait is followed by one before anything more is started)
        p = ba.path([ready], starts, avoid=heads, incl=True) if ready is not None else [0]
        ctx.ob("R5.5", "%s|%s|stop-or-continue-decision-before-start" % (S.key, k), p is None and bool(heads), where=ctx.where(S, pbb),
               detail="every path from this wait to a job start passes the (errored and not keep_going) decision" if p is None and heads else
               "after this wait jobs are started without the (errored and not keep_going) decision: a failure no longer stops the run without --keep-going",
               witness={"path": p[:15] if p else None})
    ctx.floor("R5.5", "stop-or-continue decisions (failure recorded and not env.keep_going) in the scheduler", len(decisions), 1)
    for k, (hs, sw, stop_t) in common.ordinal_keys([("keep_going", x) for x in decisions]):
        # the stop edge (errored and keep_going == false): no start reachable before another error test
        p = ba.path([stop_t], starts, avoid=frozenset(errtests), incl=True)
        ctx.ob("R5.5", "%s|%s|stop-side-starts-nothing" % (S.key, k), p is None, where=ctx.where(S, sw),
               detail="errored and not keep_going: no further job start without a new error test" if p is None else "jobs are started after a failure without --keep-going",
               witness={"path": p[:15] if p else None})

    # ---- R5.6
    common.no_abandonment(ctx, "R5.6", S)

    # ---- R5.7
    callback_error_rule(ctx, "R5.7")


def failed_first(ctx, rid):
    """In the dirtiness routine: a recorded failure yields Dirty before anything else is consulted."""
    prog = ctx.prog
    D = anchors.dirtiness(prog)
    dba = BA.of(D)
    # switch on discriminant of f.failed_runid (Option): Some => return Dirty
    found = False
    okk = False
    for sw in sorted(dba.live):
        t = D.blocks[sw]["term"]
        if t["t"] != "switch":
            continue
        neg, kind, info = dba.trace_cond(t["discr"])
        src_field = None
        if kind == "call" and call_matches(info[1], r"core::option::Option::is_some|core::option::Option::is_none"):
            a0 = info[1]["args"][0]
            pl = dba.resolve_ref(op_local(a0))
            if pl and place_fields(pl)[-1:] == ["state::File.failed_runid"]:
                src_field = info
        if src_field is None:
            continue
        found = True
        bs = dba.bool_switch(sw)
        t_t, f_t = bs[0], bs[1]
        if call_matches(info[1], r"core::option::Option::is_none"):
            t_t, f_t = f_t, t_t
        # on the Some side every path to return assigns Dirtiness::Dirty to the result
        dirty_blocks = common.blocks_with_agg(D, r"deps::Dirtiness", "Dirty")
        p = dba.path([t_t], dba.returns(), avoid=frozenset(dirty_blocks), incl=True)
        # and it comes before the stamp / deps inspection
        later = dba.calls(r"state::File::read_stamp|state::File::deps")
        first = all(dba.dominates(sw, x) for x in later)
        okk = p is None and first
    ctx.ob(rid, "%s|failed_runid=>Dirty-first" % D.key, found and okk, where=D.span,
           detail="failed_runid.is_some() returns Dirty before stamps and dependencies are inspected" if found and okk else "a recorded failure does not force Dirty first")


def keep_going_reads(prog, S):
    """Predicate (bb, stmt_idx) -> bool: does that statement of S read the value of `env.keep_going`? The place read
    is a direct copy of a place ending in that field, read in S itself or, when the read was hoisted out of the
    passes, in the enclosing body that constructs S and captures the local."""
    FIELD = "env::Env.keep_going"
    parent = prog.bodies.get(strip_generics(S.parent or "")) if S.parent else None
    cap = common.captured_from(parent, S.key) if parent is not None else {}

    def is_kg_place(place):
        for (root, fields) in common.operand_origin_paths(S, {"copy": place}):
            if fields[-1:] == (FIELD,):
                return True
            if root[0] == "upvar" and not fields and parent is not None:
                for l in cap.get(root[1], ()):
                    if any(f2[-1:] == (FIELD,) for (_, f2) in common.origin_paths(parent, l)):
                        return True
        return False

    def is_kg(bb, idx):
        st = S.blocks[bb]["stmts"][idx]
        if st["s"] != "assign" or st["rv"]["k"] != "use":
            return False
        pl = op_place(st["rv"]["op"])
        return pl is not None and is_kg_place(pl)
    return is_kg


def _generic_args(ty):
    """Top-level generic arguments of `Path<A, B<..>, C>` -> ['A', 'B<..>', 'C'] ([] if none)."""
    i = ty.find("<")
    if i < 0 or not ty.endswith(">"):
        return []
    out, depth, cur = [], 0, ""
    for ch in ty[i + 1:-1]:
        if ch in "<([":
            depth += 1
        elif ch in ">)]":
            depth -= 1
        if ch == "," and depth == 0:
            out.append(cur.strip())
            cur = ""
        else:
            cur += ch
    if cur.strip():
        out.append(cur.strip())
    return out


class SharedResult:
    """The shared failure cell of the scheduler (see R5.2), over a set of bodies: its content type, which variant of it
    means `a failure is recorded`, the operations on it, what a store stores, where its content is tested."""
    ERR = "error::RedoError"
    VARIANT_TESTS = {"core::result::Result": {"is_err": "Err", "is_ok": "Ok"}, "core::option::Option": {"is_some": "Some", "is_none": "None"}}

    def __init__(self, bodies):
        self.elems = set()
        for b in bodies:
            for i in BA.of(b).calls(r"core::cell::Cell::(set|replace|take)"):
                e = self._elem(b.blocks[i]["term"])
                if e is not None and self.ERR in e:
                    self.elems.add(e)
        self.elem = next(iter(self.elems)) if len(self.elems) == 1 else None
        self.adt = self.fail = self.success = None
        if self.elem is not None:
            a = _generic_args(self.elem)
            if self.elem.startswith("core::result::Result<") and len(a) == 2 and self.ERR in a[1] and self.ERR not in a[0]:
                self.adt, self.fail, self.success = "core::result::Result", "Err", "Ok"
            elif self.elem.startswith("core::option::Option<") and len(a) == 1 and self.ERR in a[0]:
                self.adt, self.fail, self.success = "core::option::Option", "Some", "None"

    @staticmethod
    def _elem(t):
        m = re.fullmatch(r"&(?:mut )?core::cell::Cell<(.*)>", (t.get("arg_tys") or [""])[0])
        return m.group(1) if m else None

    def known(self):
        return self.fail is not None

    def ops(self, body, kinds="set|replace|take"):
        if self.elem is None:
            return []
        return [i for i in BA.of(body).calls(r"core::cell::Cell::(%s)" % kinds) if self._elem(body.blocks[i]["term"]) == self.elem]

    def stores(self, body, i):
        """What the store at block i puts into the cell: 'fail' (every origin of the stored value is a failure-variant
        aggregate), 'putback' (every origin is a read of the cell itself: `let r = c.replace(..); ..; c.set(r)`),
        'success' (some origin is the success variant) or 'unknown'."""
        if not self.known():
            return "unknown"
        t = body.blocks[i]["term"]
        l = op_local(t["args"][1]) if len(t["args"]) > 1 else None
        if l is None or op_place(t["args"][1])["p"]:
            return "unknown"
        reads = set(self.ops(body, "replace|take"))
        kinds = set()
        for kind, bb, info in common.value_origins(body, l):
            if kind == "agg" and info.get("adt") == self.adt and info.get("variant") == self.fail:
                kinds.add("fail")
            elif kind == "agg" and info.get("adt") == self.adt and info.get("variant") == self.success:
                kinds.add("success")
            elif kind == "call" and bb in reads:
                kinds.add("putback")
            else:
                kinds.add("unknown")
        if kinds == {"fail"}:
            return "fail"
        if kinds == {"putback"}:
            return "putback"
        return "success" if "success" in kinds else "unknown"

    def variant_tests(self, body):
        """{call block: outcome meaning `failure recorded`} for the variant tests (is_err / is_ok / is_some / is_none)
        applied to a value that a read of the cell yielded (direct aliases only)."""
        if not self.known():
            return {}
        ba = BA.of(body)
        reads = self.ops(body, "replace|take")
        if not reads:
            return {}
        rt = taint(body, seeds={body.blocks[i]["term"]["dest"]["l"] for i in reads}, mode="direct")
        ok = common.in_set(body, rt)
        out = {}
        for name, var in self.VARIANT_TESTS[self.adt].items():
            for i in ba.calls(re.escape(self.adt) + "::" + name):
                a = body.blocks[i]["term"]["args"][0]
                if ok(op_local(a)):
                    out[i] = (var == self.fail)
        return out


def callback_result_switches(J, cb):
    """[(switch_bb, ok_target, err_target)] every branch of J on the Ok/Err-ness of the callback's result itself
    (not of a part of it): `match`/`if let` on the value or on a borrow of it, and `?` applied to it (the switch
    after Try::branch: Continue = Ok side, Break = Err side)."""
    jba = BA.of(J)
    dest = J.blocks[cb]["term"]["dest"]["l"]

    def is_result(o):
        return any(root == ("def", dest) and not fields for (root, fields) in common.operand_origin_paths(J, o))
    out = []
    for sw in sorted(jba.live):
        es = jba.enum_switch(sw)
        if not es:
            continue
        place, arms, other = es
        if is_result({"copy": place}):
            out.append((sw, arms[0] if 0 in arms else other, arms[1] if 1 in arms else other))
    for (br, brk, cont, src) in jba.try_sites():
        if is_result(J.blocks[br]["term"]["args"][0]):
            out.append((J.blocks[br]["term"]["target"], cont, brk))
    return out


POSSIBLY_OK = re.compile(r"core::option::Option::(ok_or|ok_or_else)|core::result::Result::(or|or_else)")


def callback_error_rule(ctx, rid):
    prog = ctx.prog
    J = anchors.job_start(prog)
    jba = BA.of(J)
    cb_calls = [i for i in jba.all_calls() if re.search(r"ops::function::Fn(Mut|Once)?::call", strip_generics(J.blocks[i]["term"].get("callee", "")))
                and ("resolved" not in J.blocks[i]["term"] or J.blocks[i]["term"].get("rkind") == "virtual")]
    if not ctx.ob(rid, "%s|callback-call" % J.key, len(cb_calls) == 1, where=J.span, detail="%d indirect dirtiness-callback calls" % len(cb_calls)):
        return
    cb = cb_calls[0]
    # Some branch on the callback's result must have an Err side from which the function can still return Ok(future)
    # *without* going through the Ok side of any branch on that same result (such a path is not an Err path: e.g.
    # `if let Err(e) = &r { log(e) }; let v = r?;` continues only when r is Ok). Shape-independent: `match`, `if let`
    # on a borrow followed by `?`, let-else, a helper inlined in place.
    sws = callback_result_switches(J, cb)
    into_ret = backward_direct(J, 0, depth=200)[0]
    ok_rets = [i for i in common.blocks_with_agg(J, r"core::result::Result", "Ok")
               if any(s_["s"] == "assign" and s_["rv"]["k"] == "agg" and s_["rv"].get("adt") == "core::result::Result" and s_["rv"].get("variant") == "Ok"
                      and s_["place"]["l"] in into_ret for s_ in J.blocks[i]["stmts"])]
    # ... or hands back the result of a std combinator that yields Ok for some inputs (`opt.map(ready).ok_or(e)`: Ok iff the
    # error carried an exit status) - not `?` / from_residual, which only ever re-wraps the error
    ok_rets += [i for i in jba.all_calls() if call_matches(J.blocks[i]["term"], POSSIBLY_OK)
                and not J.blocks[i]["term"]["dest"]["p"] and J.blocks[i]["term"]["dest"]["l"] in into_ret]
    cut = frozenset((sw, ok_t) for (sw, ok_t, err_t) in sws if ok_t is not None and ok_t != err_t)
    ok = False
    for (sw, ok_t, err_t) in sws:
        if err_t is None or err_t == ok_t:
            continue
        if jba.path([err_t], ok_rets, cut_edges=cut, incl=True) is not None:
            ok = True
    only_q = bool(sws) and all(sw in {J.blocks[br]["term"]["target"] for (br, _, _, _) in jba.try_sites()} for (sw, _, _) in sws)
    ctx.ob(rid, "%s|callback-Err-can-become-job-result" % J.key, ok, where=ctx.where(J, cb),
           detail="the callback's Err side can produce the job's exit status (an Ok(future))" if ok else
           (("the callback's error is only returned with `?`: an ImmediateExit status (already-failed target, exit 32) aborts the whole scheduler "
             "instead of becoming this job's result, ignoring --keep-going") if only_q else "the callback's Err arm never yields a job result"))
