"""C02 - Rebuild set is exactly the set of targets whose inputs changed (mechanism rules)."""
import re

import anchors
from core import (BA, call_matches, callee_paths, op_local, op_place, op_const, const_int, const_str, place_fields,
                  rvalue_places, field_writes, str_consts)
from rules import common, dirt, sqlc
from rules.C06 import backward_direct

EXPLANATION = (
    "Static rules on the two-phase dependency replacement and the memoised verdict: start_self marks the old edges "
    "(zap_deps1) before the .do search re-records them and commits before the fork; record_new_state deletes the "
    "still-marked edges (zap_deps2) and saves on every path; the three SQL statements and the schema agree on the "
    "flag column; the Clean verdict is memoised via set_checked and consulted at the right place; the .do search "
    "records a Modified edge for the chosen script and Created edges for every higher-priority candidate; the chosen "
    "script is saved as a static source in the same transaction. Does NOT decide equality of the executed set with "
    "a reference simulation over histories."
)
ASSUMPTIONS = ["SQLite executes the statement literals as written", "unwind edges excluded"]


def sql_of(body):
    return [s for (_, _, s, _) in str_consts(body) if re.match(r"\s*(insert|update|delete|select|create|pragma)\b", s, re.I)]


def run(ctx):
    prog = ctx.prog
    ctx.rule("R2.1", "start_self: zap_deps1 precedes find_do_file on every path to the fork, and the transaction holding both is committed before the fork")
    ctx.rule("R2.2", "record_new_state: zap_deps2 then save on every path to return, success and failure alike")
    ctx.rule("R2.3", "SQL agreement: zap_deps1 marks, zap_deps2 deletes the marked, add_dep re-inserts unmarked, all on the same flag column of table Deps, which the schema declares")
    ctx.rule("R2.4", "clean verdict memoised per run: set_checked on the inspected Clean; is_checked consulted after failed/changed and before the stamp; default callbacks persist")
    ctx.rule("R2.5", "find_do_file: existing candidate => add_dep(Modified) and return it; missing candidate => add_dep(Created) and continue; candidates come from possible_do_files")
    ctx.rule("R2.6", "start_self marks the chosen .do as a static source and saves it in the transaction committed before the fork")

    SS = anchors.start_self(prog)
    sba = BA.of(SS)
    z1 = sba.calls(r"state::File::zap_deps1")
    fd = sba.calls(r"paths::find_do_file")
    fork = sba.calls(anchors.FORK_START)
    commits = sba.calls(r"state::ProcessTransaction::commit")
    # (feasible paths, core.FA: when the override / static / no-rule decisions and the .do search are a helper returning a
    # "run this .do | already settled" value, the settled results - reached without zap_deps1 - do not continue to the fork)
    common.mpt_f(ctx, "R2.1", "%s|zap_deps1-before-find_do_file" % SS.key, SS, [0], fd, z1,
                 "old edges are marked before the .do search re-records the .do edges", "find_do_file can run before zap_deps1: the fresh .do edges would be marked for deletion")
    common.mpt_f(ctx, "R2.1", "%s|zap_deps1-before-fork" % SS.key, SS, [0], fork, z1, "every path to the fork marks the old edges", "a build can be forked without marking the old dependency list")
    common.mpt_f(ctx, "R2.1", "%s|commit-between-search-and-fork" % SS.key, SS, fd, fork, commits, "the bookkeeping transaction is committed before the fork",
                 "the child can start before the start-of-build bookkeeping is committed", incl=False)

    R = anchors.record_new_state(prog)
    rba = BA.of(R)
    z2 = rba.calls(r"state::File::zap_deps2")
    saves = rba.calls(r"state::File::save")
    common.mpt(ctx, "R2.2", "%s|zap_deps2-on-every-path" % R.key, R, [0], rba.returns(), z2, "zap_deps2 on every path to return",
               "a path through record_new_state skips zap_deps2: dependencies the target stopped declaring keep triggering it")
    common.mpt(ctx, "R2.2", "%s|save-after-zap_deps2" % R.key, R, z2, rba.returns(), saves, "save follows zap_deps2 on every path", "the record is not saved after zap_deps2", incl=False)

    # ---- R2.3
    b1 = prog.one(r"state::File::zap_deps1")
    b2 = prog.one(r"state::File::zap_deps2")
    ad = prog.one(r"state::File::add_dep")
    dp = prog.one(r"state::File::deps")
    init = prog.one(r"state::ProcessState::init")
    # the statement each of the three bodies applies to table Deps (a body may also carry statements on other tables,
    # e.g. add_dep the Files lookup of its dependency when that lookup is spelled out in it instead of called)
    def on_deps(b):
        return [s for s in sql_of(b) if sqlc.table(s) == "deps" and re.match(r"(insert|replace|update|delete)\b", sqlc.kind(s) or "")]
    s1, s2, sa, sd = on_deps(b1), on_deps(b2), on_deps(ad), sql_of(dp) + [s for (_, _, s, _) in str_consts(dp) if "Deps" in s]
    schema = [s for s in sql_of(init) if sqlc.kind(s) == "create table" and sqlc.table(s) == "deps"]
    ok = len(s1) == 1 and len(s2) == 1 and len(sa) == 1 and len(schema) == 1
    if ctx.ob("R2.3", "sql-literals-found", ok, detail="zap_deps1=%d zap_deps2=%d add_dep=%d schema=%d" % (len(s1), len(s2), len(sa), len(schema))):
        k1, k2, ka = sqlc.kind(s1[0]), sqlc.kind(s2[0]), sqlc.kind(sa[0])
        cols = sqlc.create_columns(schema[0])
        flag1 = sqlc.set_columns(s1[0])
        lit2 = sqlc.where_literals(s2[0])
        inscols = sqlc.insert_columns(sa[0])
        ctx.ob("R2.3", "zap_deps1|update-Deps-set-flag-where-target", k1 == "update" and sqlc.table(s1[0]) == "deps" and len(flag1) == 1 and sqlc.where_columns(s1[0]) == ["target"],
               where=b1.span, detail="%s" % sqlc.norm(s1[0]))
        flag = flag1[0] if flag1 else None
        ctx.ob("R2.3", "zap_deps2|delete-marked-of-target", k2 == "delete from" and sqlc.table(s2[0]) == "deps" and "target" in sqlc.where_columns(s2[0]) and lit2.get(flag) == "1",
               where=b2.span, detail="%s" % sqlc.norm(s2[0]))
        ctx.ob("R2.3", "add_dep|insert-or-replace-unmarked", ka == "insert or replace into" and sqlc.table(sa[0]) == "deps" and flag in inscols and {"target", "source", "mode"} <= set(inscols),
               where=ad.span, detail="%s" % sqlc.norm(sa[0]))
        ctx.ob("R2.3", "schema|flag-column-declared", flag in cols and {"target", "source", "mode"} <= set(cols), where=init.span, detail="Deps columns: %s" % cols)
        # parameters: zap_deps1 passes `true` for the flag, add_dep passes `false`
        # tied to the statement and to the column: the value bound to the flag column's placeholder in the parameter
        # array handed to the call that executes this very literal (not "the bool constants of the body in block order")
        p1 = _stmt_params(b1, s1[0])
        i1 = flag1.index(flag) if flag in flag1 else None
        v1 = p1[i1] if p1 is not None and i1 is not None and i1 < len(p1) else "?"
        ctx.ob("R2.3", "zap_deps1|flag-param-true", v1 is True, where=b1.span, detail="parameter bound to %s: %s (all: %s)" % (flag, v1, p1))
        pa = _stmt_params(ad, sa[0])
        ia = inscols.index(flag) if flag in inscols else None
        va = pa[ia] if pa is not None and ia is not None and ia < len(pa) else "?"
        ctx.ob("R2.3", "add_dep|flag-param-false", va is False, where=ad.span, detail="parameter bound to %s: %s (all: %s)" % (flag, va, pa))
        dsel = [s for s in sd if "deps" in sqlc.norm(s)]
        ok = any("where target=?" in sqlc.norm(s) or "where target = ?" in sqlc.norm(s) for s in dsel)
        ctx.ob("R2.3", "deps|select-by-target", ok, where=dp.span, detail="deps() selects from Deps by target")
        # a build that does not complete still needs its old (marked) edges: the listing must not filter on the flag
        filt = [s_ for s_ in dsel if flag and re.search(r"\b%s\b" % re.escape(flag), sqlc.norm(s_).split(" where ", 1)[-1] if " where " in sqlc.norm(s_) else "")]
        ctx.ob("R2.3", "deps|marked-edges-still-listed", not filt and bool(dsel), where=dp.span,
               detail="deps() lists every edge of the target, marked or not" if not filt else
               "deps() hides edges marked by zap_deps1: a build that is interrupted after zap_deps1 (or fails before re-declaring them) forgets its old dependencies and the target looks clean")

    # ---- R2.4
    dirt.memoisation(ctx, "R2.4")

    # ---- R2.5
    # Stated per side of the one existence test, over feasible paths: how many add_dep call sites the source spells
    # (one per side, or one shared site fed by `let mode = if exists { Modified } else { Created }`) is not the
    # property; what each side records is.
    from core import FA
    F = prog.one(r"paths::find_do_file")
    fba = BA.of(F)
    ffa = FA.of(F)
    ex = common.decisive_switches_on_call(F, r"std::path::Path::exists")
    adds = fba.calls(r"state::File::add_dep")
    if ctx.ob("R2.5", "%s|anchors" % F.key, len(ex) == 1 and len(adds) >= 1 and bool(fba.calls(r"paths::possible_do_files")), where=F.span,
              detail="exists switch=%d add_dep=%d possible_do_files=%d" % (len(ex), len(adds), len(fba.calls(r"paths::possible_do_files")))):
        sw, t_t, f_t, cbb = ex[0]
        nexts = fba.calls(r".*::iterator::Iterator>?::next")

        def side_modes(start):
            """{add_dep block: modes it may record} for the add_dep sites met from this side before the next candidate."""
            region = ffa.reach_incl([start], avoid=frozenset(nexts))
            return {a: common.reaching_variants(F, [start], a, F.blocks[a]["term"]["args"][2], avoid=nexts) for a in adds if a in region}
        t_modes, f_modes = side_modes(t_t), side_modes(f_t)
        ok = bool(t_modes) and bool(f_modes) and all(m == {"Modified"} for m in t_modes.values()) and all(m == {"Created"} for m in f_modes.values())
        ctx.ob("R2.5", "%s|existing=>Modified|missing=>Created" % F.key, ok, where=ctx.where(F, sw),
               detail="modes: exists-side %s, missing-side %s" % ([sorted(str(x) for x in m) for m in t_modes.values()], [sorted(str(x) for x in m) for m in f_modes.values()]))
        somes = common.blocks_with_agg(F, r"core::option::Option", "Some")
        # (the two sides start with the outcome of the existence test known: a later re-test of the same result -
        # `let found = p.exists(); ..; if found { return .. }` - follows it)
        oc = ffa.call_outcomes(cbb)
        t_states, f_states = tuple(oc[True]), tuple(oc[False])
        p = ffa.path([] if t_states else [t_t], nexts, incl=True, states=t_states)
        ok = p is None and any(ffa.edge_dominates((sw, t_t), s) for s in somes)
        ctx.ob("R2.5", "%s|first-existing-wins" % F.key, ok, where=ctx.where(F, sw), detail="the existing side returns Some(candidate) without looking further" if ok else "search continues past an existing candidate")
        common.mpt_f(ctx, "R2.5", "%s|every-missing-candidate-recorded" % F.key, F, [f_t], nexts + common.ok_returns(F), sorted(f_modes),
                     "every candidate found missing gets its Created edge before the search goes on", "a missing higher-priority candidate can be skipped without a Created edge: creating it later does not rebuild the target")
        p = ffa.path([] if f_states else [f_t], common.ok_returns(F), avoid=frozenset(nexts), incl=True, states=f_states)
        ctx.ob("R2.5", "%s|missing=>continue" % F.key, p is None, where=ctx.where(F, sw), detail="a missing candidate continues the search")
        # add_dep path operand = do_dir.join(do_file) tested by exists
        ex_arg, _, _ = backward_direct(F, op_local(F.blocks[cbb]["term"]["args"][0]))
        same = True
        for a in adds:
            ch, _, _ = backward_direct(F, op_local(F.blocks[a]["term"]["args"][3]))
            same = same and bool(set(ch) & set(ex_arg) - {None})
        ctx.ob("R2.5", "%s|edge-is-for-the-tested-path" % F.key, same, where=F.span, detail="the recorded edge names the path whose existence was tested")

    # ---- R2.6 / R2.9
    from core import FA
    sfa = FA.of(SS)
    ss_static = sba.calls(r"state::File::set_static")
    fn = [i for i in sba.calls(r"state::File::from_name") if any(sfa.dominates(x, i) for x in fd)]
    ok = False
    ctx.rule("R2.9", "a .do file that is itself a redo target keeps its record: start_self calls set_static on the .do file's record only on the not-generated side of an is_generated() test of that record (F-Z: demoted to a source, the .do file and everything built with it is never rebuilt when its own inputs change)")

    def recv(i):
        a = op_local(SS.blocks[i]["term"]["args"][0])
        if a is None:
            return None
        pl = sba.resolve_ref(a)
        return pl["l"] if pl is not None and not pl["p"] else a
    if fn and fork:
        cm = [i for i in commits if sfa.dominates(fn[0], i) and all(sfa.dominates(i, f) for f in fork)]
        # the record of the .do file: what the set_static calls behind from_name(do_path) act on
        st = [i for i in ss_static if sfa.dominates(fn[0], i) or sba.path([fn[0]], [i]) is not None and any(sba.path([i], [c]) is not None for c in cm)]
        dofs = {recv(i) for i in st} - {None}
        gens = [(sw, t_t, f_t) for (sw, t_t, f_t, cbb) in sba.switches_on_call(r"state::File::is_generated") if recv(cbb) in dofs and sba.dominates(fn[0], sw)]
        saves_ = sba.calls(r"state::File::save")
        if cm and st:
            c0 = cm[0]
            if gens:
                sw, t_t, f_t = gens[0]
                p1 = sba.path([f_t], [c0], avoid=frozenset(st), incl=True)
                sv = [i for i in saves_ if recv(i) in dofs]
                p2 = all(sba.path([x], [c0], avoid=frozenset(sv)) is None for x in st)
                ok = p1 is None and p2 and bool(sv)
            else:
                sv = [i for i in saves_ if sfa.dominates(st[0], i)]
                ok = sfa.dominates(fn[0], st[0]) and bool(sv) and sfa.dominates(sv[0], c0)
            for k, i in common.ordinal_keys([("set_static", i) for i in st]):
                guarded = any(sba.edge_dominates((sw, f_t), i) for (sw, t_t, f_t) in gens)
                ctx.ob("R2.9", "%s|%s|only-when-the-.do-is-not-a-target" % (SS.key, k), guarded, where=ctx.where(SS, i),
                       detail="the .do file's record is marked static only when it is not generated" if guarded else
                       "the chosen .do file is marked as a static source unconditionally: a .do file built by redo (x.do from x.do.do) loses is_generated and its dependencies; `redo-ifchange x.do x` then exits 0 with both stale")
    ctx.ob("R2.6", "%s|do-file-static-saved-committed" % SS.key, ok, where=SS.span, detail="from_name(do_path) -> (not generated: set_static -> save) -> commit -> fork" if ok else "the chosen .do is not recorded as a static source before the fork")


def _stmt_params(body, sql):
    """The parameter list bound to the SQL literal `sql` in `body`: the elements, in order, of the array handed to the
    call that receives this literal - True / False for a bool constant, None for anything else. None when the call or
    its parameter array cannot be located."""
    ba = BA.of(body)
    lit_locals = set()
    lit_blocks = set()
    for (bb, where, text, _) in str_consts(body):
        if text != sql:
            continue
        if where == "term":
            lit_blocks.add(bb)
        else:
            st = body.blocks[bb]["stmts"][where]
            if not st["place"]["p"]:
                lit_locals.add(st["place"]["l"])
    for c in ba.all_calls():
        t = body.blocks[c]["term"]
        hit = None
        for n, a in enumerate(t["args"]):
            if c in lit_blocks and const_str(a) == sql:
                hit = n
            l = op_local(a)
            if l is not None and lit_locals & set(backward_direct(body, l)[0]):
                hit = n
        if hit is None:
            continue
        for n, a in enumerate(t["args"]):
            l = op_local(a)
            if n == hit or l is None:
                continue
            arrays = [o for o in backward_direct(body, l)[1] if o[0] == "agg" and o[2].get("agg") == "array"]
            if len(arrays) != 1:
                continue
            out = []
            for o in arrays[0][2]["ops"]:
                v = None
                c_ = op_const(o)
                sl = set() if op_local(o) is None else backward_direct(body, op_local(o))[0]
                consts = [c_] if c_ is not None else []
                for x in sl:
                    for d in ba.defs.get(x, []):
                        if d[0] == "stmt" and d[3]["k"] == "use" and op_const(d[3]["op"]) is not None:
                            consts.append(op_const(d[3]["op"]))
                bools = [k["bool"] for k in consts if "bool" in k]
                if len(bools) == 1 and len(consts) == 1:
                    v = bools[0]
                out.append(v)
            return out
    return None


def _bool_params(body):
    """bool constants placed in the rusqlite params array of the body, in order."""
    out = []
    for blk in body.blocks:
        for s in blk["stmts"]:
            if s["s"] == "assign" and s["rv"]["k"] == "use":
                c = op_const(s["rv"]["op"])
                if c and "bool" in c and s.get("macro") in ("params", "$crate::params", None) and "params" in (s.get("macro") or "params"):
                    out.append(c["bool"])
    return out
