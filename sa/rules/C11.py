"""C11 - redo never overwrites or deletes files it did not produce."""
import re

import anchors
from core import (BA, FAL, call_matches, callee_paths, op_local, op_place, op_const, const_int, const_str, place_fields,
                  rvalue_places, field_writes, taint, str_consts, decode_bytestr, decode_fmt_template, closure_sites)
from facts import strip_generics
from rules import common, dirt
from rules.C04 import MUTATORS, is_mutator_call, recorder_roles, pre_verdict_stats
from rules.C06 import backward_direct

EXPLANATION = (
    "Static dominance / must-pass-through / effect rules: in start_self the 'leave it alone' guard "
    "(exists and not a directory and (override or not generated)) has a then-side that returns success without "
    "reaching zap_deps1, the .do search, the fork or any filesystem mutator, and is nested exactly under those tests; "
    "override detection (mtime/size differ from the recorded stamp) sets and saves the override flag before the guard "
    "reads it; detect_override compares the first two stamp fields and from_metadata writes mtime and size first; the "
    "no-rule branch only classifies (static / failed); a vanished target is forgotten; the direct-modification test "
    "uses the stat taken before the verdict; the query and declaration commands reach no filesystem mutator outside "
    "redo's own state directory. Does NOT decide behaviour over role-changing histories."
)
ASSUMPTIONS = ["a user edit changes mtime or size", "unwind edges excluded"]


def run(ctx):
    prog = ctx.prog
    ctx.rule("R11.1", "start_self: the guard's then-side (exists, not dir, override or not generated) returns a ready success and reaches neither zap_deps1, find_do_file, the fork nor a filesystem mutator; it marks static only when not overridden")
    ctx.rule("R11.2", "start_self: before the guard, a generated and present file whose stamp differs in mtime/size gets set_override (is_override := true) and is saved")
    ctx.rule("R11.3", "detect_override compares exactly the first two '-' separated stamp fields, which from_metadata writes as mtime and size")
    ctx.rule("R11.4", "no .do rule: an existing file becomes a static source, a missing one is marked failed; nothing is written to the target")
    ctx.rule("R11.5", "a generated target that vanished is forgotten (is_generated := false, saved) only when its new stamp is MISSING")
    ctx.rule("R11.6", "the direct-modification test compares against the stat taken in BuildJob::start before the verdict")
    ctx.rule("R11.7", "redo-ood/targets/sources/stamp/always/ifcreate/whichdo/log reach no filesystem mutator outside the state directory's own files")

    SS = anchors.start_self(prog)
    ba = BA.of(SS)
    z1 = ba.calls(r"state::File::zap_deps1")
    fd = ba.calls(r"paths::find_do_file")
    forks = ba.calls(anchors.FORK_START)
    t_taint = taint(SS, src_place=lambda p: place_fields(p)[-1:] == ["builder::BuildJob.t"], mode="direct", through=re.compile(r"std::path::Path::new"))
    ex_all = existence_tests(SS, t_taint)
    # a test one side of which cannot continue (the panic side of an assert!/debug_assert! restating what is known) decides nothing
    _rets = ba.returns()
    ex_all = [e for e in ex_all if all(ba.path([x], _rets, incl=True) is not None for x in (e[1], e[2]))]
    ex = [(sw, t_t, f_t, kind) for (sw, t_t, f_t, kind) in ex_all if z1 and ba.dominates(sw, z1[0])]
    if len(ex) > 1:
        # several tests of the target's presence precede the build (the override detection asks too): the guard is the one
        # whose exists-side goes on to the directory test
        ex = [e for e in ex if any(ba.edge_dominates((e[0], e[1]), sw) for (sw, _, _, _) in ba.switches_on_call(r"std::path::Path::is_dir"))]
    if len(ex) != 1:
        return guard_by_truth_assignment(ctx, prog, SS, ex_all, z1, fd, forks)
    ctx.ob("R11.1", "%s|guard-exists-test" % SS.key, True, where=SS.span, detail="%d exists(t) tests dominate zap_deps1" % len(ex))
    E, E_t, E_f, E_kind = ex[0]
    # ---- R11.10 (F-Y): a dangling symlink is a file the user made, too
    ctx.rule("R11.10", "the existence test of the leave-alone guard does not follow symbolic links (lstat / symlink_metadata / the recorded-stamp reader), so that a user's dangling symlink counts as an existing file redo did not produce")
    ctx.ob("R11.10", "%s|guard-existence-test-is-lstat" % SS.key, E_kind == "nofollow", where=ctx.where(SS, E),
           detail="the guard tests the directory entry itself" if E_kind == "nofollow" else
           "the guard asks whether the *referent* exists (Path::exists / metadata follow symbolic links): a dangling symlink made by the user, with a matching .do rule, is replaced by the build output")
    dirtests = dir_test_functions(prog)
    isdir_all = [(sw, t_t, f_t, cbb) for (sw, t_t, f_t, cbb) in ba.switches_on_call("|".join(re.escape(k) for k in sorted(dirtests))) if ba.edge_dominates((E, E_t), sw)]
    # the same question written out in place: `stat(t).map_or(false, |m| m.is_dir())`
    inline_kind = {}
    for (sw, t_t, f_t, cbb) in ba.switches_on_call(r"core::result::Result::map_or|core::result::Result::is_ok_and|core::option::Option::map_or|core::option::Option::is_some_and"):
        if not ba.edge_dominates((E, E_t), sw):
            continue
        tt = SS.blocks[cbb]["term"]
        asks_dir = False
        for a_ in tt["args"]:
            la = op_local(a_)
            for x in ([la] + list(ba.ref_chain(la))) if la is not None else []:
                d_ = ba.single_def(x)
                if d_ and d_[0] == "stmt" and d_[3]["k"] == "agg" and d_[3].get("def"):
                    cb_ = prog.bodies.get(strip_generics(d_[3]["def"]))
                    if cb_ is not None and BA.of(cb_).calls(r"std::fs::Metadata::is_dir|std::fs::FileType::is_dir"):
                        asks_dir = True
        if not asks_dir:
            continue
        sl_, org_, _ = backward_direct(SS, op_local(tt["args"][0]), depth=12)
        stat = [o for o in org_ if o[0] == "call" and (call_matches(o[2], _FOLLOW) or call_matches(o[2], _NOFOLLOW))]
        inline_kind[sw] = "nofollow" if stat and all(call_matches(o[2], _NOFOLLOW) for o in stat) else "follow"
        isdir_all.append((sw, t_t, f_t, cbb))
    isdir = [(sw, t_t, f_t) for (sw, t_t, f_t, cbb) in isdir_all]
    # ---- R11.12 (F-AH): the directory exception of the guard is about the directory entry itself
    ctx.rule("R11.12", "the guard excepts directories (a target may be a directory) by looking at the entry itself, not through it: a symbolic link to a directory that the user made is a file redo did not produce, and is left alone")
    for (sw, t_t, f_t, cbb) in isdir_all:
        kinds = {dirtests[q] for q in callee_paths(SS.blocks[cbb]["term"]) if q in dirtests} | ({inline_kind[sw]} if sw in inline_kind else set())
        okd = kinds == {"nofollow"}
        ctx.ob("R11.12", "%s|guard-directory-test-is-lstat" % SS.key, okd, where=ctx.where(SS, sw),
               detail="the directory test does not follow symbolic links" if okd else
               "the directory test follows symbolic links (Path::is_dir / metadata): a user's symlink to a directory, with a matching .do rule, is taken for a directory target and replaced by the build output")
    ovr = [(sw, t_t, f_t) for (sw, t_t, f_t) in common.field_switches(SS, "state::File.is_override") if ba.edge_dominates((E, E_t), sw) and ba.dominates(sw, z1[0]) is False or
           (ba.edge_dominates((E, E_t), sw) and any(ba.edge_dominates((d[0], d[2]), sw) for d in isdir))]
    gen = [(sw, t_t, f_t) for (sw, t_t, f_t, cbb) in ba.switches_on_call(r"state::File::is_generated") if any(ba.edge_dominates((o[0], o[2]), sw) for o in ovr)]
    ok = len(isdir) == 1 and len(ovr) >= 1 and len(gen) == 1
    if not ok:
        # not written as the nested `exists && !dir && (override || !generated)`: decide the same facts by truth assignment
        return guard_by_truth_assignment(ctx, prog, SS, ex_all, z1, fd, forks, dir_sw=[(sw, t_t, f_t) for (sw, t_t, f_t, cbb) in isdir_all], e_kind=E_kind)
    ctx.ob("R11.1", "%s|guard-nesting" % SS.key, ok, where=ctx.where(SS, E),
           detail="exists -> !is_dir -> (is_override || !is_generated) nested as expected")
    O = ovr[0]
    G = gen[0]
    # From here on the path rules run over *feasible* paths (core.FAL): when the decision part of start_self is a helper
    # returning a value (`BuildPlan::decide(..)? -> Settled(rv) | Run(df)`), its returns join before the caller splits
    # them again; "then-side -> join -> Run arm -> fork" is a block path no execution takes.
    fa = FAL.of(SS)
    then_entries = [O[1], G[2]]
    bad_targets = z1 + fd + forks
    muts = [i for i in ba.all_calls() if is_mutator_call(SS.blocks[i]["term"])]
    for nm, st in (("override", O[1]), ("not-generated", G[2])):
        common.not_reach_fl(ctx, "R11.1", "%s|then-side(%s)-builds-nothing" % (SS.key, nm), SS, [st], bad_targets + muts,
                           "the leave-alone side reaches neither zap_deps1, the .do search, the fork nor a mutator", "an existing file redo did not produce can still be rebuilt/overwritten")
    # "returns a ready EXIT_SUCCESS": the blocks where the constant 0 is chosen as the status a `future::ready(..)`
    # resolves to - the call itself for `ready(EXIT_SUCCESS)`, the place the constant enters for `finished(EXIT_SUCCESS)` /
    # `Settled(EXIT_SUCCESS)` .. `ready(rv)` - must lie on every feasible path from the then-side to an Ok return
    readys = sorted({b_ for i in ba.calls(r"core::future::ready::ready") for b_ in common.const_int_entry_blocks(SS, i, 0, 0)})
    common.mpt_fl(ctx, "R11.1", "%s|then-side-returns-success" % SS.key, SS, then_entries, ba.returns() and common.ok_returns(SS), readys,
                 "the leave-alone side returns a ready EXIT_SUCCESS", "the leave-alone side does not return success")
    # set_static only when not overridden
    then_reach = fa.reach_incl(then_entries)
    statics = [i for i in ba.calls(r"state::File::set_static") if i in then_reach and not ba.dominates(z1[0], i)]
    inner = [(sw, t_t, f_t) for (sw, t_t, f_t) in common.field_switches(SS, "state::File.is_override") if sw in then_reach and sw not in (O[0],)]
    ok = bool(statics) and bool(inner) and all(any(ba.edge_dominates((sw, f_t), s) for (sw, t_t, f_t) in inner) for s in statics)
    ctx.ob("R11.1", "%s|set_static-only-if-not-override" % SS.key, ok, where=ctx.where(SS, statics[0]) if statics else SS.span,
           detail="set_static (which clears the override flag) is applied only when the file is not an override" if ok else "an overridden target is turned back into a plain source, losing the override flag")
    # on the override side nothing clears the override flag (set_changed / set_static / set_generated / update_stamp do)
    clearers = set()
    for b in prog.bodies.values():
        if not b.key.startswith("state::File::"):
            continue
        for _, _, st_ in field_writes(b, r"state::File\.is_override"):
            c_ = op_const(st_["rv"].get("op")) if st_["rv"]["k"] == "use" else None
            if c_ is not None and c_.get("bool") is False:
                clearers.add(b.key)
    changed_ = True
    while changed_:
        changed_ = False
        for b in prog.bodies.values():
            if b.key.startswith("state::File::") and b.key not in clearers and any(t == k_ for k_ in clearers for (_, t, kind) in ctx.cg.site_edges.get(b.key, []) if kind == "direct"):
                clearers.add(b.key)
                changed_ = True
    ov_side = []
    for (sw, t_t, f_t) in inner:
        ov_side.append(t_t)
    clear_calls = [i for i in ba.all_calls() if any(p_ in clearers for p_ in callee_paths(SS.blocks[i]["term"]))]
    ctx.floor("R11.1", "File methods that clear the override flag", len(clearers), 3)
    common.not_reach_fl(ctx, "R11.1", "%s|override-side-keeps-the-flag" % SS.key, SS, ov_side + [O[1]] if not inner else ov_side, clear_calls,
                       "on the is_override side of the leave-alone branch nothing clears the override flag before it is saved",
                       "on the is_override side a File method that clears is_override (set_changed via update_stamp, set_static, ...) is called: after a second manual edit the flag is lost and a later redo overwrites the user's file",
                       avoid=ba.calls(r"state::File::save"))
    # ---- R11.13 (seed C11-9): ahead of the guard, too, nothing may clear the flag behind the override detection's back
    ctx.rule("R11.13", "start_self, before the leave-alone guard: a File method that clears is_override (update_stamp -> set_changed, set_static, ...) is followed by set_override on every path to the guard - refreshing the stamp of an already overridden file after a second manual edit must not turn it back into redo's own output, which the guard then lets the .do overwrite")
    so_ = ba.calls(r"state::File::set_override")
    pre = [c for c in clear_calls if c not in so_ and ba.path([c], [E], incl=True) is not None]
    ctx.ob("R11.13", "%s|no-flag-clearing-before-the-guard" % SS.key,
           all(fa.path([c], [E], avoid=frozenset(so_), incl=True) is None for c in pre), where=ctx.where(SS, pre[0]) if pre else ctx.where(SS, E),
           detail="nothing clears the override flag between the override detection and the guard" if not pre else
           "%s is called ahead of the guard without set_override after it: the flag the guard is about to read is lost" % common.short(callee_paths(SS.blocks[pre[0]]["term"])[0]))
    # the three mutation anchors are dominated by the guard test
    ok = all(fa.dominates(E, x) for x in bad_targets) and bool(forks)
    ctx.ob("R11.1", "%s|build-steps-dominated-by-guard" % SS.key, ok, where=ctx.where(SS, E), detail="zap_deps1, find_do_file and the fork are all dominated by the guard")

    _r11_rest(ctx, prog, SS, E)


def _r11_rest(ctx, prog, SS, E):
    ba = BA.of(SS)
    fa = FAL.of(SS)
    muts = [i for i in ba.all_calls() if is_mutator_call(SS.blocks[i]["term"])]
    z1 = ba.calls(r"state::File::zap_deps1")
    fd = ba.calls(r"paths::find_do_file")
    forks = ba.calls(anchors.FORK_START)
    # ---- R11.2
    # (the result of detect_override may reach its test through a local: `let overridden = sf.is_override || detect_override(..)`)
    det = common.switches_on_call_value(SS, r"state::Stamp::detect_override")
    so = ba.calls(r"state::File::set_override")
    saves = ba.calls(r"state::File::save")
    if ctx.ob("R11.2", "%s|detect_override-test" % SS.key, len(det) == 1 and len(so) == 1, where=SS.span, detail="detect_override test and set_override call located"):
        sw, t_t, f_t, cbb = det[0]
        ctx.ob("R11.2", "%s|detection-precedes-guard" % SS.key, ba.dominates(sw, E) or ba.path([sw], [E], incl=True) is not None and not ba.path([E], [sw], incl=True), where=ctx.where(SS, sw),
               detail="override detection happens before the guard")
        common.mpt(ctx, "R11.2", "%s|detected=>saved-before-guard" % SS.key, SS, [t_t], [E], saves, "a detected override is saved before the guard reads the flag", "a detected override is not saved")
        gsw = [(s, a, b) for (s, a, b, c) in ba.switches_on_call(r"state::File::is_generated") if ba.dominates(s, sw)]
        msw = [(s, a, b) for (s, a, b, c) in ba.switches_on_call(r"state::Stamp::is_missing") if ba.dominates(s, sw)]
        ok = bool(gsw) and bool(msw) and ba.edge_dominates((gsw[0][0], gsw[0][1]), sw) and ba.edge_dominates((msw[0][0], msw[0][2]), sw)
        ctx.ob("R11.2", "%s|only-generated-and-present" % SS.key, ok, where=ctx.where(SS, sw), detail="detection applies to generated, present files only")
        isw = [(s, a, b) for (s, a, b) in common.field_switches(SS, "state::File.is_override") if ba.path([t_t], [s], avoid=frozenset([E]), incl=True) and ba.dominates(s, so[0])]
        ok = bool(isw) and ba.edge_dominates((isw[0][0], isw[0][2]), so[0])
        ctx.ob("R11.2", "%s|set_override-when-newly-detected" % SS.key, ok, where=ctx.where(SS, so[0]), detail="set_override is applied on the not-yet-override side after detection")
        # args of detect_override: stored stamp and fresh stamp
        t = SS.blocks[cbb]["term"]
        a0 = backward_direct(SS, op_local(t["args"][0]))
        fresh = backward_direct(SS, op_local(t["args"][1]))
        ok = any(common.reads_field(SS, {"k": "use", "op": {"copy": {"l": l, "p": []}}}, "state::File.stamp") for l in a0[0]) and \
            any(o[0] == "call" and call_matches(o[2], r"state::File::read_stamp") for o in fresh[1])
        ctx.ob("R11.2", "%s|compares-stored-with-fresh" % SS.key, ok, where=ctx.where(SS, cbb), detail="detect_override(stored stamp, freshly read stamp)")
    sob = prog.one(r"state::File::set_override")
    w = field_writes(sob, r"state::File\.is_override")
    ok = any(s["rv"]["k"] == "use" and (op_const(s["rv"]["op"]) or {}).get("bool") is True for _, _, s in w)
    ctx.ob("R11.2", "set_override|is_override:=true", ok, where=sob.span, detail="set_override writes is_override := true")

    # ---- R11.3
    do = prog.one(r"state::Stamp::detect_override")
    dba = BA.of(do)
    spl = dba.calls(r"core::str::<impl str>::splitn")
    tk = dba.calls(r".*::iterator::Iterator::take")
    # the two field sequences meet in one comparison, and the function answers "overridden" exactly when they differ:
    # `!a.eq(b)` and `a.ne(b)` say the same (the result is followed back through `!`, copies and the early `return false`)
    eqc = dba.calls(r".*::iterator::Iterator::(eq|ne)")
    verdicts = [(neg, bb) for (neg, bb, t_) in common.bool_value_calls(do, {"copy": {"l": 0, "p": []}}) if bb in eqc]
    differ = bool(verdicts) and all(neg != call_matches(do.blocks[bb]["term"], r".*::iterator::Iterator::ne") for (neg, bb) in verdicts)
    ok = len(spl) == 2 and len(tk) == 2 and len(eqc) == 1 and differ
    vals = [(const_int(do.blocks[i]["term"]["args"][1]), (op_const(do.blocks[i]["term"]["args"][2]) or {}).get("int")) for i in spl]
    takes = [const_int(do.blocks[i]["term"]["args"][1]) for i in tk]
    ok = ok and all(t == 2 for t in takes) and all(v[1] == ord("-") and (v[0] or 0) >= 3 for v in vals)
    ctx.ob("R11.3", "detect_override|first-two-fields", ok, where=do.span, detail="splitn(%s) take(%s) on both stamps, compared for (in)equality; true iff they differ: %s" % (vals, takes, differ))
    fm = prog.one(r"state::Stamp::from_metadata")
    fba = BA.of(fm)
    tmpl = [s for (_, _, s, nm) in str_consts(fm) if nm == "format_args"]
    ok = False
    det_s = "format template not found"
    if tmpl:
        parts = tmpl[0].split("{}")
        seps = [p for p in parts[1:-1]]
        # argument order: array of fmt::rt::Argument built in order
        arr = None
        for blk in fm.blocks:
            for s in blk["stmts"]:
                if s["s"] == "assign" and s["rv"]["k"] == "agg" and s["rv"].get("agg") == "array" and len(s["rv"]["ops"]) >= 2:
                    arr = s["rv"]["ops"]
        if arr:
            def src(o):
                sl, org, _ = backward_direct(fm, op_local(o), depth=100)
                names = []
                for x in org:
                    if x[0] == "call":
                        names += callee_paths(x[2])
                        for a in x[2]["args"]:
                            if op_local(a) is not None:
                                for y in backward_direct(fm, op_local(a), depth=100)[1]:
                                    if y[0] == "call":
                                        names += callee_paths(y[2])
                return names
            n0, n1 = src(arr[0]), src(arr[1])
            ok = all(sp == "-" for sp in seps) and len(seps) >= 2 and any("as_secs_f64" in n for n in n0) and any(n.endswith("Metadata::len") for n in n1)
            det_s = "template %r; arg0 from %s; arg1 from %s" % (tmpl[0], [n for n in n0 if "secs" in n][:1], [n for n in n1 if "len" in n][:1])
    ctx.ob("R11.3", "from_metadata|mtime-then-size-dash-separated", ok, where=fm.span, detail=det_s)

    # ---- R11.4
    none_arm = None
    for sw in sorted(ba.live):
        es = ba.enum_switch(sw)
        if es and SS.locals[es[0]["l"]].startswith("core::option::Option<paths::DoFile>") and not es[0]["p"]:
            # `match` lists both variants; `let Some(df) = .. else {..}` / `if let` list one and leave the other to `otherwise`
            none_arm = es[1][0] if 0 in es[1] else (es[2] if 1 in es[1] else None)
    if ctx.ob("R11.4", "%s|no-rule-arm" % SS.key, none_arm is not None, where=SS.span, detail="the `None` arm of find_do_file's result located"):
        ex2 = [(sw, t_t, f_t) for (sw, t_t, f_t, cbb) in ba.switches_on_call(r"std::path::Path::exists") if fa.path([none_arm], [sw], incl=True) and sw != E and not fa.path([sw], forks, incl=True)]
        ok = False
        if len(ex2) == 1:
            sw, t_t, f_t = ex2[0]
            st = [i for i in ba.calls(r"state::File::set_static") if ba.edge_dominates((sw, t_t), i)]
            sf = [i for i in ba.calls(r"state::File::set_failed") if ba.edge_dominates((sw, f_t), i)]
            ok = bool(st) and bool(sf)
        ctx.ob("R11.4", "%s|exists=>static|missing=>failed" % SS.key, ok, where=SS.span, detail="no rule: existing file -> set_static, missing -> set_failed")
        common.not_reach_fl(ctx, "R11.4", "%s|no-rule-mutates-nothing" % SS.key, SS, [none_arm], muts + forks, "the no-rule branch reaches no mutator and no fork", "the no-rule branch touches the filesystem")

    forget_missing_target(ctx, "R11.5")

    # ---- R11.6
    # The value is followed from the stat in the dispatcher to the comparison in record_new_state by what it *is*
    # (C04.recorder_roles): no parameter positions, no variable names, whether the stat is a helper call or written
    # out in place, whether record_new_state takes it as an argument of its own or as a field of a parameter struct.
    J = anchors.job_start(prog)
    jba = BA.of(J)
    R = anchors.record_new_state(prog)
    rba = BA.of(R)
    RR = anchors.result_recorder(prog)
    roles = recorder_roles(prog, R, SS, J, RR)
    ts = pre_verdict_stats(prog, J)
    cbs = [i for i in jba.all_calls() if re.search(r"ops::function::Fn(Mut|Once)?::call", J.blocks[i]["term"].get("callee", "")) and J.blocks[i]["term"].get("rkind", "virtual") == "virtual"]
    ssc = jba.calls(re.escape(SS.key))
    ok = bool(ts) and bool(cbs) and bool(ssc) and all(any(jba.dominates(x, c) for x in ts) for c in cbs) and bool(roles["_ss_params_before_t"])
    ctx.ob("R11.6", "%s|pre-build-stat-before-verdict" % J.key, ok, where=ctx.where(J, ts[0]) if ts else J.span,
           detail="the stat of the target precedes the callback and is handed to start_self" if ok else "the pre-build stat is missing, late, or not the one passed on")
    mods = rba.calls(r"std::fs::Metadata::modified")
    ok = any(common.role_roots(R, op_local(R.blocks[m]["term"]["args"][0]), roles["before_t"]) for m in mods) if roles["before_t"] else False
    if not ok and roles["before_t"]:
        # the comparison written with combinators (`before_t.as_ref().map_or(true, |b| .. b.modified() ..)`): the pre-build
        # stat is then the receiver of the call that takes the closure, or one of the closure's captured values
        from core import closure_sites
        inner = {k for k, b_ in prog.bodies.items() if k.startswith(R.key + "::{closure") and BA.of(b_).calls(r"std::fs::Metadata::modified")}
        for (bb_, j_, dl, ck, ops) in closure_sites(R):
            if not any(k == ck or k.startswith(ck + "::") for k in inner):
                continue
            cand = [op_local(o) for o in ops if op_local(o) is not None]
            for c_ in rba.all_calls():
                tt = R.blocks[c_]["term"]
                if any(op_local(a_) == dl for a_ in tt["args"]):
                    cand += [op_local(a_) for a_ in tt["args"] if op_local(a_) is not None and op_local(a_) != dl]
            if any(common.role_roots(R, l_, roles["before_t"]) or any(common.role_roots(R, x, roles["before_t"]) for x in rba.ref_chain(l_)) for l_ in cand):
                ok = True
    ctx.ob("R11.6", "%s|direct-mod-test-reads-before_t" % R.key, ok, where=R.span, detail="the modification-time comparison uses the pre-build stat handed down from BuildJob::start" if ok else "direct-modification test does not use the pre-build stat")
    ok = bool(roles["_up_before_t"]) and bool(roles["before_t"])
    ctx.ob("R11.6", "%s|before_t-handed-to-recorder" % SS.key, bool(ok), where=SS.span, detail="start_self's pre-build stat parameter is captured by the result recorder and passed to record_new_state")

    # ---- R11.7
    roots = [r"@bin::ood::run", r"@bin::targets::run", r"@bin::sources::run", r"@bin::stamp::run", r"@bin::always::run", r"@bin::ifcreate::run", r"@bin::whichdo::run", r"@bin::log::run"]
    allowed = {"state::ProcessState::init": "creates .redo/ and removes a half-created db.sqlite3", "state::LockManager::open": "opens/creates .redo/locks"}
    # A third exception is decided per call site by what is created, not by which function does it: links to the redo
    # binary inside a directory the same body has just made with tempfile::tempdir() (today Env::make_redo_links_dir,
    # equally when that helper is inlined into Env::init or split further) are not project files.
    for r in roots:
        b = prog.one(r)
        reach = ctx.cg.reachable([b.key], indirect=True, stop=frozenset(["helpers::unlink"]))
        found = []
        for k in sorted(reach):
            bb = prog.bodies.get(k)
            if bb is None:
                continue
            for i in BA.of(bb).all_calls():
                if is_mutator_call(bb.blocks[i]["term"]):
                    found.append((k, i))
        bad = [(k, i) for k, i in found if k not in allowed and not in_fresh_tempdir(prog.bodies[k], i)]
        ctx.ob("R11.7", "%s|no-project-file-mutation" % b.key, not bad, where=", ".join(ctx.where(prog.bodies[k], i) for k, i in bad[:3]),
               detail="mutators reachable only in %s (%d bodies searched)" % (sorted({k for k, _ in found}), len(reach)) if not bad else "filesystem mutator reachable: %s" % sorted({k for k, _ in bad}))
    # positive control: the same query from redo-ifchange must find the known mutators
    ib = prog.one(r"@bin::ifchange::run")
    reach = ctx.cg.reachable([ib.key], indirect=True)
    hit = {k for k in reach if k in prog.bodies and any(is_mutator_call(prog.bodies[k].blocks[i]["term"]) for i in BA.of(prog.bodies[k]).all_calls())}
    ctx.ob("R11.7", "positive-control|ifchange-reaches-record_new_state-mutators", R.key in hit and SS.key in hit, where=ib.span, detail="control query finds mutators in %d bodies" % len(hit))


_FOLLOW = r"std::path::Path::(exists|is_file|metadata)|std::fs::metadata"
_NOFOLLOW = r"std::path::Path::(symlink_metadata|is_symlink)|std::fs::symlink_metadata"



def guard_by_truth_assignment(ctx, prog, SS, ex_all, z1, fd, forks, dir_sw=None, e_kind=None, rest=None):
    """R11.1 when the leave-alone guard is not written as one nested condition (a `leave_alone` flag computed by a
    match, the `override || !generated` part hoisted into a local, extra assertions on the same fields): the four atoms
    - E the target exists, D it is a directory, O sf.is_override, G sf.is_generated() - are located wherever they are
    tested, and for each truth assignment under which the guard must hold (E, !D, O) and (E, !D, !O, !G) every branch on
    an atom is forced to that value (the complementary edges are cut); on the feasible paths (core.FAL: a flag computed
    on one path and tested later is followed) that remain, no build step and no mutator may be reachable, every Ok
    return is the ready success, and - for (E, !D, O) - nothing clears the override flag and set_static is not reached."""
    ba = BA.of(SS)
    fa = FAL.of(SS)
    key = SS.key
    real_ctx = ctx

    class _Buf:
        """obligations of the fallback are held back: established -> recorded; not established -> `cannot decide` (the
        shape is one the exact rule does not know, and a flag computed through values FAL does not follow makes
        paths look feasible that are not), never a VIOLATION on the strength of the approximation"""
        def __init__(self):
            self.items = []
        def ob(self, rid, k, ok, **kw):
            self.items.append((rid, k, bool(ok), kw))
            return ok
        def rule(self, *a_, **k_):
            return real_ctx.rule(*a_, **k_)
        def floor(self, *a_, **k_):
            return real_ctx.floor(*a_, **k_)
        def where(self, *a_, **k_):
            return real_ctx.where(*a_, **k_)
        def __getattr__(self, n):
            return getattr(real_ctx, n)
    ctx = _Buf()
    Es = [(sw, t_t, f_t) for (sw, t_t, f_t, kind) in ex_all]
    kinds = {kind for (_, _, _, kind) in ex_all}
    dirtests = dir_test_functions(prog)
    Ds = dir_sw if dir_sw is not None else [(sw, t_t, f_t) for (sw, t_t, f_t, cbb) in ba.switches_on_call("|".join(re.escape(k) for k in sorted(dirtests)))]
    Os = common.field_switches(SS, "state::File.is_override")
    Gs = [(sw, t_t, f_t) for (sw, t_t, f_t, cbb) in ba.switches_on_call(r"state::File::is_generated")]
    if not ctx.ob("R11.1", "%s|guard-exists-test" % key, bool(Es), where=SS.span, detail="%d tests of the target's presence located" % len(Es)):
        return
    guard_E = [e for e in ex_all if z1 and ba.path([e[0]], z1, incl=True) is not None]
    ctx.rule("R11.10", "the existence test of the leave-alone guard does not follow symbolic links (lstat / symlink_metadata / the recorded-stamp reader), so that a user's dangling symlink counts as an existing file redo did not produce")
    nf = all(k == "nofollow" for (_, _, _, k) in guard_E) and bool(guard_E)
    ctx.ob("R11.10", "%s|guard-existence-test-is-lstat" % key, nf, where=ctx.where(SS, guard_E[0][0]) if guard_E else SS.span,
           detail="the guard tests the directory entry itself" if nf else "a test of the target's presence ahead of the build follows symbolic links")
    ok = bool(Ds) and bool(Os) and bool(Gs)
    if not ctx.ob("R11.1", "%s|guard-nesting" % key, ok, where=SS.span,
                  detail="guard atoms located (exists=%d dir=%d override=%d generated=%d); decided by truth assignment" % (len(Es), len(Ds), len(Os), len(Gs)) if ok else
                  "guard structure not recognised: dir=%d override=%d generated=%d" % (len(Ds), len(Os), len(Gs))):
        return

    def force(sws, val):
        return {(sw, f_t if val else t_t) for (sw, t_t, f_t) in sws if t_t != f_t}
    bad_targets = z1 + fd + forks
    muts = [i for i in ba.all_calls() if is_mutator_call(SS.blocks[i]["term"])]
    rets = common.ok_returns(SS) or ba.returns()
    readys = sorted({b_ for i in ba.calls(r"core::future::ready::ready") for b_ in common.const_int_entry_blocks(SS, i, 0, 0)})
    assigns = {"override": force(Es, True) | force(Ds, False) | force(Os, True),
               "not-generated": force(Es, True) | force(Ds, False) | force(Os, False) | force(Gs, False)}
    # the same values where the result of a call is kept in a flag and branched on later (`let not_ours = .. || !sf.is_generated()`)
    g_calls = ba.calls(r"state::File::is_generated")
    d_calls = ba.calls("|".join(re.escape(k) for k in sorted(dirtests)))
    forced = {"override": {c: False for c in d_calls},
              "not-generated": {c: False for c in list(d_calls) + list(g_calls)}}
    for nm, cuts in assigns.items():
        p_ = fa.path([0], bad_targets + muts, cut_edges=frozenset(cuts), incl=True, forced_calls=forced[nm])
        ctx.ob("R11.1", "%s|then-side(%s)-builds-nothing" % (key, nm), p_ is None, where=ctx.where(SS, p_[-1]) if p_ else SS.span,
               detail="the leave-alone side reaches neither zap_deps1, the .do search, the fork nor a mutator" if p_ is None else "an existing file redo did not produce can still be rebuilt/overwritten",
               witness={"path": p_[:40] if p_ else None})
    ok_ret, wit_ret = True, None
    for nm, cuts in assigns.items():
        pr_ = fa.path([0], rets, avoid=frozenset(readys), cut_edges=frozenset(cuts), incl=True, forced_calls=forced[nm])
        if pr_ is not None:
            ok_ret, wit_ret = False, pr_
    ctx.ob("R11.1", "%s|then-side-returns-success" % key, ok_ret and bool(readys), where=SS.span,
           detail="the leave-alone side returns a ready EXIT_SUCCESS" if ok_ret and readys else "the leave-alone side does not return success", witness={"path": wit_ret})
    # positive controls: the guard does not swallow everything
    goodcuts = force(Es, True) | force(Ds, False) | force(Os, False) | force(Gs, True)
    ctx.ob("R11.1", "%s|build-steps-dominated-by-guard" % key, bool(forks) and fa.path([0], z1, cut_edges=frozenset(goodcuts), incl=True) is not None and
           fa.path([0], z1, cut_edges=frozenset(force(Es, False)), incl=True) is not None, where=SS.span,
           detail="a generated, not overridden target and a missing target still reach the build steps")
    reach_o = fa.reach_incl([0], cut_edges=frozenset(assigns["override"]), forced_calls=forced["override"])
    statics = [i for i in ba.calls(r"state::File::set_static") if i in reach_o and not (z1 and ba.dominates(z1[0], i))]
    ctx.ob("R11.1", "%s|set_static-only-if-not-override" % key, not statics, where=ctx.where(SS, statics[0]) if statics else SS.span,
           detail="set_static (which clears the override flag) is not reachable for an overridden file" if not statics else "an overridden target is turned back into a plain source, losing the override flag")
    clearers = override_clearers(ctx, prog)
    so_ = set(ba.calls(r"state::File::set_override"))
    clear_calls = [i for i in ba.all_calls() if i not in so_ and any(p_ in clearers for p_ in callee_paths(SS.blocks[i]["term"]))]
    ctx.floor("R11.1", "File methods that clear the override flag", len(clearers), 3)
    hit = [c for c in clear_calls if c in reach_o]
    ctx.ob("R11.1", "%s|override-side-keeps-the-flag" % key, not hit, where=ctx.where(SS, hit[0]) if hit else SS.span,
           detail="for an overridden file nothing clears the override flag" if not hit else
           "for an overridden file a File method that clears is_override (set_changed via update_stamp, set_static, ...) is called: the flag is lost and a later redo overwrites the user's file")
    ctx.rule("R11.13", "start_self, before the leave-alone guard: a File method that clears is_override (update_stamp -> set_changed, set_static, ...) is followed by set_override on every path to the guard - refreshing the stamp of an already overridden file after a second manual edit must not turn it back into redo's own output, which the guard then lets the .do overwrite")
    ctx.ob("R11.13", "%s|no-flag-clearing-before-the-guard" % key, not hit, where=ctx.where(SS, hit[0]) if hit else SS.span,
           detail="nothing clears the override flag of an overridden file" if not hit else "the override flag is cleared ahead of the guard")
    ctx.rule("R11.12", "the guard excepts directories (a target may be a directory) by looking at the entry itself, not through it: a symbolic link to a directory that the user made is a file redo did not produce, and is left alone")
    for (sw, t_t, f_t) in Ds:
        cbbs = [c for (s_, _, _, c) in ba.switches_on_call("|".join(re.escape(k) for k in sorted(dirtests))) if s_ == sw]
        kinds_ = {dirtests[q] for c in cbbs for q in callee_paths(SS.blocks[c]["term"]) if q in dirtests}
        if kinds_:
            ctx.ob("R11.12", "%s|guard-directory-test-is-lstat" % key, kinds_ == {"nofollow"}, where=ctx.where(SS, sw),
                   detail="the directory test does not follow symbolic links" if kinds_ == {"nofollow"} else "the directory test follows symbolic links")
    exact = ("R11.10", "R11.12")

    def opaque(kw_):
        """does the witness run through a branch on a computed flag (a bool with several definitions that FAL did not
        resolve)? Then the path may not be executable; without such a branch every decision on it is an atom or a
        condition of its own, and the finding stands."""
        pth = (kw_.get("witness") or {}).get("path") if isinstance(kw_.get("witness"), dict) else None
        if not pth:
            return True
        for b_ in pth:
            bs_ = ba.bool_switch(b_)
            if bs_ is not None and bs_[2][0] == "unknown":
                return True
        return False
    # sf.is_override read into an expression (`!(generated && !sf.is_override)`) instead of being branched on: the value
    # cannot be forced by cutting edges, so what the (E, !D, O) assignment finds is not reliable
    from core import rvalue_places as _rvp
    o_reads = sum(1 for blk_ in SS.blocks for st_ in blk_["stmts"] if st_["s"] == "assign" and st_["rv"]["k"] in ("use", "unop")
                  and any(place_fields(pl_)[-1:] == ["state::File.is_override"] for pl_ in _rvp(st_["rv"]) if pl_ is not None))
    o_opaque = o_reads > len(Os)
    o_keys = ("then-side(override)", "override-side-keeps-the-flag", "no-flag-clearing-before-the-guard", "set_static-only-if-not-override", "then-side-returns-success")

    def soft(k_, kw_):
        return opaque(kw_) or (o_opaque and any(x in k_ for x in o_keys))
    failed = [(rid_, k_) for (rid_, k_, ok_, kw_) in ctx.items if not ok_ and rid_ not in exact and soft(k_, kw_)]
    hard = [(rid_, k_) for (rid_, k_, ok_, kw_) in ctx.items if not ok_ and rid_ not in exact and not soft(k_, kw_)]
    if failed and not hard:
        from facts import AnchorError
        raise AnchorError("R11.1: the leave-alone guard of %s is not written in a shape the exact rule knows, and the truth-assignment check could not establish: %s" % (key, ", ".join(k_.split("|", 1)[1] for _, k_ in failed)))
    for (rid_, k_, ok_, kw_) in ctx.items:
        real_ctx.ob(rid_, k_, ok_, **kw_)
    ctx = real_ctx
    # the guard's own presence test, for the rules that speak of "before the guard": the one closest to the build steps
    gsw = [e[0] for e in guard_E]
    # (dominated by all the others, or - a presence test under a short-circuit dominates nothing - the one that runs last:
    # no other presence test is reachable from it)
    last_ = [g for g in gsw if not any(o != g and ba.path([g], [o], incl=True) is not None for o in gsw)]
    E = next((g for g in gsw if all(ba.dominates(o, g) for o in gsw)), last_[0] if len(last_) == 1 else (gsw[-1] if gsw else Es[0][0]))
    # R11.2 speaks of "before the guard"; with the guard located only approximately its failures are `cannot decide` too
    buf = _Buf()
    _r11_rest(buf, prog, SS, E)
    failed = [(rid_, k_) for (rid_, k_, ok_, kw_) in buf.items if not ok_ and rid_ == "R11.2" and SS.key in k_]
    if failed and not hard:
        from facts import AnchorError
        raise AnchorError("R11.2: with the leave-alone guard of %s located only approximately, not established: %s" % (key, ", ".join(k_.split("|", 1)[1] for _, k_ in failed)))
    for (rid_, k_, ok_, kw_) in buf.items:
        real_ctx.ob(rid_, k_, ok_, **kw_)


def override_clearers(ctx, prog):
    clearers = set()
    for b in prog.bodies.values():
        if not b.key.startswith("state::File::"):
            continue
        for _, _, st_ in field_writes(b, r"state::File\.is_override"):
            c_ = op_const(st_["rv"].get("op")) if st_["rv"]["k"] == "use" else None
            if c_ is not None and c_.get("bool") is False:
                clearers.add(b.key)
    changed_ = True
    while changed_:
        changed_ = False
        for b in prog.bodies.values():
            if b.key.startswith("state::File::") and b.key not in clearers and any(t == k_ for k_ in clearers for (_, t, kind) in ctx.cg.site_edges.get(b.key, []) if kind == "direct"):
                clearers.add(b.key)
                changed_ = True
    return clearers


def dir_test_functions(prog):
    """{callee path: 'follow' | 'nofollow'}: the ways to ask 'is this path a directory': Path::is_dir (follows symbolic
    links) and every local helper returning bool whose body asks Metadata::is_dir / FileType::is_dir of a stat result -
    'nofollow' when every stat in it is an lstat (symlink_metadata / lstat), else 'follow'."""
    out = {"std::path::Path::is_dir": "follow"}
    for k, b in prog.bodies.items():
        if not b.locals or b.locals[0] != "bool" or b.kind.lower() not in ("fn", "assocfn", "method"):
            continue
        ks = [k] + [c for c in prog.bodies if c.startswith(k + "::{closure")]
        calls = []
        for kk in ks:
            bb_ = prog.bodies[kk]
            calls += [callee_paths(bb_.blocks[i]["term"]) for i in BA.of(bb_).all_calls()]
        flat = [q for ps in calls for q in ps]
        if not any(re.fullmatch(r"std::fs::Metadata::is_dir|std::fs::FileType::is_dir|std::path::Path::is_dir", q) for q in flat):
            continue
        follow = any(re.fullmatch(_FOLLOW, q) or q == "std::path::Path::is_dir" for q in flat)
        nofollow = any(re.fullmatch(_NOFOLLOW, q) for q in flat)
        if follow or nofollow:
            out[k] = "follow" if follow else "nofollow"
    return out


def existence_tests(B, t_taint):
    """[(switch_bb, exists_target, missing_target, 'follow'|'nofollow')]: the branches of body B that decide whether the
    path in `t_taint` exists - `p.exists()` / `p.is_file()`, `p.metadata().is_ok()` (all follow symbolic links),
    `p.symlink_metadata().is_ok()` / `is_err()` / a match on it (do not), `!stamp.is_missing()` on the stamp that
    File::read_stamp (an lstat) returned."""
    ba = BA.of(B)
    out = []
    for (sw, t_t, f_t, cbb) in ba.switches_on_call(r"std::path::Path::(exists|is_file|is_symlink)"):
        t = B.blocks[cbb]["term"]
        if _arg_in(ba, t["args"][0], t_taint):
            out.append((sw, t_t, f_t, "nofollow" if call_matches(t, r"std::path::Path::is_symlink") else "follow"))

    def stat_call_of(l):
        """the stat-like call (block) whose result local l holds or borrows"""
        sl, org, _ = backward_direct(B, l, depth=12)
        for o in org:
            if o[0] == "call" and (call_matches(o[2], _FOLLOW) or call_matches(o[2], _NOFOLLOW)) and o[2].get("args") and _arg_in(ba, o[2]["args"][0], t_taint):
                return o[2]
        return None
    for (sw, t_t, f_t, cbb) in ba.switches_on_call(r"core::result::Result::(is_ok|is_err)|core::option::Option::(is_some|is_none)"):
        t = B.blocks[cbb]["term"]
        a = op_local(t["args"][0])
        st = stat_call_of(a) if a is not None else None
        if st is None:
            continue
        neg = call_matches(t, r"core::result::Result::is_err|core::option::Option::is_none")
        out.append((sw, f_t if neg else t_t, t_t if neg else f_t, "nofollow" if call_matches(st, _NOFOLLOW) else "follow"))
    for sw in sorted(ba.live):
        es = ba.enum_switch(sw)
        if not es or es[0]["p"]:
            continue
        st = stat_call_of(es[0]["l"])
        if st is None:
            continue
        ty = B.locals[es[0]["l"]]
        if not ty.startswith("core::result::Result<"):
            continue
        arms, other = es[1], es[2]
        ok_t = arms.get(0, other)
        err_t = arms.get(1, other)
        if ok_t != err_t:
            out.append((sw, ok_t, err_t, "nofollow" if call_matches(st, _NOFOLLOW) else "follow"))
    for (sw, t_t, f_t, cbb) in ba.switches_on_call(r"state::Stamp::is_missing"):
        t = B.blocks[cbb]["term"]
        a = op_local(t["args"][0])
        sl, org, _ = backward_direct(B, a, depth=12) if a is not None else (set(), [], None)
        if any(o[0] == "call" and call_matches(o[2], r"state::File::read_stamp") for o in org):
            out.append((sw, f_t, t_t, "nofollow"))
    return out


def _arg_in(ba, a, tset):
    l = op_local(a)
    if l is None:
        return False
    return l in tset or any(x in tset for x in ba.ref_chain(l)) or bool(backward_direct(ba.b, l)[0] & tset)


def _mentions_named(D, t, named):
    ba = BA.of(D)
    for a in t["args"]:
        c = op_const(a)
        if c and c.get("named") == named:
            return True
        l = op_local(a)
        if l is None:
            continue
        for x in ba.ref_chain(l):
            dd = ba.single_def(x)
            if dd and dd[0] == "stmt":
                for c in __import__("core").rvalue_consts(dd[3]):
                    if c.get("named") == named:
                        return True
    return False


def forget_missing_target(ctx, rid):
    """R11.5: a generated target that vanished is forgotten (is_generated := false, saved), only when the new stamp
    is MISSING. (Local generalisation of rules.dirt.forget_missing_target, which recognises the MISSING test only as
    `newstamp == Stamp::MISSING`: here the test may equally be `!=` with the arms swapped, `is_missing()`, negated,
    or held in a local; the edge that must dominate the write is the one on which the stamp *is* MISSING.)"""
    prog = ctx.prog
    D = anchors.dirtiness(prog)
    ba = BA.of(D)
    w = [x for x in field_writes(D, r"state::File\.is_generated")]
    saves = ba.calls(r"state::File::save")
    ok = False
    det = "no write of is_generated in the dirtiness routine"
    if w:
        # edges on which the freshly read stamp is MISSING
        miss_edges = []
        for (sw, t_t, f_t, cbb) in common.switches_on_call_value(D, r".*core::cmp::PartialEq.*::eq"):
            if _mentions_named(D, D.blocks[cbb]["term"], "state::Stamp::MISSING"):
                miss_edges.append((sw, t_t))
        for (sw, t_t, f_t, cbb) in common.switches_on_call_value(D, r".*core::cmp::PartialEq.*::ne"):
            if _mentions_named(D, D.blocks[cbb]["term"], "state::Stamp::MISSING"):
                miss_edges.append((sw, f_t))
        for (sw, t_t, f_t, cbb) in common.switches_on_call_value(D, r"state::Stamp::is_missing"):
            miss_edges.append((sw, t_t))
        gen_edges = [(sw, t_t) for (sw, t_t, f_t, cbb) in common.switches_on_call_value(D, r"state::File::is_generated")]
        res = []
        for (wb, j, st) in w:
            c = op_const(st["rv"].get("op")) if st["rv"]["k"] == "use" else None
            is_false = c is not None and c.get("bool") is False
            dom = any(ba.edge_dominates(e, wb) for e in miss_edges)
            saved = bool(saves) and ba.path([wb], ba.returns(), avoid=frozenset(saves), incl=True) is None
            gen = any(ba.edge_dominates(e, wb) for e in gen_edges)
            res.append((is_false, dom, gen, saved))
        ok = all(all(r) for r in res)
        bad = [r for r in res if not all(r)]
        det = "is_generated := false is saved, only for a generated file whose new stamp is MISSING" if ok else \
            "forgetting a vanished target is not (false=%s, under MISSING=%s, under is_generated=%s, saved=%s)" % bad[0]
    ctx.ob(rid, "%s|vanished-target-forgotten" % D.key, ok, where=ctx.where(D, w[0][0]) if w else D.span, detail=det)


TEMPDIR = re.compile(r"tempfile::(dir::)?tempdir|tempfile::(dir::)?TempDir::new")
INSIDE = re.compile(r"tempfile::(dir::)?TempDir::path|std::path::Path::join|std::path::PathBuf::push")


def mutated_path_operands(t):
    """Operands of a filesystem-mutator call that name what is created / changed / removed."""
    ps = callee_paths(t)
    a = t["args"]
    if any(re.fullmatch(r"std::os::unix::fs::symlink|std::fs::(hard_link|soft_link)", p) for p in ps):
        return a[1:2]
    if any(re.fullmatch(r"std::fs::(rename|copy)", p) for p in ps):
        return a[0:2]
    if any(p == "std::io::copy::copy" or "tempfile" in p for p in ps):
        return []
    return a[0:1]


def in_fresh_tempdir(body, i):
    """Does mutator call `i` of `body` touch only paths inside a directory that this body has itself just created
    with tempfile::tempdir() (the path operand is a direct alias of TempDir::path(), possibly joined / pushed)?"""
    ba = BA.of(body)
    srcs = ba.calls(TEMPDIR)
    if not srcs:
        return False
    tl = taint(body, seeds={body.blocks[c]["term"]["dest"]["l"] for c in srcs}, mode="direct", through=INSIDE)
    ok = common.in_set(body, tl)
    ops = mutated_path_operands(body.blocks[i]["term"])
    return bool(ops) and all(op_local(o) is not None and ok(op_local(o)) for o in ops)
