"""Rule instances shared by several properties."""
import re

import anchors
from core import (BA, call_matches, callee_paths, op_local, op_place, op_const, const_int, const_str, taint,
                  closure_sites, upvar_index, place_fields, rvalue_places, field_writes, str_consts)
from facts import strip_generics

PUSH = re.compile(r"futures_util::stream::futures_unordered::FuturesUnordered::push")
DRAINERS = re.compile(r"futures_util::stream::stream::StreamExt::(fold|for_each|collect|count|for_each_concurrent)")
RETURNS_ERR = "core::result::Result"


def ordinal_keys(items):
    """items: [(name, payload)] in program order -> [(name#k, payload)] with per-name ordinals."""
    seen = {}
    out = []
    for name, payload in items:
        k = seen.get(name, 0)
        seen[name] = k + 1
        out.append(("%s#%d" % (name, k), payload))
    return out


def short(path):
    p = strip_generics(path or "?")
    p = re.sub(r"<([^<>]*?) as [^<>]*>", r"\1", p)
    return p


def try_source_name(body, src):
    if src is None:
        return "expr"
    return short(callee_paths(src[1])[0])


def drain_ready_blocks(S):
    """Blocks entered when an await that drains the job-future stream completes: an `.await`
    whose polled future is the result of StreamExt::fold/for_each/collect/count."""
    ba = BA.of(S)
    out = []
    for (poll_bb, y, ready, callee) in ba.awaits():
        if re.search(r"stream::stream::(fold::Fold|for_each::ForEach|collect::Collect|count::Count)", callee or ""):
            if ready is not None:
                out.append(ready)
    return out


def no_abandonment(ctx, rid, S):
    """R5.6 / R6.5: once a job future may have been pushed, the body that owns the job-future
    stream does not return without a completed drain of the stream. If the scheduling passes
    (S, the body that pushes) are a coroutine nested in the owner O and awaited there, any exit of S
    is fine as long as every path in O from S's completion to O's return passes the drain."""
    prog = ctx.prog
    O = anchors.stream_owner(prog)
    oba = BA.of(O)
    sba = BA.of(S)
    pushes = sba.calls(PUSH)
    ctx.floor(rid, "job-future push sites in the scheduler", len(pushes), 2)
    drains = drain_ready_blocks(O)
    ctx.floor(rid, "awaited drain of the job-future stream in its owner", len(drains), 1)
    if not pushes or not drains:
        return
    # the drain must be of *this* stream and must be the last thing before the result is produced
    if O.key == S.key:
        starts = pushes
        ba = sba
        B = S
    else:
        # S must be constructed and awaited by O (directly nested coroutine)
        aw = [(p, y, r, c) for (p, y, r, c) in oba.awaits() if c == S.key]
        nested = strip_generics(S.parent or "") == O.key and len(aw) >= 1
        if not ctx.ob(rid, "%s|passes-awaited-by-stream-owner" % S.key, nested, where=S.span,
                      detail="the scheduling passes are a coroutine awaited by %s, which owns the stream" % O.key if nested else
                      "the body that pushes job futures is neither the stream owner nor awaited by it"):
            return
        starts = [p for (p, y, r, c) in aw]      # from the first poll of S on: S may have pushed
        ba = oba
        B = O
    rets = ba.returns()
    tries = ba.try_sites()
    after = ba.reach_from(starts, avoid=frozenset(drains))   # reachable before any drain completed
    named = ordinal_keys([(try_source_name(B, src), (br, brk, cont, src)) for (br, brk, cont, src) in sorted(tries)])
    residuals = set()
    for name, (br, brk, cont, src) in named:
        if brk is None:
            continue
        residuals.add(brk)
        if brk not in after:
            continue
        p = ba.path([brk], rets, avoid=frozenset(drains), incl=True)
        ctx.ob(rid, "%s|early-return-via-?|%s" % (B.key, name), p is None, where=ctx.where(B, br),
               detail=("`?` on %s returns while job futures (and the locks they own) may be outstanding; "
                       "path to return avoids the drain" % name) if p else "error edge passes the drain",
               witness={"path": p[:12] if p else None})
    p = ba.path(starts, rets, avoid=frozenset(drains) | residuals)
    ctx.ob(rid, "%s|every-exit-drains" % B.key, p is None, where=ctx.where(B, p[-1]) if p else B.span,
           detail="a path from the first possible push to return avoids the drain" if p else "every exit after the first possible push passes the drain of the job-future stream",
           witness={"path": p[:20] if p else None})
    if O.key != S.key:
        # the suspended passes are not dropped half-way either: O awaits S to completion before draining
        readies = [r for (p_, y, r, c) in oba.awaits() if c == S.key and r is not None]
        ok = all(any(oba.dominates(r, d) for r in readies) for d in drains)
        ctx.ob(rid, "%s|drain-after-passes-complete" % O.key, ok, where=O.span, detail="the drain is dominated by the completion of the scheduling passes")


def cmp_const_switches(body, value=0):
    """[(switch_bb, ne_target, eq_target, operand_local)] bool switches on `x != value` / `x == value`."""
    ba = BA.of(body)
    out = []
    for i in sorted(ba.live):
        bs = ba.bool_switch(i)
        if not bs:
            continue
        t_t, f_t, (kind, info) = bs
        if kind != "binop":
            continue
        rv = info[1]
        if rv["op"] not in ("Ne", "Eq"):
            continue
        ca, cb = const_int(rv["a"]), const_int(rv["b"])
        if cb == value and op_local(rv["a"]) is not None:
            x = op_local(rv["a"])
        elif ca == value and op_local(rv["b"]) is not None:
            x = op_local(rv["b"])
        else:
            continue
        if rv["op"] == "Ne":
            out.append((i, t_t, f_t, x))
        else:
            out.append((i, f_t, t_t, x))
    # `match x { VALUE => .., _ => .. }`: SwitchInt on the integer itself
    for i in sorted(ba.live):
        t = body.blocks[i]["term"]
        if t["t"] != "switch" or t["discr_ty"] in ("bool", "isize") or "enum" in t:
            continue
        if not re.fullmatch(r"[iu](8|16|32|64|128|size)", t["discr_ty"]):
            continue
        arms = {v: tg for v, tg in t["arms"]}
        if value in arms and len(arms) == 1:
            x = op_local(t["discr"])
            if x is not None:
                # follow a plain copy `_n = x`
                d = ba.single_def(x)
                if d and d[0] == "stmt" and d[3]["k"] == "use" and op_local(d[3]["op"]) is not None and not op_place(d[3]["op"])["p"]:
                    x = op_local(d[3]["op"])
                out.append((i, t["otherwise"], arms[value], x))
    return out


def field_switches(body, field):
    """[(switch_bb, true_target, false_target)] bool switches on a place whose last field is `field`."""
    ba = BA.of(body)
    out = []
    for i in sorted(ba.live):
        bs = ba.bool_switch(i)
        if not bs:
            continue
        t_t, f_t, (kind, info) = bs
        if kind == "place" and place_fields(info)[-1:] == [field]:
            out.append((i, t_t, f_t))
    return out


def agg_in_block(body, bb, adt_rx, variant=None):
    blk = body.blocks[bb]
    for s in blk["stmts"]:
        if s["s"] == "assign" and s["rv"]["k"] == "agg" and s["rv"].get("agg") == "adt" and re.fullmatch(adt_rx, s["rv"]["adt"]):
            if variant is None or s["rv"]["variant"] == variant:
                return s
    return None


def blocks_with_agg(body, adt_rx, variant=None):
    ba = BA.of(body)
    return [i for i in sorted(ba.live) if not body.is_cleanup(i) and agg_in_block(body, i, adt_rx, variant) is not None]


def ret_const_assigns(body):
    """[(bb, const)] assignments of a constant to the return place `_0`."""
    out = []
    live = body.reachable()
    for i, blk in enumerate(body.blocks):
        if i not in live or blk.get("cleanup"):
            continue
        for s in blk["stmts"]:
            if s["s"] == "assign" and s["place"]["l"] == 0 and not s["place"]["p"] and s["rv"]["k"] == "use" and "const" in s["rv"]["op"]:
                out.append((i, s["rv"]["op"]["const"]))
    return out


def reads_field(body, rv, field, depth=6):
    """Does rvalue `rv` read (directly or through a short chain of temporaries) a place whose
    last field is `field`?"""
    ba = BA.of(body)
    todo = [(rv, 0)]
    seen = set()
    while todo:
        r, d = todo.pop()
        for p in rvalue_places(r):
            if field in place_fields(p):
                return True
            if d < depth and p["l"] not in seen:
                seen.add(p["l"])
                for df in ba.defs.get(p["l"], []):
                    if df[0] == "stmt":
                        todo.append((df[3], d + 1))
                    elif df[0] == "call":
                        for a in df[2]["args"]:
                            ap = op_place(a)
                            if ap is not None:
                                if field in place_fields(ap):
                                    return True
                                todo.append(({"k": "use", "op": a}, d + 1))
    return False


def mpt(ctx, rid, key, body, A, B, M, ok_detail, bad_detail, incl=True, where_bb=None, require=True):
    """Must-pass-through: every normal-flow path from a block of A to a block of B contains a block
    of M. A/B/M are block lists. Empty A or B is a missing anchor (fails unless require=False)."""
    ba = BA.of(body)
    A, B, M = list(A), list(B), set(M)
    if not A or not B:
        return ctx.ob(rid, key, not require, where=body.span, detail="anchor missing (from=%d to=%d via=%d): %s" % (len(A), len(B), len(M), bad_detail))
    p = ba.path(A, B, avoid=frozenset(M), incl=incl)
    ok = p is None and bool(M)
    return ctx.ob(rid, key, ok, where=ctx.where(body, where_bb if where_bb is not None else (p[-1] if p else A[0])),
                  detail=ok_detail if ok else bad_detail, witness={"path": p[:25] if p else None})


def not_reach(ctx, rid, key, body, A, B, ok_detail, bad_detail, avoid=(), incl=True):
    """No normal-flow path from A to B (optionally avoiding blocks)."""
    ba = BA.of(body)
    p = ba.path(list(A), list(B), avoid=frozenset(avoid), incl=incl) if A and B else None
    return ctx.ob(rid, key, p is None, where=ctx.where(body, p[-1]) if p else body.span,
                  detail=ok_detail if p is None else bad_detail, witness={"path": p[:25] if p else None})


def entry(body):
    return [0]


def ok_returns(body):
    """Blocks that build the function's `Ok(..)` result (`_0 = Result::Ok{..}`)."""
    out = []
    ba = BA.of(body)
    for i in sorted(ba.live):
        if body.is_cleanup(i):
            continue
        for s in body.blocks[i]["stmts"]:
            if s["s"] == "assign" and s["place"]["l"] == 0 and not s["place"]["p"] and s["rv"]["k"] == "agg" and s["rv"].get("adt") == "core::result::Result" and s["rv"]["variant"] == "Ok":
                out.append(i)
    return out


def ret_assign_blocks(body, pred):
    """Blocks assigning `_0` from an rvalue satisfying pred(rv)."""
    out = []
    ba = BA.of(body)
    for i in sorted(ba.live):
        if body.is_cleanup(i):
            continue
        for s in body.blocks[i]["stmts"]:
            if s["s"] == "assign" and s["place"]["l"] == 0 and not s["place"]["p"] and pred(s["rv"]):
                out.append(i)
    return out


def verdict_returns(body, variant):
    """Blocks where the dirtiness routine's result is set to Ok(Dirtiness::<variant>):
    `_0 = Ok(move x)` with x assigned a Dirtiness::<variant> aggregate (same or dominating block)."""
    ba = BA.of(body)
    out = []
    for i in ok_returns(body):
        for s in body.blocks[i]["stmts"]:
            if s["s"] == "assign" and s["place"]["l"] == 0 and s["rv"]["k"] == "agg":
                o = s["rv"]["ops"][0]
                c = op_const(o)
                l = op_local(o)
                if l is None:
                    continue
                for d in ba.defs.get(l, []):
                    if d[0] == "stmt" and d[3]["k"] == "agg" and d[3].get("adt") == "deps::Dirtiness" and d[3]["variant"] == variant:
                        # the block where this verdict is chosen (the `_0 = Ok(..)` may sit in a join block)
                        out.append(d[1])
    return sorted(set(out))


def error_blocks(body):
    """Blocks that run only while the body (or a Result-returning helper that canon inlined into it) is giving up
    with an error: the residual arm of every `?`, and every block that builds a `Result::Err` value which is returned
    or handed to a `?` by plain moves. Path rules stated "on the non-error paths" avoid these blocks; this also removes
    the infeasible paths an inlined helper creates (helper builds Err -> join -> caller's `?` takes the Continue arm)."""
    ba = BA.of(body)
    tries = ba.try_sites()
    out = {brk for (_, brk, _, _) in tries if brk is not None}
    sinks = {0}
    for (br, _, _, _) in tries:
        l = op_local(body.blocks[br]["term"]["args"][0])
        if l is not None:
            sinks.add(l)
    changed = True
    while changed:
        changed = False
        for blk in body.blocks:
            for s in blk["stmts"]:
                if s["s"] == "assign" and not s["place"]["p"] and s["place"]["l"] in sinks and s["rv"]["k"] == "use":
                    p = op_place(s["rv"]["op"])
                    if p is not None and not p["p"] and p["l"] not in sinks:
                        sinks.add(p["l"])
                        changed = True
    for i in sorted(ba.live):
        if body.is_cleanup(i):
            continue
        for s in body.blocks[i]["stmts"]:
            if (s["s"] == "assign" and not s["place"]["p"] and s["place"]["l"] in sinks and s["rv"]["k"] == "agg"
                    and s["rv"].get("adt") == "core::result::Result" and s["rv"].get("variant") == "Err"):
                out.add(i)
    return out


def dominates_nonerror(body, a, b, err=None):
    """Block a lies on every non-error path from entry to block b (see error_blocks)."""
    ba = BA.of(body)
    if err is None:
        err = error_blocks(body)
    if b not in ba.live:
        return False
    return ba.path([0], [b], avoid=frozenset(err) | {a}, incl=True) is None


# ------------------------------------------------------------------------------------------------
# name-free access paths (added for the builder rules C04/C05/C11/C13)

def _own_fields(p):
    """Field projections of a place without the closure-environment pseudo fields."""
    return [f for f in place_fields(p) if not f.startswith("upvar.")]


def origin_paths(body, l, depth=120):
    """Backward slice of local `l` through *direct* steps only (moves, borrows, derefs, field projections,
    casts and the identity-preserving calls of core.IDENTITY_CALLS), remembering the field projections met on
    the way. Returns a set of (root, fields): root is ('upvar', idx) for a captured variable of a closure /
    coroutine body, ('param', n) for a parameter, ('def', n) for a local whose definition is not a direct step
    (a non-identity call, an aggregate, arithmetic); `fields` is the tuple of canonical 'Type.field' names
    applied to the root, outermost object first. Independent of local-variable names and of the number of
    temporaries / reborrows between the root and `l` (e.g. after a helper was inlined)."""
    from core import IDENTITY_CALLS
    ba = BA.of(body)
    out = set()
    seen = set()
    todo = [(l, ())]
    while todo and len(seen) < depth * 4:
        x, suffix = todo.pop()
        if x is None or (x, suffix) in seen:
            continue
        seen.add((x, suffix))
        ds = [d for d in ba.defs.get(x, []) if d[0] in ("stmt", "call", "yield")]
        if not ds:
            if 1 <= x <= body.arg_count:
                out.add((("param", x), suffix))
            else:
                out.add((("def", x), suffix))
            continue
        if 1 <= x <= body.arg_count:
            out.add((("param", x), suffix))
        for d in ds:
            if d[0] == "stmt":
                rv = d[3]
                ps = rvalue_places(rv)
                if rv["k"] in ("use", "ref", "cast", "rawptr") and len(ps) == 1:
                    p = ps[0]
                    nf = tuple(_own_fields(p)) + suffix
                    u = upvar_index(p)
                    if u is not None:
                        out.add((("upvar", u[0]), nf))
                    else:
                        todo.append((p["l"], nf))
                else:
                    out.add((("def", x), suffix))
            elif d[0] == "call":
                t = d[2]
                if any(IDENTITY_CALLS.fullmatch(p) for p in callee_paths(t)) and t["args"]:
                    for a in t["args"]:
                        p = op_place(a)
                        if p is None:
                            continue
                        nf = tuple(_own_fields(p)) + suffix
                        u = upvar_index(p)
                        if u is not None:
                            out.add((("upvar", u[0]), nf))
                        else:
                            todo.append((p["l"], nf))
                else:
                    out.add((("def", x), suffix))
            else:
                out.add((("def", x), suffix))
    return out


def operand_origin_paths(body, o):
    """origin_paths of a call operand (the operand may itself be a projected place)."""
    p = op_place(o)
    if p is None:
        return set()
    u = upvar_index(p)
    if u is not None:
        return {(("upvar", u[0]), tuple(_own_fields(p)))}
    return {(root, fields + tuple(_own_fields(p))) for (root, fields) in origin_paths(body, p["l"])}


def captured_from(parent, closure_key):
    """{upvar index: set of parent locals} for the closure / coroutine `closure_key` constructed in `parent`:
    the parent locals each captured variable is (a borrow / move of), whatever the variable is called."""
    pba = BA.of(parent)
    out = {}
    for (bb, j, dest, k, ops) in closure_sites(parent, closure_key):
        for n, o in enumerate(ops):
            l = op_local(o)
            if l is None:
                continue
            s = out.setdefault(n, set())
            s.add(l)
            s.update(pba.ref_chain(l))
    return out


def upvars_bound_to(parent, closure_key, pred):
    """Upvar indices of `closure_key` whose captured parent local satisfies pred(local)."""
    return {n for n, ls in captured_from(parent, closure_key).items() if any(pred(l) for l in ls)}


def in_set(body, tset):
    """Predicate on locals of `body`: the local, or what it borrows / moves from, is in `tset`."""
    ba = BA.of(body)
    return lambda l: l is not None and (l in tset or any(x in tset for x in ba.ref_chain(l)))


def struct_fields_of(body, l):
    """If local `l` is (a move / borrow of) a struct value built by one aggregate statement of this body:
    [(canonical 'Type.field', operand)], else None. (A parameter struct bundling several arguments.)"""
    ba = BA.of(body)
    for x in ba.ref_chain(l):
        ds = [d for d in ba.defs.get(x, []) if d[0] in ("stmt", "call", "yield")]
        if len(ds) == 1 and ds[0][0] == "stmt":
            rv = ds[0][3]
            if rv["k"] == "agg" and rv.get("agg") == "adt" and rv.get("fields") and len(rv["fields"]) == len(rv["ops"]):
                return [("%s.%s" % (rv["adt"], f), o) for f, o in zip(rv["fields"], rv["ops"])]
    return None


def call_arg_roles(caller, bb, pred):
    """Which parameters of the callee receive, at call site `bb` of `caller`, a value satisfying
    pred(caller local)? Returns {(param_no, field_prefix)}: param_no is 1-based; field_prefix is () for the
    whole parameter or ('Type.field',) when the argument is a struct built at the call site and only that field
    holds such a value. Independent of parameter order/count and of bundling arguments into a struct."""
    t = caller.blocks[bb]["term"]
    out = set()
    for n, a in enumerate(t["args"]):
        l = op_local(a)
        if l is None:
            continue
        sf = struct_fields_of(caller, l)
        if sf is not None:
            for fname, o in sf:
                if pred(op_local(o)):
                    out.add((n + 1, (fname,)))
        elif pred(l):
            out.add((n + 1, ()))
    return out


def role_src(roles):
    """(seeds, src_place) for core.taint from a set of (param_no, field_prefix) roles."""
    seeds = {n for (n, pref) in roles if not pref}
    prefs = [(n, pref) for (n, pref) in roles if pref]

    def src_place(p):
        if not prefs:
            return False
        fs = tuple(_own_fields(p))
        return any(p["l"] == n and fs[:len(pref)] == pref for (n, pref) in prefs)
    return seeds, src_place


def role_taint(body, roles, mode="direct", through=None):
    """Locals of `body` holding (direct aliases of / values derived from) the parameter roles."""
    if not roles:
        return set()
    seeds, src_place = role_src(roles)
    return taint(body, seeds=seeds, src_place=src_place, mode=mode, through=through)


def role_roots(body, l, roles):
    """Does local `l` go back (direct steps only) to one of the parameter roles?"""
    for (root, fields) in origin_paths(body, l):
        if root[0] != "param":
            continue
        for (n, pref) in roles:
            if root[1] == n and tuple(fields[:len(pref)]) == tuple(pref):
                return True
    return False


def upvar_taint(body, upvars, mode="direct", through=None):
    """Locals of a closure / coroutine body derived from the captured variables with the given indices."""
    if not upvars:
        return set()
    return taint(body, src_place=lambda p: (upvar_index(p) or (None, None))[0] in upvars, mode=mode, through=through)


def bool_value_calls(body, o, depth=12):
    """Calls whose boolean result may be the value of operand `o`: follows copies, `!` and locals assigned on
    several paths (the materialised form of `a || f()` / `a && f()` / `let x = ..; if x`: one definition per
    short-circuit side, constants on the sides decided without the call). Returns [(negated, call_bb, term)]."""
    ba = BA.of(body)
    out = []
    seen = set()
    todo = [(o, False, 0)]
    while todo:
        o, neg, d = todo.pop()
        p = op_place(o)
        if p is None or d > depth:
            continue
        if p["p"]:
            # the payload of a helper's `Ok(flag)` taken out with `?` (`x as Continue.0`, x = Try::branch(r), r = Ok{flag})
            # or matched directly (`r as Ok.0`)
            if len(p["p"]) == 2 and p["p"][0] in ("as:Continue", "as:Ok", "as:Some"):
                srcs = [p["l"]]
                if p["p"][0] == "as:Continue":
                    srcs = [op_local(df[2]["args"][0]) for df in ba.defs.get(p["l"], []) if df[0] == "call" and
                            any(re.fullmatch(r"(<.* as )?core::ops::try_trait::Try>?::branch", q) for q in callee_paths(df[2])) and df[2]["args"]]
                for s_ in srcs:
                    for df in ba.defs.get(s_, []) if s_ is not None else []:
                        if df[0] == "stmt" and df[3]["k"] == "agg" and df[3].get("variant") in ("Ok", "Some") and len(df[3]["ops"]) == 1:
                            todo.append((df[3]["ops"][0], neg, d + 1))
                        elif df[0] == "stmt" and df[3]["k"] == "use" and op_place(df[3]["op"]) is not None and not op_place(df[3]["op"])["p"]:
                            for df2 in ba.defs.get(op_place(df[3]["op"])["l"], []):
                                if df2[0] == "stmt" and df2[3]["k"] == "agg" and df2[3].get("variant") in ("Ok", "Some") and len(df2[3]["ops"]) == 1:
                                    todo.append((df2[3]["ops"][0], neg, d + 1))
            continue
        if (p["l"], neg) in seen:
            continue
        seen.add((p["l"], neg))
        for df in ba.defs.get(p["l"], []):
            if df[0] == "call":
                out.append((neg, df[1], df[2]))
            elif df[0] == "stmt":
                rv = df[3]
                if rv["k"] == "use":
                    todo.append((rv["op"], neg, d + 1))
                elif rv["k"] == "unop" and rv["op"] == "Not":
                    todo.append((rv["a"], not neg, d + 1))
    return out


def switches_on_call_value(body, rx):
    """Like BA.switches_on_call, but the tested boolean may reach the switch through a local that is assigned on
    several paths: [(switch_bb, true_target, false_target, call_bb)], targets w.r.t. the call's result."""
    if isinstance(rx, str):
        rx = re.compile(rx)
    ba = BA.of(body)
    out = []
    for i in sorted(ba.live):
        t = body.blocks[i]["term"]
        if t["t"] != "switch" or t["discr_ty"] != "bool":
            continue
        f_t = None
        for v, tg in t["arms"]:
            if v == 0:
                f_t = tg
        if f_t is None:
            continue
        t_t = t["otherwise"]
        for (neg, cbb, ct) in bool_value_calls(body, t["discr"]):
            if call_matches(ct, rx):
                out.append((i, f_t, t_t, cbb) if neg else (i, t_t, f_t, cbb))
    return out



def copy_root(body, l):
    """Follow whole-local `x = copy/move y` chains (single definition each) back to the first local."""
    ba = BA.of(body)
    seen = set()
    while l is not None and l not in seen:
        seen.add(l)
        d = ba.single_def(l)
        if d is None or d[0] != "stmt" or d[3]["k"] != "use":
            return l
        p = op_place(d[3]["op"])
        if p is None or p["p"]:
            return l
        l = p["l"]
    return l


def eq_const_edges(body, is_x, value):
    """CFG edges [(switch_bb, target)] taken exactly when `x == value`, for any local x accepted by
    is_x(local): the equal side of a bool switch on `x == value` / `x != value` (either operand order,
    through `!` and copies), and the `value` arm of an integer `match x` when that arm's target is not
    shared with another arm or with the default (`0 | 1 =>` yields no edge for 0)."""
    ba = BA.of(body)
    out = []
    for i in sorted(ba.live):
        t = body.blocks[i]["term"]
        if t["t"] != "switch":
            continue
        bs = ba.bool_switch(i)
        if bs:
            t_t, f_t, (kind, info) = bs
            if kind != "binop" or t_t == f_t:
                continue
            rv = info[1]
            if rv["op"] not in ("Eq", "Ne"):
                continue
            if const_int(rv["b"]) == value and is_x(op_local(rv["a"])):
                pass
            elif const_int(rv["a"]) == value and is_x(op_local(rv["b"])):
                pass
            else:
                continue
            out.append((i, t_t if rv["op"] == "Eq" else f_t))
        elif re.fullmatch(r"[iu](8|16|32|64|128|size)", t["discr_ty"]) and "enum" not in t:
            if not is_x(op_local(t["discr"])):
                continue
            arms = {v: tg for v, tg in t["arms"]}
            if value not in arms:
                continue
            others = [tg for v, tg in t["arms"] if v != value] + [t["otherwise"]]
            if arms[value] not in others:
                out.append((i, arms[value]))
    return out



# ------------------------------------------------------------------------------------------------
# appended: feasible-path variants (core.FA) and value-trace helpers used by the dirtiness-routine rules

def mpt_f(ctx, rid, key, body, A, B, M, ok_detail, bad_detail, incl=True, where_bb=None, require=True, cut_edges=()):
    """mpt() over *feasible* paths (core.FA): a path that takes a switch arm contradicting the known variant
    of the switched local (value joined before a re-split) is not a path."""
    from core import FA
    fa = FA.of(body)
    A, B, M = list(A), list(B), set(M)
    if not A or not B:
        return ctx.ob(rid, key, not require, where=body.span, detail="anchor missing (from=%d to=%d via=%d): %s" % (len(A), len(B), len(M), bad_detail))
    p = fa.path(A, B, avoid=frozenset(M), cut_edges=frozenset(cut_edges), incl=incl)
    ok = p is None and bool(M)
    return ctx.ob(rid, key, ok, where=ctx.where(body, where_bb if where_bb is not None else (p[-1] if p else A[0])),
                  detail=ok_detail if ok else bad_detail, witness={"path": p[:25] if p else None})


def not_reach_f(ctx, rid, key, body, A, B, ok_detail, bad_detail, avoid=(), incl=True, cut_edges=()):
    """not_reach() over feasible paths (core.FA)."""
    from core import FA
    fa = FA.of(body)
    p = fa.path(list(A), list(B), avoid=frozenset(avoid), cut_edges=frozenset(cut_edges), incl=incl) if A and B else None
    return ctx.ob(rid, key, p is None, where=ctx.where(body, p[-1]) if p else body.span,
                  detail=ok_detail if p is None else bad_detail, witness={"path": p[:25] if p else None})


def value_origins(body, local, depth=400, pend=()):
    """Where does the value of `local` come from?  Backward over whole-local moves/copies, variant payload
    reads (`x as V.f`), enum aggregates that wrap the value (`Some{x}` met while a `Some.0` read is pending) and
    `Try::branch`.  Returns [(kind, bb, info)]: ('agg', bb, rvalue) an aggregate built here *is* the value,
    ('call', bb, term) the value is a call result, ('other', bb, None) anything else (parameter, field, ...).
    A pending payload read that meets an aggregate of another variant is a dead end (no value flows).
    `pend` starts the walk inside a wrapper: pend=(("Ok", "0"),) asks for the origins of the Ok payload of `local`."""
    ba = BA.of(body)
    out = []
    seen = set()
    todo = [(local, tuple(pend))]
    n = 0
    while todo and n < depth:
        n += 1
        l, pend = todo.pop()
        if (l, pend) in seen:
            continue
        seen.add((l, pend))
        ds = [d for d in ba.defs.get(l, []) if d[0] in ("stmt", "call", "yield")]
        if not ds:
            out.append(("other", None, None))
        for d in ds:
            if d[0] == "call":
                t = d[2]
                if pend and pend[-1][0] == "Continue" and any(re.fullmatch(r"(<.* as )?core::ops::try_trait::Try>?::branch", p) for p in callee_paths(t)):
                    a = op_place(t["args"][0])
                    ty = (t.get("arg_tys") or [""])[0]
                    if a is not None and not a["p"]:
                        todo.append((a["l"], pend[:-1] + (("Ok" if ty.startswith("core::result::Result") else "Some", pend[-1][1]),)))
                        continue
                out.append(("call", d[1], t) if not pend else ("callpay", d[1], t))
                continue
            if d[0] == "yield":
                out.append(("other", d[1], None))
                continue
            rv = d[3]
            if rv["k"] == "use":
                p = op_place(rv["op"])
                if p is None:
                    out.append(("other", d[1], None))
                    continue
                proj = p["p"]
                np_ = pend
                ok = True
                i = 0
                add = []
                while i < len(proj):
                    if proj[i].startswith("as:") and i + 1 < len(proj) and proj[i + 1].startswith("f:"):
                        add.append((proj[i][3:], proj[i + 1][2:].rsplit(".", 1)[-1]))
                        i += 2
                    else:
                        ok = False
                        break
                if not ok:
                    out.append(("other", d[1], None))
                    continue
                # the innermost read is applied first: pending stack top = last element
                todo.append((p["l"], pend + tuple(reversed(add))))
            elif rv["k"] == "agg" and rv.get("agg") == "adt":
                if not pend:
                    out.append(("agg", d[1], rv))
                else:
                    var, fld = pend[-1]
                    if rv.get("variant") != var:
                        continue
                    for f, o in zip(rv.get("fields", []), rv["ops"]):
                        if f == fld:
                            q = op_place(o)
                            if q is not None and not q["p"]:
                                todo.append((q["l"], pend[:-1]))
                            else:
                                out.append(("other", d[1], None))
            else:
                out.append(("other", d[1], None))
    return out


def verdict_origins(body, variant, adt="deps::Dirtiness"):
    """Blocks where a `adt::<variant>` value that the routine returns as `Ok(..)` is built - followed through
    the locals / Option / Result wrappers a refactor may route the verdict through, and through a Result that is
    returned as a whole (generalises verdict_returns, which only looks one assignment back): the origins of the
    Ok payload of the return place."""
    out = set()
    for kind, bb, rv in value_origins(body, 0, pend=(("Ok", "0"),)):
        if kind == "agg" and rv.get("adt") == adt and rv.get("variant") == variant and bb in BA.of(body).live and not body.is_cleanup(bb):
            out.add(bb)
    return sorted(out)



# ------------------------------------------------------------------------------------------------
# appended (builder rules C04/C05/C11/C13, second robustness pass)

def const_origins(body, o, depth=400):
    """value_origins() of a call operand with constants kept: [(kind, bb, info)], kind 'const' (info = the constant,
    bb = the block where the constant enters the flow - an assignment, an aggregate field, the argument copy of a
    spliced helper - or None when the operand itself is the constant) next to value_origins' own kinds
    ('agg', 'call', 'callpay', 'other').  Followed through whole-local moves, locals assigned on several paths,
    enum payloads (`Settled(rv)` built in one place, matched in another) and `?`."""
    c = op_const(o)
    if c is not None:
        return [("const", None, c)]
    p0 = op_place(o)
    if p0 is None or p0["p"]:
        return [("other", None, None)]
    ba = BA.of(body)
    out = []
    seen = set()
    todo = [(p0["l"], ())]
    n = 0
    while todo and n < depth:
        n += 1
        l, pend = todo.pop()
        if (l, pend) in seen:
            continue
        seen.add((l, pend))
        ds = [d for d in ba.defs.get(l, []) if d[0] in ("stmt", "call", "yield")]
        if not ds:
            out.append(("other", None, None))
        for d in ds:
            if d[0] == "call":
                t = d[2]
                if pend and pend[-1][0] == "Continue" and any(re.fullmatch(r"(<.* as )?core::ops::try_trait::Try>?::branch", q) for q in callee_paths(t)):
                    a = op_place(t["args"][0])
                    ty = (t.get("arg_tys") or [""])[0]
                    if a is not None and not a["p"]:
                        todo.append((a["l"], pend[:-1] + (("Ok" if ty.startswith("core::result::Result") else "Some", pend[-1][1]),)))
                        continue
                out.append(("call", d[1], t) if not pend else ("callpay", d[1], t))
                continue
            if d[0] == "yield":
                out.append(("other", d[1], None))
                continue
            rv = d[3]
            if rv["k"] == "use":
                cc = op_const(rv["op"])
                if cc is not None:
                    out.append(("const", d[1], cc) if not pend else ("other", d[1], None))
                    continue
                p = op_place(rv["op"])
                if p is None:
                    out.append(("other", d[1], None))
                    continue
                proj = p["p"]
                ok = True
                i = 0
                add = []
                while i < len(proj):
                    if proj[i].startswith("as:") and i + 1 < len(proj) and proj[i + 1].startswith("f:"):
                        add.append((proj[i][3:], proj[i + 1][2:].rsplit(".", 1)[-1]))
                        i += 2
                    else:
                        ok = False
                        break
                if not ok:
                    out.append(("other", d[1], None))
                    continue
                todo.append((p["l"], pend + tuple(reversed(add))))
            elif rv["k"] == "agg" and rv.get("agg") == "adt":
                if not pend:
                    out.append(("agg", d[1], rv))
                else:
                    var, fld = pend[-1]
                    if rv.get("variant") != var:
                        continue
                    for f, fo in zip(rv.get("fields", []), rv["ops"]):
                        if f == fld:
                            cc = op_const(fo)
                            q = op_place(fo)
                            if cc is not None and len(pend) == 1:
                                out.append(("const", d[1], cc))
                            elif q is not None and not q["p"]:
                                todo.append((q["l"], pend[:-1]))
                            else:
                                out.append(("other", d[1], None))
            else:
                out.append(("other", d[1], None))
    return out


def const_int_entry_blocks(body, call_bb, argno, value):
    """Blocks at which the integer constant `value` is chosen as (a possible) argument `argno` of the call at
    `call_bb`: the call block itself for a literal operand, else where the constant enters the value's flow."""
    out = []
    for kind, bb, c in const_origins(body, body.blocks[call_bb]["term"]["args"][argno]):
        if kind == "const" and c.get("int") == value:
            out.append(call_bb if bb is None else bb)
    return out


def role_ftaint(body, roles, through=None):
    """role_taint(mode='direct') computed field-sensitively (core.ftaint): locals of `body` that are direct aliases
    of the parameter roles, also when the callee first packs its parameters into a struct of its own and works on
    the struct's fields (through `self` of spliced methods) - one field does not stand for its siblings."""
    if not roles:
        return set()
    from core import ftaint
    return ftaint(body, seeds={n for (n, pref) in roles if not pref}, seed_paths=[(n, tuple(pref)) for (n, pref) in roles if pref], through=through)


def mpt_fl(ctx, rid, key, body, A, B, M, ok_detail, bad_detail, incl=True, where_bb=None, require=True, cut_edges=()):
    """mpt_f() on core.FAL (feasible paths with liveness-pruned states: exact on the large builder bodies, where
    core.FA exceeds its state cap and falls back to plain block paths)."""
    from core import FAL
    fa = FAL.of(body)
    A, B, M = list(A), list(B), set(M)
    if not A or not B:
        return ctx.ob(rid, key, not require, where=body.span, detail="anchor missing (from=%d to=%d via=%d): %s" % (len(A), len(B), len(M), bad_detail))
    p = fa.path(A, B, avoid=frozenset(M), cut_edges=frozenset(cut_edges), incl=incl)
    ok = p is None and bool(M)
    return ctx.ob(rid, key, ok, where=ctx.where(body, where_bb if where_bb is not None else (p[-1] if p else A[0])),
                  detail=ok_detail if ok else bad_detail, witness={"path": p[:25] if p else None})


def not_reach_fl(ctx, rid, key, body, A, B, ok_detail, bad_detail, avoid=(), incl=True, cut_edges=()):
    """not_reach_f() on core.FAL."""
    from core import FAL
    fa = FAL.of(body)
    p = fa.path(list(A), list(B), avoid=frozenset(avoid), cut_edges=frozenset(cut_edges), incl=incl) if A and B else None
    return ctx.ob(rid, key, p is None, where=ctx.where(body, p[-1]) if p else body.span,
                  detail=ok_detail if p is None else bad_detail, witness={"path": p[:25] if p else None})


class BoolFacts:
    """What is known when a boolean has a given value / a branch edge is taken, in terms of *atoms*:
        ("call", bb)        the bool result of the call in block bb
        ("place", bb, idx)  the bool read from a projected place (a field, a captured variable) by statement idx of bb
    each with the polarity it must have had. Follows copies, `!`, `&` / `|` on bools, constants, and locals that are
    assigned on several paths (the materialised form of `a && !b`, of a helper `fn must_stop(&self) -> bool` spliced
    in place, of `let stop = ..; if stop`): a definition that cannot produce the wanted value is ruled out, and a
    definition contributes what is known on reaching its block (the branch edges that dominate it). Facts are
    necessary conditions (an intersection over the definitions that remain), never guesses; nothing known = {}.
    A fact set is a dict atom -> (polarity, provenance): provenance = the switch blocks whose outcome the fact rests on."""

    def __init__(self, body):
        self.b = body
        self.ba = BA.of(body)
        self._blk = {}
        self._busy = set()
        self._sw = [i for i in sorted(self.ba.live) if body.blocks[i]["term"]["t"] == "switch" and body.blocks[i]["term"]["discr_ty"] == "bool"
                    and not body.is_cleanup(i)]

    @staticmethod
    def _merge(a, b):
        """conjunction of two fact sets; None if contradictory"""
        if a is None or b is None:
            return None
        out = dict(a)
        for k, (v, pr) in b.items():
            if k in out:
                if out[k][0] != v:
                    return None
                out[k] = (v, out[k][1] | pr)
            else:
                out[k] = (v, pr)
        return out

    @staticmethod
    def _with(f, sw):
        return {k: (v, pr | frozenset([sw])) for k, (v, pr) in f.items()}

    def targets(self, sw):
        """(true_target, false_target) of the raw bool switch."""
        t = self.b.blocks[sw]["term"]
        f_t = None
        for v, tg in t["arms"]:
            if v == 0:
                f_t = tg
        return t["otherwise"], f_t

    def block_facts(self, bb):
        """Facts that hold whenever block bb is entered: the outcomes of the bool switches one of whose edges lies
        on every path to bb (and is not bypassed by a cycle through bb)."""
        if bb in self._blk:
            return self._blk[bb]
        if bb in self._busy:
            return {}
        self._busy.add(bb)
        acc = {}
        for sw in self._sw:
            if sw == bb or not self.ba.dominates(sw, bb):
                continue
            t_t, f_t = self.targets(sw)
            if f_t is None or t_t == f_t:
                continue
            for tg, want in ((t_t, True), (f_t, False)):
                if self.ba.edge_dominates((sw, tg), bb) and self.ba.path([bb], [bb], cut_edges=frozenset([(sw, tg)])) is None:
                    vf = self.value_facts(self.b.blocks[sw]["term"]["discr"], want)
                    if vf is not None:
                        m = self._merge(acc, self._with(vf, sw))
                        if m is not None:
                            acc = m
        self._busy.discard(bb)
        self._blk[bb] = acc
        return acc

    def value_facts(self, o, want, depth=0):
        """Facts implied by operand `o` (a bool) having the value `want`; None when it cannot have it."""
        c = op_const(o)
        if c is not None:
            if "bool" in c:
                return {} if c["bool"] == want else None
            return {}
        p = op_place(o)
        if p is None or p["p"] or depth > 16:
            return {}
        alld = self.ba.defs.get(p["l"], [])
        ds = [d for d in alld if d[0] in ("stmt", "call", "yield")]
        if not ds or len(ds) != len(alld):
            return {}
        results = []
        for d in ds:
            if d[0] == "call":
                f = {("call", d[1]): (want, frozenset())}
            elif d[0] == "yield":
                f = {}
            else:
                rv = d[3]
                k = rv["k"]
                if k == "use":
                    q = op_place(rv["op"])
                    if q is not None and q["p"]:
                        f = {("place", d[1], d[2]): (want, frozenset())}
                    else:
                        f = self.value_facts(rv["op"], want, depth + 1)
                elif k == "unop" and rv["op"] == "Not":
                    f = self.value_facts(rv["a"], not want, depth + 1)
                elif k == "binop" and rv["op"] in ("BitAnd", "BitOr"):
                    if (rv["op"] == "BitAnd") == want:
                        f = self._merge(self.value_facts(rv["a"], want, depth + 1), self.value_facts(rv["b"], want, depth + 1))
                    else:
                        f = {}
                else:
                    f = {}
            if f is None:
                continue
            f = self._merge(f, self.block_facts(d[1]))
            if f is None:
                continue
            results.append(f)
        if not results:
            return None
        facts = dict(results[0])
        for f2 in results[1:]:
            facts = {k: (v, pr | f2[k][1]) for k, (v, pr) in facts.items() if k in f2 and f2[k][0] == v}
        return facts

    def edge_facts(self, sw, tg):
        """Facts that hold when edge sw -> tg of a bool switch is taken (None: the edge cannot be taken)."""
        t_t, f_t = self.targets(sw)
        if tg not in (t_t, f_t) or t_t == f_t:
            return {}
        vf = self.value_facts(self.b.blocks[sw]["term"]["discr"], tg == t_t)
        if vf is None:
            return None
        return self._merge(self._with(vf, sw), self.block_facts(sw))

    def switches(self):
        return list(self._sw)



# ------------------------------------------------------------------------------------------------
# appended: calls of closure values built in the same body

_FN_CALL = re.compile(r"(<.* as )?core::ops::function::Fn(Mut|Once)?>?::call(_mut|_once)?")


def closure_call_targets(body, bb):
    """Closure / coroutine body keys that the `Fn*::call*` at block bb may run, resolved by *value*: the callee
    operand goes back (whole-local moves / borrows, any number of definitions) to closure aggregates built in this
    body. [] when bb is not such a call or the callee value comes from elsewhere (a parameter, a field).
    Covers the generic-callback call left behind when canon.py splices a helper `fn f<F: FnOnce(..)>(.., body: F)`
    into its caller: the operand keeps the helper's type parameter `F` as its type, only the value says what runs."""
    t = body.blocks[bb]["term"]
    if t.get("t") != "call" or not t["args"] or not any(_FN_CALL.fullmatch(p) for p in callee_paths(t)):
        return []
    ba = BA.of(body)
    out = []
    seen = set()
    todo = [op_local(t["args"][0])]
    while todo:
        l = todo.pop()
        if l is None or l in seen:
            continue
        seen.add(l)
        for d in ba.defs.get(l, []):
            if d[0] != "stmt":
                continue
            rv = d[3]
            if rv["k"] == "agg" and rv.get("agg") in ("closure", "coroutine", "coroutine_closure"):
                out.append(strip_generics(rv["def"]))
            elif rv["k"] in ("use", "cast"):
                p = op_place(rv["op"])
                if p is not None and (not p["p"] or p["p"] == ["deref"]):
                    todo.append(p["l"])
            elif rv["k"] == "ref":
                p = rv["place"]
                if not p["p"] or p["p"] == ["deref"]:
                    todo.append(p["l"])
    return sorted(set(out))


# ------------------------------------------------------------------------------------------------
# appended: variant-aware backward slice through identity steps

_TRY_BRANCH = re.compile(r"(<.* as )?core::ops::try_trait::Try>?::branch")
_FROM_RESIDUAL = re.compile(r"(<.* as )?core::ops::try_trait::FromResidual(<.*>)?>?::from_residual")
_UNWRAPS = re.compile(r"core::(result::Result|option::Option)::(unwrap|expect|unwrap_or_default|unwrap_or)")
_MAP_ERR = re.compile(r"core::result::Result::map_err")


def flow_origins(body, local, pend=(), depth=600):
    """Where does the value of `local` come from, by *direct* steps?  value_origins() extended with the
    identity-preserving steps of core.IDENTITY_CALLS and with borrows, so that it can replace C06.backward_direct
    where the slice crosses `?`: backward_direct follows `Try::branch` and `from_residual` as plain identity calls and so
    mixes the *error* half of every Result on the way into the slice (after a helper `fn f(..) -> Result<T>` with an
    inner `?` was spliced in, the helper's early `return Err(..)` value and everything it is made from become
    "origins" of the Ok value). Here a walk that is inside the Ok/Some payload of a value only continues through
    definitions that can hold that payload: `Ok{x}`/`Some{x}` aggregates, `Try::branch` of a Result/Option, `map_err`;
    `from_residual` and aggregates of the other variant are dead ends.

    Returns [(kind, bb, info)]: ('call', bb, term) a non-identity call whose result (or, with a pending payload read,
    whose result's payload) is the value; ('agg', bb, rvalue) an aggregate that is the value; ('param', None, n)
    parameter n; ('upvar', None, index) a captured variable; ('other', bb, None) anything else."""
    from core import IDENTITY_CALLS
    ba = BA.of(body)
    out = []
    seen = set()
    todo = [(local, tuple(pend))]
    n = 0
    while todo and n < depth:
        n += 1
        l, pend = todo.pop()
        if l is None or (l, pend) in seen:
            continue
        seen.add((l, pend))
        ds = [d for d in ba.defs.get(l, []) if d[0] in ("stmt", "call", "yield")]
        if 1 <= l <= body.arg_count and not pend:
            out.append(("param", None, l))
        if not ds:
            if not (1 <= l <= body.arg_count):
                out.append(("other", None, None))
            continue
        for d in ds:
            if d[0] == "yield":
                out.append(("other", d[1], None))
                continue
            if d[0] == "call":
                t = d[2]
                ps = callee_paths(t)
                a0 = op_place(t["args"][0]) if t["args"] else None
                if any(_FROM_RESIDUAL.fullmatch(p) for p in ps):
                    continue                                    # builds the failure variant only
                if any(_TRY_BRANCH.fullmatch(p) for p in ps):
                    if pend and pend[-1][0] == "Continue" and a0 is not None and not a0["p"]:
                        ty = (t.get("arg_tys") or [""])[0]
                        todo.append((a0["l"], pend[:-1] + (("Ok" if ty.startswith("core::result::Result") else "Some", pend[-1][1]),)))
                    elif not pend:
                        out.append(("other", d[1], None))
                    continue                                    # (a pending Break payload: the error half)
                if any(_MAP_ERR.fullmatch(p) for p in ps) and a0 is not None and not a0["p"]:
                    if pend and pend[-1][0] == "Err":
                        out.append(("call", d[1], t))
                    else:
                        todo.append((a0["l"], pend))
                    continue
                if any(_UNWRAPS.fullmatch(p) for p in ps) and a0 is not None and not a0["p"]:
                    ty = (t.get("arg_tys") or [""])[0]
                    todo.append((a0["l"], pend + (("Ok" if "result::Result" in ty else "Some", "0"),)))
                    continue
                if any(IDENTITY_CALLS.fullmatch(p) for p in ps) and a0 is not None and not pend:
                    u = upvar_index(a0)
                    if u is not None:
                        out.append(("upvar", None, u[0]))
                    elif not a0["p"] or a0["p"] == ["deref"]:
                        todo.append((a0["l"], ()))
                    else:
                        out.append(("other", d[1], None))
                    continue
                out.append(("call", d[1], t))
                continue
            rv = d[3]
            if rv["k"] in ("use", "cast"):
                p = op_place(rv["op"])
                if p is None:
                    out.append(("other", d[1], None))
                    continue
                u = upvar_index(p)
                if u is not None:
                    out.append(("upvar", None, u[0]))
                    continue
                proj = [e for e in p["p"] if e != "deref"]
                add = []
                ok = True
                i = 0
                while i < len(proj):
                    if proj[i].startswith("as:") and i + 1 < len(proj) and proj[i + 1].startswith("f:"):
                        add.append((proj[i][3:], proj[i + 1][2:].rsplit(".", 1)[-1]))
                        i += 2
                    else:
                        ok = False
                        break
                if not ok:
                    out.append(("other", d[1], None))
                    continue
                todo.append((p["l"], pend + tuple(reversed(add))))
            elif rv["k"] == "ref":
                p = rv["place"]
                u = upvar_index(p)
                if u is not None:
                    out.append(("upvar", None, u[0]))
                elif all(e == "deref" for e in p["p"]):
                    todo.append((p["l"], pend))
                else:
                    out.append(("other", d[1], None))
            elif rv["k"] == "agg" and rv.get("agg") == "adt":
                if not pend:
                    out.append(("agg", d[1], rv))
                else:
                    var, fld = pend[-1]
                    if rv.get("variant") != var:
                        continue
                    for f, o in zip(rv.get("fields", []), rv["ops"]):
                        if f == fld:
                            q = op_place(o)
                            if q is not None and not q["p"]:
                                todo.append((q["l"], pend[:-1]))
                            else:
                                out.append(("other", d[1], None))
            else:
                out.append(("other", d[1], None))
    return out



# ------------------------------------------------------------------------------------------------
# appended: helpers of the jobserver / scheduler rules (C08, C09)

def cell_origins(body, o, depth=400):
    """Where can the value of operand `o` come from?  Backward over whole-local copies / moves (every definition
    of a local that is assigned on several paths), borrows and reborrows, and *struct fields*: reading `X.f`
    continues at every assignment of a place ending in field f in this body and at f's operand in every
    aggregate of f's struct (a loop variable kept in a field of a state struct is followed like a loop variable
    kept in a local). Returns [("call", bb, term) | ("const", bb, const) | ("other", bb, rvalue-or-None)]: calls
    that are not whole-value moves, constants, and everything else (parameters, arithmetic, ...)."""
    ba = BA.of(body)
    out = []
    seen = set()
    todo = [("op", o)]
    n = 0

    def push_place(p):
        fs = [e for e in p["p"] if e != "deref"]
        if not fs:
            todo.append(("local", p["l"]))
        elif fs[-1].startswith("f:"):
            todo.append(("field", fs[-1][2:]))
            # a field of a local aggregate built in one piece is also reached through the local
        else:
            out.append(("other", None, None))

    while todo and n < depth:
        n += 1
        kind, x = todo.pop()
        if kind == "op":
            c = op_const(x)
            if c is not None:
                out.append(("const", None, c))
                continue
            p = op_place(x)
            if p is not None:
                push_place(p)
            continue
        if (kind, x) in seen:
            continue
        seen.add((kind, x))
        if kind == "local":
            ds = [d for d in ba.defs.get(x, []) if d[0] in ("stmt", "call", "yield")]
            if not ds:
                out.append(("other", None, None))
            for d in ds:
                if d[0] == "call":
                    out.append(("call", d[1], d[2]))
                elif d[0] == "yield":
                    out.append(("other", d[1], None))
                else:
                    rv = d[3]
                    if rv["k"] == "use":
                        todo.append(("op", rv["op"]))
                    elif rv["k"] == "ref":
                        push_place(rv["place"])
                    else:
                        out.append(("other", d[1], rv))
        else:
            adt, _, fname = x.rpartition(".")
            found = False
            for (bb, j, s) in field_writes(body, re.escape(x)):
                found = True
                rv = s["rv"]
                if rv["k"] == "use":
                    todo.append(("op", rv["op"]))
                else:
                    out.append(("other", bb, rv))
            for i in sorted(ba.live):
                if body.is_cleanup(i):
                    continue
                for s in body.blocks[i]["stmts"]:
                    rv = s["rv"] if s["s"] == "assign" else None
                    if rv is not None and rv["k"] == "agg" and rv.get("agg") == "adt" and rv.get("adt") == adt and fname in (rv.get("fields") or []):
                        found = True
                        todo.append(("op", rv["ops"][rv["fields"].index(fname)]))
            if not found:
                out.append(("other", None, None))
    if todo:
        out.append(("other", None, None))
    return out


class Lin:
    """A linear expression  c + sum(k_i * atom_i)  with integer coefficients (atoms are hashable tokens)."""
    __slots__ = ("c", "t")

    def __init__(self, c=0, t=None):
        self.c = c
        self.t = {k: v for k, v in (t or {}).items() if v != 0}

    @staticmethod
    def atom(a):
        return Lin(0, {a: 1})

    def __add__(self, o):
        t = dict(self.t)
        for k, v in o.t.items():
            t[k] = t.get(k, 0) + v
        return Lin(self.c + o.c, t)

    def __neg__(self):
        return Lin(-self.c, {k: -v for k, v in self.t.items()})

    def __sub__(self, o):
        return self + (-o)

    def scale(self, k):
        return Lin(self.c * k, {a: v * k for a, v in self.t.items()})

    def __eq__(self, o):
        return isinstance(o, Lin) and self.c == o.c and self.t == o.t

    def __ne__(self, o):
        return not self.__eq__(o)

    def __hash__(self):
        return hash((self.c, tuple(sorted(self.t.items(), key=repr))))

    def const(self):
        """The integer value if the expression is a constant, else None."""
        return self.c if not self.t else None

    def atoms(self):
        return set(self.t)

    def __repr__(self):
        parts = [("%+d*%s" % (v, a)) for a, v in sorted(self.t.items(), key=repr)]
        return "Lin(%s%s)" % (self.c, "".join(parts))


def lin_of(body, o, depth=40):
    """Operand `o` as a linear expression over the values it is computed from, by backward substitution through
    single-definition locals: copies / moves, integer casts, `+` / `-` (plain, unchecked or the checked-arithmetic
    pair `(a op b).0`), multiplication by a constant, negation. Atoms are ('l', n): a local that is a parameter,
    assigned on several paths, or defined by anything else (a call, a field read, a comparison ...), after following
    whole-local copies.  Two operands denote the same amount on every execution if their expressions are equal
    (sound as long as the atoms are not reassigned in between, which single definitions guarantee; a local with
    several definitions is an atom of its own and so only equal to itself)."""
    ba = BA.of(body)

    def ev_op(o, d):
        k = const_int(o)
        if k is not None:
            return Lin(k)
        p = op_place(o)
        if p is None:
            return Lin.atom(("?", id(o)))
        return ev_place(p, d)

    def ev_place(p, d):
        proj = p["p"]
        if proj == ["f:tuple.0"]:
            df = ba.single_def(p["l"])
            if df is not None and df[0] == "stmt" and df[3]["k"] == "binop" and df[3]["op"].endswith("WithOverflow"):
                return ev_rv(df[3], p["l"], d)
            return Lin.atom(("l", p["l"], "0"))
        if proj:
            return Lin.atom(("p", p["l"], tuple(proj)))
        return ev_local(p["l"], d)

    def ev_local(l, d):
        if d <= 0:
            return Lin.atom(("l", l))
        df = ba.single_def(l)
        if df is None or df[0] != "stmt" or any(x[0] in ("field", "callfield") for x in ba.defs.get(l, [])):
            return Lin.atom(("l", l))
        return ev_rv(df[3], l, d - 1)

    def ev_rv(rv, l, d):
        k = rv["k"]
        if k == "use":
            c = op_const(rv["op"])
            if c is not None and "int" not in c:
                return Lin.atom(("l", l))
            p = op_place(rv["op"])
            if p is not None and p["p"] and p["p"] != ["f:tuple.0"]:
                return Lin.atom(("l", l))          # a field / payload read: the local that holds it is the atom
            return ev_op(rv["op"], d)
        if k == "cast" and rv.get("cast") == "IntToInt":
            return ev_op(rv["op"], d)
        if k == "binop":
            op = rv["op"]
            base = op.replace("WithOverflow", "").replace("Unchecked", "")
            if base in ("Add", "Sub"):
                a, b_ = ev_op(rv["a"], d), ev_op(rv["b"], d)
                return a + b_ if base == "Add" else a - b_
            if base == "Mul":
                ka, kb = const_int(rv["a"]), const_int(rv["b"])
                if kb is not None:
                    return ev_op(rv["a"], d).scale(kb)
                if ka is not None:
                    return ev_op(rv["b"], d).scale(ka)
        if k == "unop" and rv["op"] == "Neg":
            return -ev_op(rv["a"], d)
        return Lin.atom(("l", l))

    return ev_op(o, depth)



# ------------------------------------------------------------------------------------------------
# appended: which enum variant does an operand hold at a call site, per side of a branch (used by R2.5 / R14.x)

def reaching_variants(body, starts, at_bb, operand, avoid=()):
    """Variant names the enum-valued `operand` of block at_bb's terminator may hold when at_bb is reached from the
    blocks `starts` (nothing known on entry; feasible paths, core.FA) without entering a block of `avoid`.
    A constant operand or a local built by one aggregate answers directly; a local assigned on several paths
    (`let mode = if c { A } else { B }; .. f(mode)`) answers with the definitions that reach at_bb from `starts`:
    a definition reaches when its block is reachable from `starts` and at_bb from it without passing another
    definition of the same local. Returns a set of names; it contains None when a reaching definition is not a plain
    variant (unknown value)."""
    from core import FA
    ba = BA.of(body)
    fa = FA.of(body)
    c = op_const(operand)
    if c is not None:
        return {c.get("variant")}
    l = op_local(operand)
    if l is None or op_place(operand)["p"]:
        return {None}
    region = fa.reach_incl(list(starts), avoid=frozenset(avoid))
    if at_bb not in region:
        return set()
    out = set()
    seen = set()
    todo = [(l, at_bb)]
    while todo:
        x, use_bb = todo.pop()
        if (x, use_bb) in seen:
            continue
        seen.add((x, use_bb))
        ds = [d for d in ba.defs.get(x, []) if d[0] in ("stmt", "call", "yield")]
        if not ds or any(d[0] == "field" or d[0] == "callfield" for d in ba.defs.get(x, [])):
            out.add(None)
            continue
        blocks = {d[1] for d in ds}
        for d in ds:
            db = d[1]
            if len(ds) > 1:
                if db not in region:
                    continue
                if db != use_bb and ba.path([db], [use_bb], avoid=frozenset(blocks - {db}), incl=False) is None:
                    continue
            if d[0] != "stmt":
                out.add(None)
                continue
            rv = d[3]
            if rv["k"] == "agg" and rv.get("agg") == "adt" and rv.get("variant") is not None:
                out.add(rv["variant"])
            elif rv["k"] == "use" and op_const(rv["op"]) is not None:
                out.add(op_const(rv["op"]).get("variant"))
            elif rv["k"] == "use" and op_place(rv["op"]) is not None and not op_place(rv["op"])["p"]:
                todo.append((op_local(rv["op"]), db))
            else:
                out.add(None)
    return out


def returned_ok_blocks(body):
    """Blocks that build a `Result::Ok` value which the body *returns* (value origins of the return place) - unlike
    "every Ok aggregate in the body", this leaves out the Ok results of Result-returning helpers that canon spliced
    in (they feed a `?` of the body, not its return value)."""
    ba = BA.of(body)
    return sorted({bb for kind, bb, rv in value_origins(body, 0)
                   if kind == "agg" and rv.get("adt") == "core::result::Result" and rv.get("variant") == "Ok" and bb in ba.live and not body.is_cleanup(bb)})


# ------------------------------------------------------------------------------------------------
# appended: a closure that a body builds and runs itself is part of that body

_SPLICED = {}
_MARK = 10 ** 9
_FN_CALL = re.compile(r"(<.* as )?core::ops::function::Fn(Mut|Once)?(<.*>)?>?::call(_mut|_once)?")


def _local_closure_call_sites(prog, body):
    """[(call block, closure body, closure-aggregate operands or None)] calls in `body` that run a closure whose
    aggregate is built in `body` itself (`let f = |..| ..; f(..)`, or a closure handed to a generic helper
    `with_txn(env, |ptx, me| ..)` that canon spliced into `body`, so that construction and `FnOnce::call_once`
    now sit in the same body)."""
    ba = BA.of(body)
    out = []
    for i in ba.all_calls():
        t = body.blocks[i]["term"]
        if len(t.get("args", [])) != 2 or not any(_FN_CALL.fullmatch(p) for p in callee_paths(t)) and not _FN_CALL.fullmatch(strip_generics(t.get("callee", "")) or ""):
            continue
        l0 = op_local(t["args"][0])
        if l0 is None or op_place(t["args"][0])["p"]:
            continue
        for x in ba.ref_chain(l0):
            d = ba.single_def(x)
            if d and d[0] == "stmt" and d[3]["k"] == "agg" and d[3].get("agg") == "closure":
                cb = prog.bodies.get(strip_generics(d[3]["def"]))
                if cb is not None and cb.kind == "Closure" and not cb.coroutine and cb.key != body.key:
                    out.append((i, cb, d[3]["ops"]))
                break
    return out


def splice_local_closures(prog, body, rounds=4):
    """`body` with every closure it builds *and calls itself* spliced in at the call (same key, same span; a new
    Body object, cached). Rules stated on "the command's body" then see the statements of a closure the command runs
    inside its transaction skeleton exactly as if they were written in line: must-pass-through, dominance and value
    flow go through. Parameter passing: the closure's environment local is the closure value, its other parameters are
    the elements of the argument tuple; reads of a captured variable are rewritten to the captured operand when that
    is a plain local. Bodies without such call sites are returned unchanged."""
    import copy
    import canon
    from facts import Body
    ck = (id(prog), body.key)
    if ck in _SPLICED:
        return _SPLICED[ck]
    cur = body
    for _ in range(rounds):
        sites = _local_closure_call_sites(prog, cur)
        if not sites:
            break
        bb, cb, cops = sites[0]
        B = copy.deepcopy(cur.d)
        H = copy.deepcopy(cb.d)
        t = B["blocks"][bb]["term"]
        cba = BA.of(cur)
        # spread the argument tuple
        tl = op_local(t["args"][1])
        td = cba.single_def(tl) if tl is not None else None
        n = H["arg_count"] - 1
        if td and td[0] == "stmt" and td[3]["k"] == "agg" and td[3].get("agg") == "tuple" and len(td[3]["ops"]) == n and td[1] == bb:
            spread = [copy.deepcopy(o) for o in td[3]["ops"]]
        else:
            spread = [{"move": {"l": tl, "p": ["f:tuple.%d" % j]}} for j in range(n)] if tl is not None else []
        if len(spread) != n:
            break
        # captured variables: `_1.upvar.N` (or `(*_1).upvar.N`) reads become reads of the captured operand
        caps = {}
        for k_, o in enumerate(cops or []):
            p = op_place(o)
            if p is not None:
                caps[k_] = p

        def fix(v):
            if isinstance(v, dict):
                if "l" in v and "p" in v and v["l"] == 1 and isinstance(v["p"], list):
                    pr = list(v["p"])
                    j = 0
                    while j < len(pr) and pr[j] == "deref":
                        j += 1
                    if j < len(pr) and isinstance(pr[j], str) and pr[j].startswith("f:upvar."):
                        idx = int(pr[j][2:].split(".", 2)[1])
                        if idx in caps:
                            return {"l": -(_MARK + idx), "p": pr[j + 1:]}
                    return v
                return {k: fix(x) for k, x in v.items()}
            if isinstance(v, list):
                return [fix(x) for x in v]
            return v
        H["blocks"] = fix(H["blocks"])
        t["args"] = [t["args"][0]] + spread
        loff = len(B["locals"])
        canon._inline_one(B, bb, H)

        def unfix(v):
            # captured operands live in the enclosing body: undo the shift canon applied to the marker locals
            if isinstance(v, dict):
                if "l" in v and "p" in v and isinstance(v["l"], int) and v["l"] - loff <= -_MARK:
                    cp = caps[-(v["l"] - loff) - _MARK]
                    return {"l": cp["l"], "p": list(cp["p"]) + list(v["p"])}
                return {k: unfix(x) for k, x in v.items()}
            if isinstance(v, list):
                return [unfix(x) for x in v]
            return v
        B["blocks"] = unfix(B["blocks"])
        cur = Body(body.unit, B)
    _SPLICED[ck] = cur
    return cur


def str_literals(body):
    """Every string literal the body mentions: core.str_consts plus `&str` constants that reach MIR as a type-level
    constant (a string used as a *pattern*: `if let (NAME, Some(x)) = (s, y)`, `match s { "lit" => .. }`), which carry
    only their pretty-printed form."""
    out = [s for (_, _, s, _) in str_consts(body)]
    live = body.reachable()

    def visit(c):
        if c is not None and "str" not in c and c.get("ty") == "&str":
            pr = c.get("tyconst") or c.get("pretty") or ""
            m = re.fullmatch(r'(?:const )?"(.*)"', pr, re.S)
            if m:
                out.append(m.group(1).replace('\\"', '"').replace("\\\\", "\\"))
    from core import rvalue_consts
    for i, blk in enumerate(body.blocks):
        if i not in live:
            continue
        for s in blk["stmts"]:
            if s["s"] == "assign":
                for c in rvalue_consts(s["rv"]):
                    visit(c)
        t = blk["term"]
        if t["t"] == "call":
            for a in t["args"]:
                visit(op_const(a))
    return out


def failure_continuations(body, call_bb):
    """Blocks entered exactly when the Result returned by the call at `call_bb` is a failure, for the idioms that consume
    it: `if r.is_err()` / `if r.is_ok()` (true / false arm), `r?` and `r.map_err(..)?` / `.ok_or..` chains (the residual arm
    of the Try::branch switch), and a `match r` on the result's own discriminant (the Err arm)."""
    ba = BA.of(body)
    t0 = body.blocks[call_bb]["term"]
    dest = t0.get("dest", {}).get("l") if t0.get("dest") else None
    if dest is None:
        return []
    conv = re.compile(r"core::result::Result::(map_err|map|or_else|and_then)|core::option::Option::(ok_or|ok_or_else)")
    # locals holding the result (or a success-preserving conversion of it)
    holds = {dest}
    changed = True
    while changed:
        changed = False
        for i in ba.live:
            blk = body.blocks[i]
            for st in blk["stmts"]:
                if st["s"] == "assign" and not st["place"]["p"] and st["rv"]["k"] == "use":
                    q = op_place(st["rv"]["op"])
                    if q is not None and not q["p"] and q["l"] in holds and st["place"]["l"] not in holds:
                        holds.add(st["place"]["l"])
                        changed = True
            t = blk["term"]
            if t["t"] == "call" and t.get("dest") and not t["dest"]["p"] and any(conv.fullmatch(p) for p in callee_paths(t)):
                a0 = op_local(t["args"][0]) if t.get("args") else None
                if a0 in holds and t["dest"]["l"] not in holds:
                    holds.add(t["dest"]["l"])
                    changed = True
    out = []
    for (sw, t_t, f_t, cbb) in ba.switches_on_call(r"core::result::Result::is_err"):
        a = body.blocks[cbb]["term"]["args"][0]
        if op_local(a) in holds or any(x in holds for x in ba.ref_chain(op_local(a)) if op_local(a) is not None):
            out.append(t_t)
    for (sw, t_t, f_t, cbb) in ba.switches_on_call(r"core::result::Result::is_ok"):
        a = body.blocks[cbb]["term"]["args"][0]
        if op_local(a) in holds or any(x in holds for x in ba.ref_chain(op_local(a)) if op_local(a) is not None):
            out.append(f_t)
    for (i, brk, cont, src) in ba.try_sites():
        a0 = op_local(body.blocks[i]["term"]["args"][0])
        if a0 in holds and brk is not None:
            out.append(brk)
    for i in ba.live:
        es = ba.enum_switch(i)
        if es is None:
            continue
        subj, arms, _ = es
        if isinstance(subj, dict) and not subj["p"] and subj["l"] in holds and arms.get(1) is not None and not any(i == nxt for (tb, _, _, _) in ba.try_sites() for nxt in [body.blocks[tb]["term"].get("target")]):
            out.append(arms[1])
    return sorted(set(out))


def decisive_switches_on_call(body, rx):
    """switches_on_call(rx) with re-tests of one call's result folded: when the bool result of a single call is kept in a
    local and branched on more than once (`let found = p.exists(); let mode = if found {..}; ..; if found {return ..}`),
    the switch that dominates the others is the decision (feasible-path analysis follows the later ones from it)."""
    ba = BA.of(body)
    sws = ba.switches_on_call(rx)
    by_call = {}
    for e in sws:
        by_call.setdefault(e[3], []).append(e)
    out = []
    for cbb, es in sorted(by_call.items()):
        first = [e for e in es if all(e is o or ba.dominates(e[0], o[0]) for o in es)]
        out.append(first[0] if first else es[0])
        if not first:
            out.extend(es[1:])
    return out


def calls_or_fnitem_calls(body, rx):
    """Blocks of `body` that call a function matching rx: direct calls, and `Fn*::call*` calls whose callee value goes
    back (by direct steps) to the fn item itself - a predicate handed to a generic helper (`list_files(File::is_target)`)
    that was spliced into this body."""
    from rules.C06 import backward_direct
    ba = BA.of(body)
    out = set(ba.calls(rx))
    rxc = re.compile(rx) if isinstance(rx, str) else rx
    for i in ba.calls(r"core::ops::function::Fn(Mut|Once)?::call(_mut|_once)?"):
        t = body.blocks[i]["term"]
        if not t.get("args"):
            continue
        c0 = op_const(t["args"][0])
        names = []
        if c0 and "fn" in c0:
            names.append(strip_generics(c0["fn"]))
        l = op_local(t["args"][0])
        if l is not None:
            sl, org, _ = backward_direct(body, l, depth=60)
            for x in sl:
                for d in ba.defs.get(x, []):
                    if d[0] == "stmt":
                        from core import rvalue_consts
                        for c in rvalue_consts(d[3]):
                            if "fn" in c:
                                names.append(strip_generics(c["fn"]))
        if any(rxc.fullmatch(n) for n in names):
            out.add(i)
    return sorted(out)



# ------------------------------------------------------------------------------------------------
# feasibility over one integer status local compared with a constant (R4.8)

def int_root(body, x):
    """The local an integer temporary is a plain copy of (`_n = copy rv` right before `_n == 0`), else x."""
    ba = BA.of(body)
    for _ in range(6):
        d = ba.single_def(x)
        if d and d[0] == "stmt" and d[3]["k"] == "use" and op_local(d[3]["op"]) is not None and not op_place(d[3]["op"])["p"]:
            x = op_local(d[3]["op"])
        else:
            break
    return x


def int_status_path(body, var, value, via, goals):
    """A path entry -> `via` -> a block of `goals` that can execute as far as (a) the enum / bool / Option knowledge of
    core.FAL and (b) the integer local `var` are concerned: walks (block, env, s, passed) with s in {None (unknown),
    'eq' (var == value), 'ne'}; `var := const` fixes s, any other assignment to `var` forgets it, and a branch on
    `var ==/!= value` (directly or on a fresh copy) takes only the arm s allows (an unknown s takes both and learns).
    Returns the block list or None. If `var` is ever borrowed mutably s stays unknown (more paths, never fewer)."""
    from core import FAL
    fa = FAL.of(body)
    frozen = False
    for blk in body.blocks:
        for st in blk["stmts"]:
            if st["s"] == "assign" and st["rv"]["k"] in ("ref", "rawptr") and st["rv"]["place"]["l"] == var and (st["rv"].get("mut") or st["rv"]["k"] == "rawptr"):
                frozen = True
    sws = {}
    if not frozen:
        for (sw, ne_t, eq_t, x) in cmp_const_switches(body, value):
            if int_root(body, x) == var:
                sws[sw] = (ne_t, eq_t)
    goals = set(goals)

    def after_stmts(bb, s):
        for st in body.blocks[bb]["stmts"]:
            if st["s"] == "assign" and st["place"]["l"] == var and not st["place"]["p"]:
                c = const_int(st["rv"]["op"]) if st["rv"]["k"] == "use" else None
                s = None if c is None else ("eq" if c == value else "ne")
        t = body.blocks[bb]["term"]
        if t["t"] == "call" and t["dest"]["l"] == var:
            s = None
        return s

    start = (0, (), None, via == 0)
    prev = {start: None}
    todo = [start]
    while todo:
        st = todo.pop(0)
        bb, envt, s, passed = st
        if len(prev) > 400000:
            return BA.of(body).path([via], list(goals))
        if bb in goals and passed and not (bb == via and prev[st] is None):
            out = []
            while st is not None:
                out.append(st[0])
                st = prev[st]
            return list(reversed(out))
        s2 = after_stmts(bb, s)
        for (x, e) in fa.step(bb, envt):
            s3 = s2
            if bb in sws:
                ne_t, eq_t = sws[bb]
                if x == eq_t and x != ne_t:
                    if s2 == "ne":
                        continue
                    s3 = "eq"
                elif x == ne_t and x != eq_t:
                    if s2 == "eq":
                        continue
                    s3 = "ne"
            n = (x, e, s3, passed or x == via)
            if n not in prev:
                prev[n] = st
                todo.append(n)
    return None


# ------------------------------------------------------------------------------------------------
# the same feasibility question when the status does not live in one local: it may be kept in a field of a state struct
# (`self.rv`, reached through `&mut self` of helper methods spliced into the body) and copied between cells (R4.10)

def place_key(body, pl, depth=8):
    """Canonical name of a memory cell: (root local, projection tuple), seen through single-definition borrows
    (`s = &mut X; (*s).f` is `X.f`) and whole-value moves (`s = move X; s.f` is `X.f`)."""
    ba = BA.of(body)
    l, proj = pl["l"], list(pl["p"])
    for _ in range(depth):
        d = ba.single_def(l)
        if d is None or d[0] != "stmt" or l <= body.arg_count:
            break
        rv = d[3]
        if rv["k"] in ("ref", "rawptr") and proj and proj[0] == "deref":
            l, proj = rv["place"]["l"], list(rv["place"]["p"]) + proj[1:]
            continue
        if rv["k"] == "use" and op_place(rv["op"]) is not None and (proj or True):
            src = op_place(rv["op"])
            # a plain copy of an integer is a new cell (handled by the propagation); a move/copy of a struct or of a
            # reference carries its fields / referent along
            if not proj:
                break
            l, proj = src["l"], list(src["p"]) + proj
            continue
        break
    return (l, tuple(proj))


def status_family(body, seed_local):
    """Cells the integer status travels through: the seed local and everything connected to it by plain copies."""
    fam = {(seed_local, ())}
    copies = []
    for blk in body.blocks:
        for st in blk["stmts"]:
            if st["s"] == "assign" and st["rv"]["k"] == "use" and op_place(st["rv"]["op"]) is not None:
                copies.append((place_key(body, st["place"]), place_key(body, op_place(st["rv"]["op"]))))
    changed = True
    while changed:
        changed = False
        for a, b in copies:
            if (a in fam) != (b in fam):
                fam |= {a, b}
                changed = True
    return fam


def status_failure_blocks(body, fam, value=0):
    """{block: constants} where a cell of the family is assigned a constant other than `value`."""
    out = {}
    for i in sorted(BA.of(body).live):
        for st in body.blocks[i]["stmts"]:
            if st["s"] == "assign" and st["rv"]["k"] == "use" and place_key(body, st["place"]) in fam:
                c = const_int(st["rv"]["op"])
                if c is not None and c != value:
                    out.setdefault(i, set()).add(c)
    return out


def status_path_avoiding(body, fam, value, via, goals, avoid=()):
    return status_path(body, fam, value, via, goals, avoid=frozenset(avoid))


def status_path(body, fam, value, via, goals, avoid=frozenset()):
    """int_status_path over a family of cells: the abstract state maps each cell to 'eq' / 'ne' (absent = unknown);
    `cell := const` fixes it, `cell := copy other` copies the knowledge, any other write forgets it, a call that is
    handed a mutable borrow of a cell's root forgets the cells below that root; a branch on `cell ==/!= value` (directly
    or on a fresh copy) takes only the arm the state allows and otherwise learns, for the temporary and for the cell
    it was copied from. More unknowns mean more paths, never fewer."""
    from core import FAL
    fa = FAL.of(body)
    ba = BA.of(body)
    roots = {r for (r, _) in fam}
    sws = {}
    for (sw, ne_t, eq_t, x) in cmp_const_switches(body, value):
        cells = []
        cur = (x, ())
        for _ in range(6):
            if cur in fam:
                cells.append(cur)
            d = ba.single_def(cur[0]) if not cur[1] else None
            if d and d[0] == "stmt" and d[3]["k"] == "use" and op_place(d[3]["op"]) is not None:
                cur = place_key(body, op_place(d[3]["op"]))
            else:
                break
        if cells:
            sws[sw] = (ne_t, eq_t, cells)
    goals = set(goals)

    def after(bb, env):
        env = dict(env)
        for st in body.blocks[bb]["stmts"]:
            if st["s"] != "assign":
                continue
            k = place_key(body, st["place"])
            if k in fam:
                if st["rv"]["k"] == "use":
                    c = const_int(st["rv"]["op"])
                    src = op_place(st["rv"]["op"])
                    if c is not None:
                        env[k] = "eq" if c == value else "ne"
                    elif src is not None and env.get(place_key(body, src)) is not None:
                        env[k] = env[place_key(body, src)]
                    else:
                        env.pop(k, None)
                else:
                    env.pop(k, None)
            elif not k[1] and k[0] in roots:
                # the whole root is overwritten
                for c_ in [c_ for c_ in env if c_[0] == k[0]]:
                    env.pop(c_)
        t = body.blocks[bb]["term"]
        if t["t"] == "call":
            dk = place_key(body, t["dest"])
            env.pop(dk, None)
            for a in t["args"]:
                al = op_local(a)
                if al is None:
                    continue
                p = ba.resolve_ref(al)
                if p is not None and place_key(body, p)[0] in roots:
                    r0, pr0 = place_key(body, p)
                    # a borrow of `root.f` can change cells below `root.f` only (through a `deref` anything below that root)
                    for c_ in [c_ for c_ in env if c_[0] == r0 and c_[1] and (c_[1][:len(pr0)] == pr0 or pr0[:len(c_[1])] == c_[1])]:
                        env.pop(c_)
        return env

    start = (0, (), (), via == 0)
    prev = {start: None}
    todo = [start]
    while todo:
        st = todo.pop(0)
        bb, envt, senv, passed = st
        if len(prev) > 400000:
            return ba.path([via], list(goals))
        if bb in goals and passed and not (bb == via and prev[st] is None):
            out = []
            while st is not None:
                out.append(st[0])
                st = prev[st]
            return list(reversed(out))
        env2 = after(bb, dict(senv))
        for (x, e) in fa.step(bb, envt):
            if passed and x in avoid:
                continue
            env3 = env2
            if bb in sws:
                ne_t, eq_t, cells = sws[bb]
                known = {env2.get(c_) for c_ in cells} - {None}
                want = "eq" if (x == eq_t and x != ne_t) else ("ne" if (x == ne_t and x != eq_t) else None)
                if want is not None:
                    if known and want not in known:
                        continue
                    env3 = dict(env2)
                    for c_ in cells:
                        env3[c_] = want
            n = (x, e, tuple(sorted(env3.items())), passed or x == via)
            if n not in prev:
                prev[n] = st
                todo.append(n)
    return None
